// Command check_race is the auxiliary free-running pass of C20: the same operation alphabet as the
// model checker, but on the UNinstrumented library built with -race, with 32 real goroutines per
// configuration.  It is not the deciding step (schedules are whatever the runtime produces); it
// is the safety net for accesses the syntactic instrumenter cannot see (local aliases, code in
// other files such as the transaction hash cache).  Run with GORACE="halt_on_error=1 exitcode=66".
package main

import (
	"bytes"
	"fmt"
	"os"
	"sync"

	"github.com/gcash/bchd/chaincfg/chainhash"
	"github.com/gcash/bchd/wire"
	"github.com/gcash/bchutil"
	"github.com/gcash/bchutil/bloom"
	"github.com/gcash/bchutil/gcs"
)

var ops = []string{"Add:x", "Add:y", "AddHash", "AddOutPoint", "Matches:x", "Matches:y", "MatchesOutPoint", "MatchTx", "Reload", "Unload", "IsLoaded", "Msg"}

func main() {
	configs := 200
	const k = 32
	itemX := append([]byte{0x02}, bytes.Repeat([]byte{0x5a}, 32)...)
	itemY := []byte("y-item")
	hashH := chainhash.Hash{0x11, 0x22, 0x33}
	outO := wire.OutPoint{Hash: chainhash.Hash{0x44, 0x55}, Index: 7}
	tx := wire.NewMsgTx(1)
	ext := wire.OutPoint{Hash: chainhash.Hash{0x99}, Index: 1}
	tx.AddTxIn(wire.NewTxIn(&ext, []byte{0x51}))
	tx.AddTxOut(wire.NewTxOut(5, append(append([]byte{33}, itemX...), 0xac), wire.TokenData{}))
	gkey := [16]byte{1, 2, 3}
	gf, _ := gcs.BuildGCSFilter(19, 784931, gkey, [][]byte{[]byte("a"), []byte("b"), []byte("c"), []byte("d")})
	var bigSet [][]byte
	for i := 0; i < 1100; i++ {
		bigSet = append(bigSet, []byte(fmt.Sprintf("m%04d", i)))
	}
	bgf, _ := gcs.BuildGCSFilter(19, 784931, gkey, bigSet)
	bigQ := [][]byte{[]byte("nope"), []byte("m0500"), []byte("zz"), []byte("m1099")}
	total := 0
	for cfg := 0; cfg < configs; cfg++ {
		m0 := wire.NewMsgFilterLoad(make([]byte, 1+cfg%3), uint32(1+cfg%2), 0x1234, wire.BloomUpdateAll)
		m1 := wire.NewMsgFilterLoad(make([]byte, 2), 2, 0x9999, wire.BloomUpdateAll)
		f := bloom.LoadFilter(m0)
		var wg sync.WaitGroup
		start := make(chan struct{})
		for g := 0; g < k; g++ {
			wg.Add(1)
			go func(g int) {
				defer wg.Done()
				mytx := bchutil.NewTx(tx)
				// a filter of this goroutine's own: nothing is shared with the others except what the
				// package shares between all filters (scratch buffers, pools, tables)
				own := bloom.LoadFilter(wire.NewMsgFilterLoad(make([]byte, 8), 2, uint32(g), wire.BloomUpdateAll))
				ownOut := wire.OutPoint{Hash: chainhash.Hash{byte(g), 0x77}, Index: uint32(g)}
				<-start
				for step := 0; step < 3; step++ {
					op := ops[(cfg*7+g*13+step*5)%len(ops)]
					switch op {
					case "Add:x":
						f.Add(itemX)
					case "Add:y":
						f.Add(itemY)
					case "AddHash":
						f.AddHash(&hashH)
					case "AddOutPoint":
						o := outO
						f.AddOutPoint(&o)
					case "Matches:x":
						f.Matches(itemX)
					case "Matches:y":
						f.Matches(itemY)
					case "MatchesOutPoint":
						o := outO
						f.MatchesOutPoint(&o)
					case "MatchTx":
						f.MatchTxAndUpdate(mytx)
					case "Reload":
						f.Reload(m1)
					case "Unload":
						f.Unload()
					case "IsLoaded":
						f.IsLoaded()
					case "Msg":
						f.MsgFilterLoad()
					}
					own.AddOutPoint(&ownOut)
					own.Add(itemY)
					own.AddHash(&hashH)
					if !own.MatchesOutPoint(&ownOut) || !own.Matches(itemY) {
						fmt.Println("own filter lost an insertion")
						os.Exit(3)
					}
					own.MatchTxAndUpdate(mytx)
					bgf.HashMatchAny(gkey, bigQ)
					bgf.ZipMatchAny(gkey, bigQ[:3])
					// GCS queries on the shared immutable filter
					switch (g + step) % 4 {
					case 0:
						gf.Match(gkey, []byte("a"))
					case 1:
						gf.MatchAny(gkey, [][]byte{[]byte("x"), []byte("c")})
					case 2:
						gf.HashMatchAny(gkey, [][]byte{[]byte("x"), []byte("c")})
					case 3:
						gf.ZipMatchAny(gkey, [][]byte{[]byte("x"), []byte("c")})
					}
				}
			}(g)
		}
		close(start)
		wg.Wait()
		total += k
	}
	// Many goroutines, insertions only, on ONE filter: insertions commute, so whatever the schedule the
	// final bit array is the one a sequential run produces and every inserted item is present.  (The
	// explorer's configurations have 2-3 threads; a defect that needs dozens of simultaneous callers -
	// a bounded pool of scratch buffers with a fallback - is out of its reach and only met here.)
	for round := 0; round < 20; round++ {
		const ng, per = 64, 40
		mk := func() *bloom.Filter {
			return bloom.LoadFilter(wire.NewMsgFilterLoad(make([]byte, 4096), 8, uint32(round), wire.BloomUpdateAll))
		}
		shared, seq := mk(), mk()
		op := func(g, i int) wire.OutPoint {
			return wire.OutPoint{Hash: chainhash.Hash{byte(g), byte(i), byte(round), 0x6d}, Index: uint32(g*per + i)}
		}
		var wg sync.WaitGroup
		start := make(chan struct{})
		bad := make([]int, ng)
		for g := 0; g < ng; g++ {
			wg.Add(1)
			go func(g int) {
				defer wg.Done()
				<-start
				for i := 0; i < per; i++ {
					o := op(g, i)
					switch i % 3 {
					case 0:
						shared.AddOutPoint(&o)
						if !shared.MatchesOutPoint(&o) {
							bad[g]++
						}
					case 1:
						shared.AddHash(&o.Hash)
						if !shared.Matches(o.Hash[:]) {
							bad[g]++
						}
					default:
						item := append([]byte{byte(g), byte(i)}, itemX...)
						shared.Add(item)
						if !shared.Matches(item) {
							bad[g]++
						}
					}
				}
			}(g)
		}
		close(start)
		wg.Wait()
		for g := 0; g < ng; g++ {
			if bad[g] > 0 {
				fmt.Printf("many-goroutine pass: goroutine %d did not find %d of its own insertions right after making them\n", g, bad[g])
				os.Exit(3)
			}
			for i := 0; i < per; i++ {
				o := op(g, i)
				switch i % 3 {
				case 0:
					seq.AddOutPoint(&o)
				case 1:
					seq.AddHash(&o.Hash)
				default:
					seq.Add(append([]byte{byte(g), byte(i)}, itemX...))
				}
			}
		}
		if !bytes.Equal(shared.MsgFilterLoad().Filter, seq.MsgFilterLoad().Filter) {
			fmt.Println("many-goroutine pass: the filter after 64 goroutines' insertions differs from the sequential result (insertions lost or misplaced)")
			os.Exit(3)
		}
		total += ng
	}
	fmt.Printf("RACE-PASS ok configs=%d goroutines=%d\n", configs, total)
	os.Exit(0)
}
