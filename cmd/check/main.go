// Command check runs one property check: check <ID> quick|thorough | check <ID> replay <file>
package main

import (
	"encoding/json"
	"fmt"
	"os"
	"runtime/debug"
	"strings"
	"time"

	"verif/mc"
	"verif/props"
)

func main() {
	debug.SetGCPercent(800)
	if len(os.Args) < 3 {
		fmt.Fprintln(os.Stderr, "usage: check <ID> quick|thorough|replay [file]")
		os.Exit(2)
	}
	id, mode := os.Args[1], os.Args[2]
	p := props.Registry[id]
	if p == nil {
		fmt.Fprintln(os.Stderr, "unknown property", id)
		os.Exit(2)
	}
	if mode == "fresh" {
		// child side of mc.FreshAll: the case is the first library call of this process
		if len(os.Args) < 4 {
			os.Exit(2)
		}
		os.Exit(mc.FreshChild(id, os.Args[3], p.Replay))
	}
	if mode == "replay" {
		if len(os.Args) < 4 {
			fmt.Fprintln(os.Stderr, "replay needs a file")
			os.Exit(2)
		}
		b, err := os.ReadFile(os.Args[3])
		if err != nil {
			fmt.Fprintln(os.Stderr, err)
			os.Exit(2)
		}
		var v mc.Violation
		if err := json.Unmarshal(b, &v); err != nil {
			fmt.Fprintln(os.Stderr, err)
			os.Exit(2)
		}
		if v.Kind == "parfor" {
			// a case identified by its position in the enumeration: run the property restricted to it
			var pc mc.ParforCase
			if err := json.Unmarshal(v.Case, &pc); err != nil {
				fmt.Fprintln(os.Stderr, err)
				os.Exit(2)
			}
			c := mc.NewCtx(id, "quick")
			c.Replaying = true
			mc.SetOnly(pc.Seq, pc.Index)
			p.Run(c)
			os.Exit(c.Finish())
		}
		if v.Kind == "fresh" {
			// found as the first call of a fresh process: this replay process is one, run the inner case
			var fc mc.FreshCase
			if err := json.Unmarshal(v.Case, &fc); err != nil {
				fmt.Fprintln(os.Stderr, err)
				os.Exit(2)
			}
			if len(fc.Then) > 0 {
				// a sequence: this process runs it from its first case on, exactly like the child did
				raw, _ := json.Marshal(fc)
				os.Exit(mc.FreshReplay(id, string(raw), p.Replay))
			}
			v.Kind, v.Case = fc.Kind, fc.Case
		}
		r := p.Replay[v.Kind]
		if r == nil {
			fmt.Fprintln(os.Stderr, "no replayer for kind", v.Kind)
			os.Exit(2)
		}
		c := mc.NewCtx(id, "quick")
		c.Replaying = true
		c.Evals.Add(1)
		r(c, v.Case)
		os.Exit(c.Finish())
	}
	if mode != "quick" && mode != "thorough" {
		fmt.Fprintln(os.Stderr, "mode must be quick, thorough or replay")
		os.Exit(2)
	}
	c := mc.NewCtx(id, mode)
	if !mc.IsShardWorker() {
		// last resort: an overall deadline (a changed library hanging in a part of a check that the
		// per-evaluation watchdog does not see).  The run ends with what it has and is not exhaustive.
		limit := 3600 * time.Second
		if mode == "thorough" {
			limit = 6 * 3600 * time.Second
		}
		if v, err := time.ParseDuration(os.Getenv("VERIF_MAX_RUN")); err == nil && v > 0 {
			limit = v
		}
		time.AfterFunc(limit, func() {
			c.NotExhaustive(fmt.Sprintf("overall deadline of %v reached; the run was ended with what it had covered", limit))
			os.Exit(c.Finish())
		})
	}
	if path := os.Getenv("VERIF_PARTIAL"); mc.IsShardWorker() && path != "" {
		// shard worker: run, export, leave the verdict to the parent
		p.Run(c)
		if err := c.ExportPartial(path); err != nil {
			fmt.Fprintln(os.Stderr, err)
			os.Exit(2)
		}
		os.Exit(0)
	}
	if p.Procs && mc.Workers() > 1 {
		deaths, err := c.RunSharded(mc.Workers(), []string{id, mode})
		if err != nil {
			fmt.Fprintln(os.Stderr, "harness error:", err)
			os.Exit(2)
		}
		for _, d := range deaths {
			// a worker that was killed by the Go runtime while running an announced case: attribute it
			class := "worker-process-died"
			switch {
			case strings.Contains(d.Output, "out of memory") || strings.Contains(d.Output, "cannot allocate memory"):
				class = "allocation-exhausts-address-space"
			case strings.Contains(d.Output, "stack overflow") || strings.Contains(d.Output, "goroutine stack exceeds"):
				class = "unbounded-recursion"
			}
			if strings.Contains(d.Output, "VERIF-HANG") {
				class = "evaluation-does-not-terminate"
			}
			if d.Seq == 0 {
				fmt.Fprintf(os.Stderr, "harness error: shard %d failed and cannot be attributed:\n%s\n", d.Shard, d.Output)
				os.Exit(2)
			}
			if p.Lookup == nil {
				// no family-specific lookup: the case is identified by its position in the enumeration
				out := d.Output
				if len(out) > 300 {
					out = out[len(out)-300:]
				}
				c.NotExhaustive(fmt.Sprintf("shard %d ended at index %d of enumeration call %d; the rest of its share was not run", d.Shard, d.Index, d.Seq))
				c.Violate(class, "parfor", mc.ParforCase{Seq: d.Seq, Index: d.Index}, "the worker process ended while running this case: "+out)
				continue
			}
			fam, cas := p.Lookup(mc.NewCtx(id, mode), d.Seq, d.Index)
			out := d.Output
			if i := strings.Index(out, "fatal error:"); i >= 0 {
				out = out[i:]
			}
			if len(out) > 300 {
				out = out[:300]
			}
			c.NotExhaustive(fmt.Sprintf("shard %d was killed by the runtime at case %d; the rest of its share was not run", d.Shard, d.Index))
			c.Violate(class+"/"+fam, "call", cas, "the worker process was killed by the Go runtime while running this case: "+out)
		}
		c.FreshSamples(p.Replay)
		os.Exit(c.Finish())
	}
	p.Run(c)
	c.FreshSamples(p.Replay)
	os.Exit(c.Finish())
}
