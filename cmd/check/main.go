// Command check runs one property check: check <ID> quick|thorough | check <ID> replay <file>
package main

import (
	"encoding/json"
	"fmt"
	"os"
	"runtime/debug"
	"strings"

	"verif/mc"
	"verif/props"
)

func main() {
	debug.SetGCPercent(800)
	if len(os.Args) < 3 {
		fmt.Fprintln(os.Stderr, "usage: check <ID> quick|thorough|replay [file]")
		os.Exit(2)
	}
	id, mode := os.Args[1], os.Args[2]
	p := props.Registry[id]
	if p == nil {
		fmt.Fprintln(os.Stderr, "unknown property", id)
		os.Exit(2)
	}
	if mode == "replay" {
		if len(os.Args) < 4 {
			fmt.Fprintln(os.Stderr, "replay needs a file")
			os.Exit(2)
		}
		b, err := os.ReadFile(os.Args[3])
		if err != nil {
			fmt.Fprintln(os.Stderr, err)
			os.Exit(2)
		}
		var v mc.Violation
		if err := json.Unmarshal(b, &v); err != nil {
			fmt.Fprintln(os.Stderr, err)
			os.Exit(2)
		}
		r := p.Replay[v.Kind]
		if r == nil {
			fmt.Fprintln(os.Stderr, "no replayer for kind", v.Kind)
			os.Exit(2)
		}
		c := mc.NewCtx(id, "quick")
		c.Replaying = true
		c.Evals.Add(1)
		r(c, v.Case)
		os.Exit(c.Finish())
	}
	if mode != "quick" && mode != "thorough" {
		fmt.Fprintln(os.Stderr, "mode must be quick, thorough or replay")
		os.Exit(2)
	}
	c := mc.NewCtx(id, mode)
	if path := os.Getenv("VERIF_PARTIAL"); mc.IsShardWorker() && path != "" {
		// shard worker: run, export, leave the verdict to the parent
		p.Run(c)
		if err := c.ExportPartial(path); err != nil {
			fmt.Fprintln(os.Stderr, err)
			os.Exit(2)
		}
		os.Exit(0)
	}
	if p.Procs && mc.Workers() > 1 {
		deaths, err := c.RunSharded(mc.Workers(), []string{id, mode})
		if err != nil {
			fmt.Fprintln(os.Stderr, "harness error:", err)
			os.Exit(2)
		}
		for _, d := range deaths {
			// a worker that was killed by the Go runtime while running an announced case: attribute it
			class := "worker-process-died"
			switch {
			case strings.Contains(d.Output, "out of memory") || strings.Contains(d.Output, "cannot allocate memory"):
				class = "allocation-exhausts-address-space"
			case strings.Contains(d.Output, "stack overflow") || strings.Contains(d.Output, "goroutine stack exceeds"):
				class = "unbounded-recursion"
			}
			if p.Lookup == nil || d.Seq == 0 {
				fmt.Fprintf(os.Stderr, "harness error: shard %d failed and cannot be attributed:\n%s\n", d.Shard, d.Output)
				os.Exit(2)
			}
			fam, cas := p.Lookup(mc.NewCtx(id, mode), d.Seq, d.Index)
			out := d.Output
			if i := strings.Index(out, "fatal error:"); i >= 0 {
				out = out[i:]
			}
			if len(out) > 300 {
				out = out[:300]
			}
			c.NotExhaustive(fmt.Sprintf("shard %d was killed by the runtime at case %d; the rest of its share was not run", d.Shard, d.Index))
			c.Violate(class+"/"+fam, "call", cas, "the worker process was killed by the Go runtime while running this case: "+out)
		}
		os.Exit(c.Finish())
	}
	p.Run(c)
	os.Exit(c.Finish())
}
