// Command check_sched is the E-SCHED binary (C20).  It is built with the instrumented copies of
// bloom/filter.go and gcs/gcs.go and the verifrt runtime overlaid into /repo, and always runs as
// single-threaded shard processes because the scheduler runtime is process-global.
package main

import (
	"encoding/json"
	"fmt"
	"os"
	"os/exec"
	"path/filepath"
	"runtime/debug"
	"strings"

	"verif/mc"
	"verif/sched"
)

func main() {
	debug.SetGCPercent(400)
	if len(os.Args) < 3 || os.Args[1] != "C20" {
		fmt.Fprintln(os.Stderr, "usage: check_sched C20 quick|thorough|replay [file]")
		os.Exit(2)
	}
	mode := os.Args[2]
	if mode == "replay" {
		b, err := os.ReadFile(os.Args[3])
		if err != nil {
			fmt.Fprintln(os.Stderr, err)
			os.Exit(2)
		}
		var v mc.Violation
		if err := json.Unmarshal(b, &v); err != nil {
			fmt.Fprintln(os.Stderr, err)
			os.Exit(2)
		}
		c := mc.NewCtx("C20", "quick")
		c.Replaying = true
		c.Evals.Add(1)
		if v.Kind == "race-pass" {
			racePass(c)
		} else {
			sched.Replay(c, v.Kind, v.Case)
		}
		os.Exit(c.Finish())
	}
	c := mc.NewCtx("C20", mode)
	if path := os.Getenv("VERIF_PARTIAL"); path != "" {
		sched.RunC20(c)
		if err := c.ExportPartial(path); err != nil {
			fmt.Fprintln(os.Stderr, err)
			os.Exit(2)
		}
		os.Exit(0)
	}
	n := mc.Workers()
	if n < 2 {
		n = 2 // the worker protocol needs VERIF_NSHARDS > 1 to select the sequential ParFor
	}
	deaths, err := c.RunSharded(n, []string{"C20", mode})
	if err != nil || len(deaths) > 0 {
		fmt.Fprintln(os.Stderr, "harness error:", err, deaths)
		os.Exit(2)
	}
	racePass(c)
	os.Exit(c.Finish())
}

// racePass runs the auxiliary free-running -race binary (built next to this one).
func racePass(c *mc.Ctx) {
	bin := filepath.Join(filepath.Dir(os.Args[0]), "check_race")
	if _, err := os.Stat(bin); err != nil {
		c.Note("race_pass", "binary not built")
		return
	}
	cmd := exec.Command(bin)
	cmd.Env = append(os.Environ(), "GORACE=halt_on_error=1 exitcode=66")
	out, err := cmd.CombinedOutput()
	if err == nil && strings.Contains(string(out), "RACE-PASS ok") {
		c.Note("race_pass", strings.TrimSpace(string(out)))
		return
	}
	if ee, ok := err.(*exec.ExitError); ok && ee.ExitCode() == 66 {
		rep := string(out)
		if len(rep) > 3000 {
			rep = rep[:3000]
		}
		c.Violate("race-detector-report", "race-pass", map[string]string{"binary": "cmd/check_race"}, rep)
		return
	}
	// anything else (panic in free-running code) is also a failure of the statement
	rep := string(out)
	if len(rep) > 3000 {
		rep = rep[:3000]
	}
	c.Violate("free-running-pass-fails", "race-pass", map[string]string{"binary": "cmd/check_race"}, fmt.Sprint(err)+": "+rep)
}
