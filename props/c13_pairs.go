package props

import (
	"fmt"

	"github.com/gcash/bchutil/gcs"

	"verif/mc"
	"verif/ref"
)

// C13, two filters one after the other.  A query on one filter must not influence a query on another:
// scratch structures that a query borrows (an index map from a pool, a decoded array) and returns
// half-cleaned on an early exit are reused by the next query - on whichever filter.  Two filters
// A and B with the same key, P, M and N and half of their members in common; a query on A that hits
// (early exit) or misses, through each method, then a query on B for an item that is in A only, in
// B only, in both, in neither: every answer is the reference membership in the filter asked.  Sizes
// 5, 300, 4097, 8193 (thorough 70001): a pooled structure may be used above some size only.

type c13Pair struct {
	N      int    `json:"n"`
	First  string `json:"first_query_on_a"`  // method:item kind
	Second string `json:"second_query_on_b"` // method:item kind
}

var c13PairMethods = []string{"Match", "MatchAny", "ZipMatchAny", "HashMatchAny"}
var c13PairItems = []string{"a-only", "b-only", "both", "neither"}

type c13PairFix struct {
	fa, fb *gcs.Filter
	ma, mb map[uint64]bool
	items  map[string][]byte
	key    [16]byte
	n      uint32
}

var c13PairCache = map[int]*c13PairFix{}

func c13PairFixture(n int) *c13PairFix {
	if f, ok := c13PairCache[n]; ok {
		return f
	}
	key := c13Keys[1]
	var a, b [][]byte
	for i := 0; i < n; i++ {
		switch {
		case i < n/2:
			s := []byte(fmt.Sprintf("both-%d", i))
			a, b = append(a, s), append(b, s)
		default:
			a = append(a, []byte(fmt.Sprintf("a-only-%d", i)))
			b = append(b, []byte(fmt.Sprintf("b-only-%d", i)))
		}
	}
	fa, err := gcs.BuildGCSFilter(19, 784931, key, a)
	if err != nil {
		panic(err)
	}
	fb, err := gcs.BuildGCSFilter(19, 784931, key, b)
	if err != nil {
		panic(err)
	}
	fx := &c13PairFix{fa: fa, fb: fb, ma: map[uint64]bool{}, mb: map[uint64]bool{}, key: key, n: uint32(n),
		items: map[string][]byte{"a-only": a[n-1], "b-only": b[n-1], "both": a[0], "neither": []byte("neither-of-them")}}
	for _, it := range a {
		fx.ma[ref.GCSValue(key, uint32(n), 784931, it)] = true
	}
	for _, it := range b {
		fx.mb[ref.GCSValue(key, uint32(n), 784931, it)] = true
	}
	c13PairCache[n] = fx
	return fx
}

func c13PairAsk(f *gcs.Filter, key [16]byte, method string, it []byte) (bool, error) {
	switch method {
	case "Match":
		return f.Match(key, it)
	case "MatchAny":
		return f.MatchAny(key, [][]byte{[]byte("zz-pad"), it})
	case "ZipMatchAny":
		return f.ZipMatchAny(key, [][]byte{[]byte("zz-pad"), it})
	case "HashMatchAny":
		return f.HashMatchAny(key, [][]byte{[]byte("zz-pad"), it})
	}
	panic("c13: unknown method " + method)
}

func c13EvalPair(w *mc.W, cas c13Pair) {
	c := w.Ctx()
	w.Eval()
	fx := c13PairFixture(cas.N)
	split := func(s string) (string, string) {
		for i := 0; i < len(s); i++ {
			if s[i] == ':' {
				return s[:i], s[i+1:]
			}
		}
		panic("c13: bad pair spec " + s)
	}
	m1, k1 := split(cas.First)
	m2, k2 := split(cas.Second)
	pad := ref.GCSValue(fx.key, fx.n, 784931, []byte("zz-pad"))
	msg, p := mc.Guard(func() {
		it1, it2 := fx.items[k1], fx.items[k2]
		want1 := fx.ma[ref.GCSValue(fx.key, fx.n, 784931, it1)] || (m1 != "Match" && fx.ma[pad])
		got1, err := c13PairAsk(fx.fa, fx.key, m1, it1)
		if err != nil || got1 != want1 {
			c.Violate("query-differs-from-reference-membership/two-filters/first", "pair", cas, fmt.Sprintf("got %v (%v) want %v", got1, err, want1))
			return
		}
		want2 := fx.mb[ref.GCSValue(fx.key, fx.n, 784931, it2)] || (m2 != "Match" && fx.mb[pad])
		got2, err := c13PairAsk(fx.fb, fx.key, m2, it2)
		if err != nil || got2 != want2 {
			c.Violate("query-on-one-filter-depends-on-an-earlier-query-on-another", "pair", cas, fmt.Sprintf("%s(%s) on filter B after %s(%s) on filter A: got %v (%v), B's membership says %v", m2, k2, m1, k1, got2, err, want2))
			return
		}
		w.Outcome("two filters: second answer is the second filter's own")
	})
	if p {
		c.Violate("panic/two-filters", "pair", cas, msg)
	}
}

func runC13Pairs(c *mc.Ctx) {
	var cases []c13Pair
	for _, n := range mc.Pick(c, []int{5, 300, 4097, 8193}, []int{5, 300, 4097, 8193, 70001}) {
		for _, m1 := range c13PairMethods {
			for _, k1 := range c13PairItems {
				for _, m2 := range c13PairMethods {
					for _, k2 := range c13PairItems {
						cases = append(cases, c13Pair{N: n, First: m1 + ":" + k1, Second: m2 + ":" + k2})
					}
				}
			}
		}
	}
	c.Space("two filters with equal parameters and half their members in common: (method, item kind) on the first x (method, item kind) on the second, per size", int64(len(cases)))
	w := c.Worker() // one after the other, in one goroutine: pooled scratch state goes from one query to the next
	for _, cs := range cases {
		w.State()
		c13EvalPair(w, cs)
	}
	w.Done()
	c.Sample("pair", cases[len(cases)/2])
}
