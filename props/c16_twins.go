package props

import (
	"bytes"
	"fmt"

	"github.com/gcash/bchd/chaincfg/chainhash"
	"github.com/gcash/bchd/wire"
	"github.com/gcash/bchutil"

	"verif/mc"
)

// C16, twin transactions.  The memoised identifier of a wrapper is a function of the wrapped
// message and of nothing else - in particular not of what OTHER wrappers were asked before.  A
// memo that lives outside the wrapper (a package-level table keyed by a fingerprint of the
// transaction: its first outpoint, its size, a prefix of its serialisation) answers for the wrong
// transaction when two transactions share the fingerprint.  Twins: two transactions of the same
// shape that differ in exactly ONE field (one at a time, every field class, including a byte in the
// middle of a long script, which changes nothing a cheap fingerprint looks at), in three size
// classes (small; a 5000-byte script; a 70000-byte script), reached through every pair of routes
// (stand-alone constructors and the three block accessors), identifiers asked alternately.

type c16Twin struct {
	Size   string `json:"size"` // small | large | huge
	Differ string `json:"differing_field"`
	RouteA string `json:"route_a"`
	RouteB string `json:"route_b"`
}

var c16TwinFields = []string{"version", "locktime", "in0.hash", "in0.index", "in0.script", "in0.sequence", "in1.hash", "in1.index", "out0.value", "out0.script", "out1.value", "out1.script-first", "out1.script-middle", "out1.script-last"}
var c16TwinRoutes = []string{"NewTx", "NewTxFromBytes", "NewTxFromReader", "Block.Tx", "Block.Transactions", "Block.TxHash"}

func c16TwinTx(size, differ string) *wire.MsgTx {
	n := map[string]int{"small": 25, "large": 5000, "huge": 70000}[size]
	tx := wire.NewMsgTx(2)
	h0, h1 := c16Hash(0x61), c16Hash(0x62)
	tx.AddTxIn(wire.NewTxIn(wire.NewOutPoint(&h0, 1), []byte{0x51, 0x52}))
	tx.AddTxIn(wire.NewTxIn(wire.NewOutPoint(&h1, 0), []byte{0x53}))
	tx.AddTxOut(wire.NewTxOut(1000, c16P2PKH(0x21), wire.TokenData{}))
	tx.AddTxOut(wire.NewTxOut(2000, c16Bytes(0x6a, n), wire.TokenData{}))
	tx.LockTime = 7
	switch differ {
	case "":
	case "version":
		tx.Version = 1
	case "locktime":
		tx.LockTime = 8
	case "in0.hash":
		tx.TxIn[0].PreviousOutPoint.Hash[31] ^= 1
	case "in0.index":
		tx.TxIn[0].PreviousOutPoint.Index = 2
	case "in0.script":
		tx.TxIn[0].SignatureScript[1] = 0x54
	case "in0.sequence":
		tx.TxIn[0].Sequence--
	case "in1.hash":
		tx.TxIn[1].PreviousOutPoint.Hash[0] ^= 0x80
	case "in1.index":
		tx.TxIn[1].PreviousOutPoint.Index = 9
	case "out0.value":
		tx.TxOut[0].Value++
	case "out0.script":
		tx.TxOut[0].PkScript[5] ^= 1
	case "out1.value":
		tx.TxOut[1].Value--
	case "out1.script-first":
		tx.TxOut[1].PkScript[0] ^= 1
	case "out1.script-middle":
		tx.TxOut[1].PkScript[n/2] ^= 0x10
	case "out1.script-last":
		tx.TxOut[1].PkScript[n-1] ^= 1
	default:
		panic("c16: unknown twin field " + differ)
	}
	return tx
}

// c16TwinHandle returns a function that asks the route for the identifier of the transaction
type c16TwinHandle struct {
	hash func() *chainhash.Hash
}

func c16TwinRoute(route string, tx *wire.MsgTx) c16TwinHandle {
	blockOf := func() *bchutil.Block {
		cb := c16BuildTx("coinbase")
		h := c16Hash(0x70)
		m := wire.NewMsgBlock(fixedHeader(1, &h, &h, 0x1d00ffff, 5))
		m.AddTransaction(cb)
		m.AddTransaction(tx)
		return bchutil.NewBlock(m)
	}
	switch route {
	case "NewTx":
		t := bchutil.NewTx(tx)
		return c16TwinHandle{t.Hash}
	case "NewTxFromBytes":
		t, err := bchutil.NewTxFromBytes(c16SerTx(tx))
		if err != nil {
			panic(err)
		}
		return c16TwinHandle{t.Hash}
	case "NewTxFromReader":
		t, err := bchutil.NewTxFromReader(bytes.NewReader(c16SerTx(tx)))
		if err != nil {
			panic(err)
		}
		return c16TwinHandle{t.Hash}
	case "Block.Tx":
		b := blockOf()
		return c16TwinHandle{func() *chainhash.Hash {
			t, err := b.Tx(1)
			if err != nil {
				panic(err)
			}
			return t.Hash()
		}}
	case "Block.Transactions":
		b := blockOf()
		return c16TwinHandle{func() *chainhash.Hash { return b.Transactions()[1].Hash() }}
	case "Block.TxHash":
		b := blockOf()
		return c16TwinHandle{func() *chainhash.Hash {
			h, err := b.TxHash(1)
			if err != nil {
				panic(err)
			}
			return h
		}}
	}
	panic("c16: unknown route " + route)
}

func c16EvalTwin(w *mc.W, cas c16Twin) {
	c := w.Ctx()
	w.Eval()
	a, b := c16TwinTx(cas.Size, ""), c16TwinTx(cas.Size, cas.Differ)
	wantA, wantB := a.TxHash(), b.TxHash()
	if wantA == wantB {
		panic("c16: twins have equal identifiers")
	}
	msg, p := mc.Guard(func() {
		ha, hb := c16TwinRoute(cas.RouteA, a), c16TwinRoute(cas.RouteB, b)
		for round, who := range []string{"a", "b", "a", "b"} {
			h, want := ha, wantA
			if who == "b" {
				h, want = hb, wantB
			}
			got := h.hash()
			if got == nil || *got != want {
				c.Violate("identifier-is-that-of-another-transaction", "twin", cas, fmt.Sprintf("call %d (transaction %s via %s): got %v, the message hashes to %v (its twin, differing only in %s, to %v)", round, who, map[string]string{"a": cas.RouteA, "b": cas.RouteB}[who], got, want, cas.Differ, map[string]chainhash.Hash{"a": wantB, "b": wantA}[who]))
				return
			}
		}
	})
	if p {
		c.Violate("panic-hashing-twin-transactions", "twin", cas, msg)
		return
	}
	w.Outcome("twin transactions: every identifier is that of its own message")
}

func runC16Twins(c *mc.Ctx) {
	var cases []c16Twin
	for _, sz := range []string{"small", "large", "huge"} {
		for _, f := range c16TwinFields {
			for _, ra := range c16TwinRoutes {
				for _, rb := range c16TwinRoutes {
					cases = append(cases, c16Twin{Size: sz, Differ: f, RouteA: ra, RouteB: rb})
				}
			}
		}
	}
	c.Space("twin transactions (3 sizes x 14 single-field differences) x every ordered pair of 6 routes, identifiers asked alternately", int64(len(cases)))
	// sequentially: the point is what one wrapper's call leaves behind for another wrapper
	w := c.Worker()
	for _, cs := range cases {
		w.State()
		c16EvalTwin(w, cs)
	}
	w.Done()
	c.Sample("twin", cases[len(cases)/2])
}
