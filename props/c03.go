package props

import (
	"encoding/json"
	"fmt"
	"strings"
	"sync"
	"sync/atomic"

	"github.com/gcash/bchutil"
	"github.com/gcash/bchutil/bech32"

	"verif/mc"
	"verif/ref"
)

// C03 — checksums detect every corruption they are specified to detect.
//
// Model: the syndrome of an error pattern is the XOR of per-(position,value) unit syndromes that
// are read from the implementation's own remainder function (hook) — an explicit-state
// enumeration of all weight<=2 syndromes (hash set) probed by all weight-3 syndromes decides
// "no non-zero codeword of weight <= 5".  The model is bound to the code by exhaustive
// additivity checks on the real remainder function and by replaying every weight<=2 pattern (and
// weight 3 at the shortest length) through the real decoders.

func init() {
	register(&Prop{ID: "C03", Run: runC03, Replay: map[string]func(*mc.Ctx, json.RawMessage){
		"cash-string":   replayer(c03EvalCashString),
		"bech-string":   replayer(c03EvalBechString),
		"cash-codeword": replayer(c03EvalCashCodeword),
		"bech-codeword": replayer(c03EvalBechCodeword),
		"foreign":       replayer(c03EvalForeign),
		"window":        replayer(c03EvalWindow),
		"fingerprint":   replayer(c03EvalFP),
		"calls":         replayer(c03EvalCalls),
	}})
}

// standard CashAddr payload lengths in symbols (incl. 8 checksum symbols) for 160..512-bit hashes
var cashLens = []int{42, 48, 55, 61, 74, 87, 100, 112}
var cashHashBytes = []int{20, 24, 28, 32, 40, 48, 56, 64}
var cashPrefixes = []string{"bitcoincash", "bchtest", "bchreg", "bchsim", "simpleledger", "slptest", "slpreg"}

type sub struct {
	Pos int `json:"pos"` // position counted from the end of the payload part (0 = last symbol)
	Val int `json:"xor"` // non-zero 5-bit value XORed onto the symbol
}

type c03Str struct {
	Prefix string `json:"prefix"` // cashaddr prefix or bech32 hrp
	Base   string `json:"base"`   // valid payload part (cashaddr) / full string (bech32)
	Subs   []sub  `json:"subs"`
	Via    string `json:"via"` // "DecodeCashAddress" | "DecodeAddress:<net>" | "bech32.Decode"
}

func applySubs(payload string, charset string, subs []sub) string {
	b := []byte(payload)
	for _, s := range subs {
		i := len(b) - 1 - s.Pos
		k := strings.IndexByte(charset, b[i])
		b[i] = charset[k^s.Val]
	}
	return string(b)
}

// c03EvalCashString: the corrupted string must be rejected by the real decoder.
func c03EvalCashString(w *mc.W, cas c03Str) {
	c := w.Ctx()
	w.Eval()
	w.Trace()
	bad := applySubs(cas.Base, ref.CashCharset, cas.Subs)
	var err error
	msg, p := mc.Guard(func() {
		if strings.HasPrefix(cas.Via, "DecodeAddress:") {
			_, err = bchutil.DecodeAddress(cas.Prefix+":"+bad, netParams[strings.TrimPrefix(cas.Via, "DecodeAddress:")])
		} else {
			_, _, err = bchutil.DecodeCashAddress(cas.Prefix + ":" + bad)
		}
	})
	if p {
		c.Violate("cashaddr-decoder-panics-on-corrupted-string", "cash-string", cas, msg)
		return
	}
	if err != nil {
		w.Outcome(fmt.Sprintf("cashaddr: %d substitutions rejected (%s)", len(cas.Subs), cas.Via))
	}
	if err == nil {
		c.Violate(fmt.Sprintf("cashaddr-accepts-%d-substitutions", len(cas.Subs)), "cash-string", cas, fmt.Sprintf("%s:%s accepted", cas.Prefix, bad))
	}
}

func c03EvalBechString(w *mc.W, cas c03Str) {
	c := w.Ctx()
	w.Eval()
	w.Trace()
	bad := applySubs(cas.Base, ref.Bech32Charset, cas.Subs)
	var err error
	if msg, p := mc.Guard(func() { _, _, err = bech32.Decode(bad) }); p {
		c.Violate("bech32-decoder-panics-on-corrupted-string", "bech-string", cas, msg)
		return
	}
	if err != nil {
		w.Outcome(fmt.Sprintf("bech32: %d substitutions rejected", len(cas.Subs)))
	}
	if err == nil {
		c.Violate(fmt.Sprintf("bech32-accepts-%d-substitutions", len(cas.Subs)), "bech-string", cas, bad+" accepted")
	}
}

// codeword cases: a non-zero low-weight pattern whose model syndrome is zero.  Replay = run the
// corrupted string through the real decoder.
type c03Codeword struct {
	Prefix string `json:"prefix"`
	Len    int    `json:"len"`
	Subs   []sub  `json:"subs"`
}

func c03EvalCashCodeword(w *mc.W, cas c03Codeword) {
	base := c03CashBase(cas.Prefix, cas.Len)
	c03EvalCashString(w, c03Str{Prefix: cas.Prefix, Base: base, Subs: cas.Subs, Via: "DecodeCashAddress"})
}

func c03EvalBechCodeword(w *mc.W, cas c03Codeword) {
	base := c03BechBase(cas.Prefix, cas.Len)
	c03EvalBechString(w, c03Str{Prefix: cas.Prefix, Base: base, Subs: cas.Subs, Via: "bech32.Decode"})
}

// c03CashBase: a valid payload part of exactly n symbols (n-8 payload symbols with a deterministic
// non-trivial content), via the reference encoder.
func c03CashBase(prefix string, n int) string {
	p := make([]byte, n-8)
	for i := range p {
		p[i] = byte((i*7 + 3) & 31)
	}
	for i, L := range cashLens {
		if L == n { // a real address: version byte + hash
			h := make([]byte, cashHashBytes[i])
			for j := range h {
				h[j] = byte(j*13 + 1)
			}
			return ref.CashEncode(prefix, 1, h)
		}
	}
	return ref.CashEncodeSymbols(prefix, p)
}

func c03BechBase(hrp string, dataLen int) string {
	d := make([]byte, dataLen-6)
	for i := range d {
		d[i] = byte((i*11 + 5) & 31)
	}
	s, _ := ref.Bech32Encode(hrp, d)
	return s
}

func symbolsOf(payload, charset string) []byte {
	out := make([]byte, len(payload))
	for i := 0; i < len(payload); i++ {
		out[i] = byte(strings.IndexByte(charset, payload[i]))
	}
	return out
}

// ---------------------------------------------------------------------------------------
// syndrome functions (real via hook when available, else reference)

func refCashSyn(prefix string, sym []byte) uint64 {
	r := ref.CashSyndrome(prefix, sym)
	var v uint64
	for _, s := range r {
		v = v<<5 | uint64(s)
	}
	return v
}

func refBechSyn(hrp string, sym []byte) uint64 {
	// polymod ^ 1 via the reference long division
	r := ref.Bech32Syndrome(hrp, sym)
	var v uint64
	for _, s := range r {
		v = v<<5 | uint64(s)
	}
	return v
}

func cashSyn(prefix string, sym []byte) uint64 {
	if hookCashPolyMod == nil {
		return refCashSyn(prefix, sym)
	}
	v := make([]byte, 0, len(prefix)+1+len(sym))
	for i := 0; i < len(prefix); i++ {
		v = append(v, prefix[i]&0x1f)
	}
	v = append(v, 0)
	v = append(v, sym...)
	return hookCashPolyMod(v)
}

func bechSyn(hrp string, sym []byte) uint64 {
	if hookBechPolymod == nil {
		return refBechSyn(hrp, sym)
	}
	v := hookBechHrpExpand(hrp)
	for _, s := range sym {
		v = append(v, int(s))
	}
	return uint64(hookBechPolymod(v) ^ 1)
}

// unitTable[pos][val] for pos counted from the end.
func unitTable(L int, syn func(sym []byte) uint64, base []byte) [][32]uint64 {
	U := make([][32]uint64, L)
	s0 := syn(base)
	for pos := 0; pos < L; pos++ {
		for val := 1; val < 32; val++ {
			m := append([]byte{}, base...)
			m[len(m)-1-pos] ^= byte(val)
			U[pos][val] = syn(m) ^ s0
		}
	}
	return U
}

// ---------------------------------------------------------------------------------------
// open-addressing set of 40-bit syndromes

type synSet struct {
	tab  []uint64
	mask uint64
}

const synTag = uint64(1) << 62

func newSynSet(n int) *synSet {
	sz := 1
	for sz < n*3 {
		sz <<= 1
	}
	return &synSet{tab: make([]uint64, sz), mask: uint64(sz - 1)}
}
func synHash(k uint64) uint64 { return (k * 0x9E3779B97F4A7C15) >> 20 }

// insert returns false if k was already present.
func (s *synSet) insert(k uint64) bool {
	k |= synTag
	h := synHash(k) & s.mask
	for {
		if s.tab[h] == 0 {
			s.tab[h] = k
			return true
		}
		if s.tab[h] == k {
			return false
		}
		h = (h + 1) & s.mask
	}
}
func (s *synSet) has(k uint64) bool {
	k |= synTag
	h := synHash(k) & s.mask
	for {
		v := s.tab[h]
		if v == 0 {
			return false
		}
		if v == k {
			return true
		}
		h = (h + 1) & s.mask
	}
}

// minDistanceSearch: explicit-state enumeration.  Inserts every pattern of weight <= 2 over L
// positions (all must be distinct and non-zero => no codeword of weight <= 4), then, when w3 is
// set, probes every weight-3 pattern (a hit => codeword of weight <= 5).  Returns states
// (syndromes enumerated), and reports the first few codewords found through found().
func minDistanceSearch(c *mc.Ctx, U [][32]uint64, L int, w3 bool, found func(subs []sub)) (states, probes int64) {
	n2 := L*31 + L*(L-1)/2*961 + 1
	set := newSynSet(n2)
	set.insert(0)
	states = 1
	type pat struct{ i, a, j, b int }
	// weight 1 and 2 (sequential insert; 6M entries)
	where := map[uint64]pat{} // only filled on collision handling (rare)
	_ = where
	for i := 0; i < L; i++ {
		for a := 1; a < 32; a++ {
			states++
			if !set.insert(U[i][a]) {
				found(c03FindCollision(U, L, U[i][a], []sub{{i, a}}))
			}
		}
	}
	for i := 0; i < L; i++ {
		for j := i + 1; j < L; j++ {
			for a := 1; a < 32; a++ {
				ua := U[i][a]
				for b := 1; b < 32; b++ {
					states++
					if !set.insert(ua ^ U[j][b]) {
						found(c03FindCollision(U, L, ua^U[j][b], []sub{{i, a}, {j, b}}))
					}
				}
			}
		}
	}
	if !w3 {
		return states, 0
	}
	// weight 3: triples (i<j<k); shard over (i,j) pairs
	type ij struct{ i, j int }
	var pairs []ij
	for i := 0; i < L; i++ {
		for j := i + 1; j < L; j++ {
			if j+1 < L {
				pairs = append(pairs, ij{i, j})
			}
		}
	}
	var total atomic.Int64
	var mu sync.Mutex
	c.ParFor(int64(len(pairs)), func(w *mc.W, pi int64) {
		i, j := pairs[pi].i, pairs[pi].j
		var cnt int64
		for a := 1; a < 32; a++ {
			for b := 1; b < 32; b++ {
				ab := U[i][a] ^ U[j][b]
				for k := j + 1; k < L; k++ {
					uk := &U[k]
					for cv := 1; cv < 32; cv++ {
						if set.has(ab ^ uk[cv]) {
							mu.Lock()
							found(c03FindCollision(U, L, ab^uk[cv], []sub{{i, a}, {j, b}, {k, cv}}))
							mu.Unlock()
						}
					}
					cnt += 31
				}
			}
		}
		total.Add(cnt)
	})
	return states + total.Load(), total.Load()
}

// c03FindCollision: given a syndrome s reached by pattern p, find the weight<=2 pattern with the
// same syndrome (brute force; only runs when a violation exists) and return the combined pattern.
func c03FindCollision(U [][32]uint64, L int, s uint64, p []sub) []sub {
	same := func(q []sub) bool {
		if len(q) != len(p) {
			return false
		}
		for i := range q {
			if q[i] != p[i] {
				return false
			}
		}
		return true
	}
	merge := func(q []sub) []sub {
		m := map[int]int{}
		for _, x := range p {
			m[x.Pos] ^= x.Val
		}
		for _, x := range q {
			m[x.Pos] ^= x.Val
		}
		var out []sub
		for pos, v := range m {
			if v != 0 {
				out = append(out, sub{pos, v})
			}
		}
		return out
	}
	if s == 0 {
		return p
	}
	for i := 0; i < L; i++ {
		for a := 1; a < 32; a++ {
			if U[i][a] == s && !same([]sub{{i, a}}) {
				return merge([]sub{{i, a}})
			}
		}
	}
	for i := 0; i < L; i++ {
		for j := i + 1; j < L; j++ {
			for a := 1; a < 32; a++ {
				for b := 1; b < 32; b++ {
					if U[i][a]^U[j][b] == s && !same([]sub{{i, a}, {j, b}}) {
						return merge([]sub{{i, a}, {j, b}})
					}
				}
			}
		}
	}
	return p
}

// ---------------------------------------------------------------------------------------

func runC03(c *mc.Ctx) {
	hooked := hookCashPolyMod != nil
	c.Note("hook_cashaddr_polyMod", hooked)
	c.Note("hook_bech32_polymod", hookBechPolymod != nil)
	c.Rule("explicit-state enumeration of a linear syndrome model extracted from the implementation's remainder function: all weight<=2 syndromes stored, all weight-3 syndromes probed (hit = codeword of weight<=5); the model is bound to the code by exhaustive additivity checks and by replaying every weight<=2 corruption (weight 3 at the shortest length on thorough) through the real decoders; non-trivial = corrupted strings replayed through the real decoder")
	c.Assume("substitutions are by symbols of the 32-character alphabet (foreign characters are C02/C07's strictness)")
	c.Assume("weights 3..5 rest on XOR-additivity of the implementation's remainder, verified exhaustively for all weight-2 patterns at every standard length and by weight-3 decoder replay at L=42")

	// ---- CashAddr model
	Lmax := mc.Pick(c, 61, 112)
	prefix0 := "bitcoincash"
	base := symbolsOf(c03CashBase(prefix0, Lmax), ref.CashCharset)
	U := unitTable(Lmax, func(sym []byte) uint64 { return cashSyn(prefix0, sym) }, base)
	// (4) agreement of U with the reference GF(32) model
	Uref := unitTable(Lmax, func(sym []byte) uint64 { return refCashSyn(prefix0, sym) }, base)
	for pos := 0; pos < Lmax; pos++ {
		for v := 1; v < 32; v++ {
			c.Evals.Add(1)
			if U[pos][v] != Uref[pos][v] {
				c.Violate("cashaddr-remainder-differs-from-spec-generator", "cash-codeword", c03Codeword{Prefix: prefix0, Len: Lmax, Subs: []sub{{pos, v}}},
					fmt.Sprintf("unit syndrome at pos %d val %d: impl %010x spec %010x", pos, v, U[pos][v], Uref[pos][v]))
				pos = Lmax
				break
			}
		}
	}
	// model search
	nfound := 0
	states, probes := minDistanceSearch(c, U, Lmax, true, func(subs []sub) {
		nfound++
		if nfound <= 5 {
			c.Violate(fmt.Sprintf("cashaddr-codeword-of-weight-%d", len(subs)), "cash-codeword", c03Codeword{Prefix: prefix0, Len: Lmax, Subs: subs}, "model: two error patterns of weight<=3 and <=2 share a syndrome")
		}
	})
	c.States.Add(states)
	c.Transitions.Add(states)
	c.Evals.Add(states)
	c.Space(fmt.Sprintf("cashaddr syndrome model L=%d: weight<=2 stored + weight-3 probed", Lmax), states)
	c.Note("cashaddr_model_L", Lmax)
	c.Note("cashaddr_weight3_probes", probes)
	c.Note("cashaddr_codewords_found", nfound)

	// (1) additivity of the real remainder on all weight-2 patterns, every standard length, 3 bases,
	//     and prefix independence
	lens := cashLens
	if c.Quick() {
		lens = []int{42, 61}
	}
	for _, L := range lens {
		if L > Lmax {
			continue
		}
		L := L
		var bases [][]byte
		bases = append(bases, symbolsOf(c03CashBase(prefix0, L), ref.CashCharset))
		if c.Thorough() || L == 42 {
			z := make([]byte, L)
			bases = append(bases, symbolsOf(ref.CashEncodeSymbols(prefix0, z[:L-8]), ref.CashCharset))
			f := make([]byte, L-8)
			for i := range f {
				f[i] = 31
			}
			bases = append(bases, symbolsOf(ref.CashEncodeSymbols(prefix0, f), ref.CashCharset))
		}
		for _, b := range bases {
			b := b
			s0 := cashSyn(prefix0, b)
			if s0 != 0 {
				c.Violate("cashaddr-valid-word-nonzero-remainder", "cash-codeword", c03Codeword{Prefix: prefix0, Len: L}, fmt.Sprintf("%010x", s0))
			}
			npairs := int64(L * (L - 1) / 2)
			c.Space(fmt.Sprintf("additivity: all weight-2 patterns at L=%d", L), npairs*961)
			var bad atomic.Int64
			c.ParFor(npairs, func(w *mc.W, pi int64) {
				// decode pair index
				i, j := pairFromIndex(int(pi), L)
				m := append([]byte{}, b...)
				for a := 1; a < 32; a++ {
					for bb := 1; bb < 32; bb++ {
						m[L-1-i] = b[L-1-i] ^ byte(a)
						m[L-1-j] = b[L-1-j] ^ byte(bb)
						w.Eval()
						if cashSyn(prefix0, m) != U[i][a]^U[j][bb] {
							if bad.Add(1) <= 3 {
								c.Violate("cashaddr-remainder-not-additive", "cash-codeword", c03Codeword{Prefix: prefix0, Len: L, Subs: []sub{{i, a}, {j, bb}}}, "S(e1+e2) != S(e1)+S(e2) on the real remainder function")
							}
						}
					}
				}
				m[L-1-i], m[L-1-j] = b[L-1-i], b[L-1-j]
			})
		}
	}
	// prefix independence of unit syndromes
	for _, p := range cashPrefixes[1:] {
		bp := symbolsOf(c03CashBase(p, 42), ref.CashCharset)
		Up := unitTable(42, func(sym []byte) uint64 { return cashSyn(p, sym) }, bp)
		for pos := 0; pos < 42; pos++ {
			for v := 1; v < 32; v++ {
				c.Evals.Add(1)
				if Up[pos][v] != U[pos][v] {
					c.Violate("cashaddr-unit-syndrome-depends-on-prefix", "cash-codeword", c03Codeword{Prefix: p, Len: 42, Subs: []sub{{pos, v}}}, "")
					pos = 42
					break
				}
			}
		}
	}

	// (4b) the implementation's unit syndromes at the longest standard length agree with the
	// specification's generator (also on the quick tier: a remainder that degrades only on long inputs)
	if Lmax < 112 {
		b112 := symbolsOf(c03CashBase(prefix0, 112), ref.CashCharset)
		U112 := unitTable(112, func(sym []byte) uint64 { return cashSyn(prefix0, sym) }, b112)
		R112 := unitTable(112, func(sym []byte) uint64 { return refCashSyn(prefix0, sym) }, b112)
		for pos := 0; pos < 112; pos++ {
			for v := 1; v < 32; v++ {
				c.Evals.Add(1)
				if U112[pos][v] != R112[pos][v] {
					c.Violate("cashaddr-remainder-differs-from-spec-generator", "cash-codeword", c03Codeword{Prefix: prefix0, Len: 112, Subs: []sub{{pos, v}}},
						fmt.Sprintf("unit syndrome at pos %d val %d (L=112): impl %010x spec %010x", pos, v, U112[pos][v], R112[pos][v]))
					pos = 112
					break
				}
			}
		}
	}
	// (5) every one of the 256 byte values at every payload position of a valid string: only the
	// original character (in either case... the string is lower case, so only itself) may be accepted
	for _, L := range []int{42, 61, 112} {
		basePayload := c03CashBase(prefix0, L)
		var bad atomic.Int64
		c.Space(fmt.Sprintf("all 256 byte values at every payload position, L=%d", L), int64(L*256))
		c.ParFor(int64(L*256), func(w *mc.W, i int64) {
			pos, v := int(i/256), byte(i%256)
			if basePayload[pos] == v {
				return
			}
			m := []byte(basePayload)
			m[pos] = v
			w.Eval()
			w.Trace()
			var err error
			if msg, p := mc.Guard(func() { _, _, err = bchutil.DecodeCashAddress(prefix0 + ":" + string(m)) }); p {
				c.Violate("cashaddr-decoder-panics-on-corrupted-string", "cash-string", c03Str{Prefix: prefix0, Base: basePayload, Via: "DecodeCashAddress"}, msg)
				return
			}
			if err == nil && bad.Add(1) <= 3 {
				c.Violate("cashaddr-accepts-a-substituted-byte", "cash-string", c03Str{Prefix: prefix0, Base: basePayload, Via: "DecodeCashAddress"},
					fmt.Sprintf("position %d replaced by byte %#02x is accepted: %q", pos, v, string(m)))
			}
		})
		// the same on the all-upper-case spelling (a byte equal to the original character in either case is the same symbol)
		upper := strings.ToUpper(prefix0 + ":" + basePayload)
		off := len(prefix0) + 1
		c.ParFor(int64(L*256), func(w *mc.W, i int64) {
			pos, v := int(i/256), byte(i%256)
			if upper[off+pos] == v {
				return
			}
			m := []byte(upper)
			m[off+pos] = v
			w.Eval()
			w.Trace()
			var err error
			if msg, p := mc.Guard(func() { _, _, err = bchutil.DecodeCashAddress(string(m)) }); p {
				c.Violate("cashaddr-decoder-panics-on-corrupted-string", "cash-string", c03Str{Prefix: prefix0, Base: basePayload, Via: "DecodeCashAddress"}, msg)
				return
			}
			if err == nil && bad.Add(1) <= 3 {
				c.Violate("cashaddr-accepts-a-substituted-byte", "cash-string", c03Str{Prefix: prefix0, Base: basePayload, Via: "DecodeCashAddress"},
					fmt.Sprintf("upper-case spelling: position %d replaced by byte %#02x is accepted: %q", pos, v, string(m)))
			}
		})
		if L == 42 {
			for _, spell := range []string{prefix0 + ":" + basePayload, upper} {
				for _, m := range runeSubstitutions(spell) {
					w := c.Worker()
					w.Eval()
					if _, _, err := bchutil.DecodeCashAddress(m); err == nil && bad.Add(1) <= 3 {
						c.Violate("cashaddr-accepts-a-substituted-byte", "cash-string", c03Str{Prefix: prefix0, Base: basePayload, Via: "DecodeCashAddress"}, fmt.Sprintf("non-ASCII rune accepted: %q", m))
					}
					w.Done()
				}
			}
		}
	}

	// (2)+(3) replay through the real decoder: every weight<=2 pattern
	type job struct {
		prefix string
		L      int
		via    string
	}
	var jobs []job
	for _, L := range cashLens {
		if c.Quick() && L > 61 {
			continue
		}
		jobs = append(jobs, job{prefix0, L, "DecodeCashAddress"})
	}
	if c.Quick() { // weight-1 replay at the long standard lengths as well
		for _, L := range cashLens {
			if L > 61 {
				basePayload := c03CashBase(prefix0, L)
				c.ParFor(int64(L), func(w *mc.W, i int64) {
					for a := 1; a < 32; a++ {
						c03EvalCashString(w, c03Str{Prefix: prefix0, Base: basePayload, Subs: []sub{{int(i), a}}, Via: "DecodeCashAddress"})
					}
				})
			}
		}
	}
	for _, p := range cashPrefixes[1:] {
		if c.Quick() {
			jobs = append(jobs, job{p, 42, "DecodeCashAddress"})
		} else {
			for _, L := range cashLens {
				jobs = append(jobs, job{p, L, "DecodeCashAddress"})
			}
		}
	}
	// through DecodeAddress (the address-level decoder) for the two lengths it supports
	jobs = append(jobs, job{"bitcoincash", 42, "DecodeAddress:mainnet"}, job{"simpleledger", 42, "DecodeAddress:mainnet"}, job{"bchtest", 61, "DecodeAddress:testnet3"})
	for _, jb := range jobs {
		jb := jb
		basePayload := c03CashBase(jb.prefix, jb.L)
		// sanity: the base must be accepted
		if _, _, err := bchutil.DecodeCashAddress(jb.prefix + ":" + basePayload); err != nil {
			// The statement only demands rejections; a decoder that refuses the valid base refuses its
			// corruptions too.  Not a violation of C03 (C01 demands the acceptance); the job is vacuous.
			c.NotExhaustive("the decoder rejects a valid base string: a family of C03 ran vacuously (" + jb.prefix + " via " + jb.via + ": " + err.Error() + ")")
			continue
		}
		L := jb.L
		c.Space(fmt.Sprintf("decoder replay weight<=2: %s L=%d via %s", jb.prefix, L, jb.via), int64(L*31+L*(L-1)/2*961))
		c.ParFor(int64(L), func(w *mc.W, i int64) {
			for a := 1; a < 32; a++ {
				cas := c03Str{Prefix: jb.prefix, Base: basePayload, Subs: []sub{{int(i), a}}, Via: jb.via}
				c03EvalCashString(w, cas)
				w.Nontrivial(mc.HashString(jb.prefix, jb.via, fmt.Sprint(L, i, a)))
			}
		})
		npairs := int64(L * (L - 1) / 2)
		c.ParFor(npairs, func(w *mc.W, pi int64) {
			i, j := pairFromIndex(int(pi), L)
			for a := 1; a < 32; a++ {
				for b := 1; b < 32; b++ {
					c03EvalCashString(w, c03Str{Prefix: jb.prefix, Base: basePayload, Subs: []sub{{i, a}, {j, b}}, Via: jb.via})
				}
			}
			w.Nontrivial(mc.HashString(jb.prefix, jb.via, fmt.Sprint(L, i, j)))
		})
	}
	c.Sample("cash-string", c03Str{Prefix: prefix0, Base: c03CashBase(prefix0, 42), Subs: []sub{{0, 1}, {41, 31}}, Via: "DecodeCashAddress"})
	// weight 3 through the real decoder at the shortest standard length (thorough)
	if c.Thorough() {
		L := 42
		basePayload := c03CashBase(prefix0, L)
		npairs := int64(L * (L - 1) / 2)
		c.Space("decoder replay weight 3: bitcoincash L=42", int64(L*(L-1)*(L-2)/6)*29791)
		c.ParFor(npairs, func(w *mc.W, pi int64) {
			i, j := pairFromIndex(int(pi), L)
			for k := j + 1; k < L; k++ {
				for a := 1; a < 32; a++ {
					for b := 1; b < 32; b++ {
						for cv := 1; cv < 32; cv++ {
							c03EvalCashString(w, c03Str{Prefix: prefix0, Base: basePayload, Subs: []sub{{i, a}, {j, b}, {k, cv}}, Via: "DecodeCashAddress"})
						}
					}
				}
			}
		})
	}

	// ---- bech32
	hrp0 := "a"
	LB := 88
	bbase := symbolsOf(c03BechBase(hrp0, LB)[len(hrp0)+1:], ref.Bech32Charset)
	UB := unitTable(LB, func(sym []byte) uint64 { return bechSyn(hrp0, sym) }, bbase)
	UBref := unitTable(LB, func(sym []byte) uint64 { return refBechSyn(hrp0, sym) }, bbase)
	for pos := 0; pos < LB; pos++ {
		for v := 1; v < 32; v++ {
			c.Evals.Add(1)
			if UB[pos][v] != UBref[pos][v] {
				c.Violate("bech32-remainder-differs-from-BIP173-generator", "bech-codeword", c03Codeword{Prefix: hrp0, Len: LB, Subs: []sub{{pos, v}}}, "")
				pos = LB
				break
			}
		}
	}
	bfound := 0
	// d >= 5: all weight<=2 syndromes distinct and non-zero
	bstates, _ := minDistanceSearch(c, UB, LB, false, func(subs []sub) {
		bfound++
		if bfound <= 5 {
			c.Violate(fmt.Sprintf("bech32-codeword-of-weight-%d", len(subs)), "bech-codeword", c03Codeword{Prefix: hrp0, Len: LB, Subs: subs}, "model: two error patterns of weight<=2 share a syndrome")
		}
	})
	c.States.Add(bstates)
	c.Transitions.Add(bstates)
	c.Evals.Add(bstates)
	c.Space("bech32 syndrome model L=88: weight<=2 stored, pairwise distinct", bstates)
	c.Note("bech32_codewords_found", bfound)
	// additivity on the real polymod
	{
		s0 := bechSyn(hrp0, bbase)
		if s0 != 0 {
			c.Violate("bech32-valid-word-nonzero-remainder", "bech-codeword", c03Codeword{Prefix: hrp0, Len: LB}, fmt.Sprintf("%x", s0))
		}
		L := LB
		var bad atomic.Int64
		c.ParFor(int64(L*(L-1)/2), func(w *mc.W, pi int64) {
			i, j := pairFromIndex(int(pi), L)
			m := append([]byte{}, bbase...)
			for a := 1; a < 32; a++ {
				for bb := 1; bb < 32; bb++ {
					m[L-1-i] = bbase[L-1-i] ^ byte(a)
					m[L-1-j] = bbase[L-1-j] ^ byte(bb)
					w.Eval()
					if bechSyn(hrp0, m) != UB[i][a]^UB[j][bb] {
						if bad.Add(1) <= 3 {
							c.Violate("bech32-remainder-not-additive", "bech-codeword", c03Codeword{Prefix: hrp0, Len: L, Subs: []sub{{i, a}, {j, bb}}}, "")
						}
					}
				}
			}
		})
	}
	// decoder replay
	type bjob struct {
		hrp string
		L   int
		w   int
	}
	bjobs := []bjob{{"a", 88, 2}, {"bc", 87, 2}, {"bc", 39, 2}, {"tb", 14, 2}, {strings.Repeat("x", 83), 6, 2}, {"a", 8, 2}}
	if c.Thorough() {
		bjobs = append(bjobs, bjob{"a", 20, 3}, bjob{"bc", 7, 4}, bjob{"bc", 10, 4})
	} else {
		bjobs = append(bjobs, bjob{"bc", 7, 3})
	}
	for _, jb := range bjobs {
		jb := jb
		full := c03BechBase(jb.hrp, jb.L)
		if _, _, err := bech32.Decode(full); err != nil {
			c.NotExhaustive("the bech32 decoder rejects a valid base string: a family of C03 ran vacuously (" + err.Error() + ")")
			continue
		}
		L := jb.L
		var pats [][]int // position sets of weight 1..w
		var rec func(start int, cur []int)
		rec = func(start int, cur []int) {
			if len(cur) > 0 {
				pats = append(pats, append([]int{}, cur...))
			}
			if len(cur) == jb.w {
				return
			}
			for p := start; p < L; p++ {
				rec(p+1, append(cur, p))
			}
		}
		rec(0, nil)
		c.Space(fmt.Sprintf("bech32 decoder replay weight<=%d: hrp %q L=%d", jb.w, jb.hrp, L), int64(len(pats)))
		c.ParFor(int64(len(pats)), func(w *mc.W, pi int64) {
			pos := pats[pi]
			vals := make([]int, len(pos))
			for i := range vals {
				vals[i] = 1
			}
			for {
				subs := make([]sub, len(pos))
				for i := range pos {
					subs[i] = sub{pos[i], vals[i]}
				}
				c03EvalBechString(w, c03Str{Prefix: jb.hrp, Base: full, Subs: subs, Via: "bech32.Decode"})
				k := 0
				for k < len(vals) {
					vals[k]++
					if vals[k] < 32 {
						break
					}
					vals[k] = 1
					k++
				}
				if k == len(vals) {
					break
				}
			}
			w.Nontrivial(mc.HashString(jb.hrp, fmt.Sprint(L, pos)))
		})
	}
	c.Sample("bech-string", c03Str{Prefix: "bc", Base: c03BechBase("bc", 39), Subs: []sub{{0, 1}, {38, 31}}, Via: "bech32.Decode"})

	// ---- acceptance set = zero syndrome, exhaustively.  XOR-ing the 30-bit value s onto the six
	// checksum symbols of a valid string yields a word whose syndrome is exactly s, so running all
	// 2^30 - 1 non-zero values decides "nothing but remainder == 1 is accepted" (an extra accepted
	// remainder is reachable by some weight-3/4 pattern in an 88-symbol window, because there are
	// far more such patterns than syndromes).  Quick: through the hooked acceptance function;
	// thorough: through the real bech32.Decode.
	{
		baseStr := c03BechBase("a", 6) // "a1" + 6 checksum symbols
		cs := symbolsOf(baseStr[2:], ref.Bech32Charset)
		total := int64(1)<<30 - 1
		viaDecode := c.Thorough() || hookBechVerify == nil
		if viaDecode && c.Quick() {
			total = 1<<24 - 1 // black-box quick tier: low 24 bits and (below) high 24 bits only
			c.NotExhaustive("bech32 acceptance-set sweep restricted to 2 x 2^24 syndromes (hook unavailable, quick tier)")
		}
		c.Space("bech32 acceptance sweep: non-zero syndromes XOR-ed onto the checksum symbols", total)
		var bad atomic.Int64
		c.ParFor(total, func(w *mc.W, i int64) {
			for pass := 0; pass < 2; pass++ {
				s := uint32(i + 1)
				if pass == 1 {
					if total == int64(1)<<30-1 {
						break
					}
					s <<= 6
				}
				var sym [6]byte
				for k := 0; k < 6; k++ {
					sym[k] = cs[k] ^ byte(s>>(5*uint(5-k))&31)
				}
				accepted := false
				if viaDecode {
					var b [8]byte
					b[0], b[1] = 'a', '1'
					for k := 0; k < 6; k++ {
						b[2+k] = ref.Bech32Charset[sym[k]]
					}
					_, _, err := bech32.Decode(string(b[:]))
					accepted = err == nil
					w.Trace()
				} else {
					accepted = hookBechVerify("a", sym[:])
				}
				w.Eval()
				if accepted && bad.Add(1) <= 3 {
					var subs []sub
					for k := 0; k < 6; k++ {
						if v := int(s >> (5 * uint(5-k)) & 31); v != 0 {
							subs = append(subs, sub{5 - k, v})
						}
					}
					c.Violate("bech32-accepts-a-nonzero-remainder", "bech-string", c03Str{Prefix: "a", Base: baseStr, Subs: subs, Via: "bech32.Decode"},
						fmt.Sprintf("remainder %08x (relative to the valid one) is accepted", s))
				}
			}
		})
	}
	// CashAddr through the hooked acceptance function: the lowest and the highest 2^28 (2^32) of the
	// 2^40 remainder values (still only a 2^-11 (2^-7) fraction of the space: see DESIGN 9.2b)
	if hookCashVerify != nil {
		base := c03CashBase(prefix0, 42)
		cs := symbolsOf(base, ref.CashCharset)
		bits := mc.Pick(c, 28, 32)
		total := int64(1)<<uint(bits) - 1
		c.Space("cashaddr acceptance sweep through the hooked verifyChecksum: low and high remainder values", 2*total)
		var bad atomic.Int64
		c.ParFor(total, func(w *mc.W, i int64) {
			sym := make([]byte, len(cs))
			for pass := 0; pass < 2; pass++ {
				s := uint64(i + 1)
				if pass == 1 {
					s <<= uint(40 - bits)
				}
				copy(sym, cs)
				for k := 0; k < 8; k++ {
					sym[len(sym)-1-k] ^= byte(s >> (5 * uint(k)) & 31)
				}
				w.Eval()
				if hookCashVerify(prefix0, sym) && bad.Add(1) <= 3 {
					var subs []sub
					for k := 0; k < 8; k++ {
						if v := int(s >> (5 * uint(k)) & 31); v != 0 {
							subs = append(subs, sub{k, v})
						}
					}
					c.Violate("cashaddr-accepts-a-nonzero-remainder", "cash-string", c03Str{Prefix: prefix0, Base: base, Subs: subs, Via: "DecodeCashAddress"}, fmt.Sprintf("remainder %010x accepted by verifyChecksum", s))
				}
			}
		})
	}
	// CashAddr has 2^40 remainders; swept here: all whose value is below 2^20 (2^24) and all whose
	// low 20 (16) bits are zero, through the real decoder.
	{
		base := c03CashBase(prefix0, 42)
		cs := symbolsOf(base, ref.CashCharset)
		bits := mc.Pick(c, 20, 24)
		total := int64(1)<<uint(bits) - 1
		c.Space("cashaddr acceptance sweep: low and high remainder values XOR-ed onto the checksum symbols", 2*total)
		var bad atomic.Int64
		c.ParFor(total, func(w *mc.W, i int64) {
			for pass := 0; pass < 2; pass++ {
				s := uint64(i + 1)
				if pass == 1 {
					s <<= uint(40 - bits)
				}
				b := []byte(base)
				var subs []sub
				for k := 0; k < 8; k++ {
					if v := int(s >> (5 * uint(k)) & 31); v != 0 {
						subs = append(subs, sub{k, v})
						b[len(b)-1-k] = ref.CashCharset[cs[len(cs)-1-k]^byte(v)]
					}
				}
				_, _, err := bchutil.DecodeCashAddress(prefix0 + ":" + string(b))
				w.Eval()
				w.Trace()
				if err == nil && bad.Add(1) <= 3 {
					c.Violate("cashaddr-accepts-a-nonzero-remainder", "cash-string", c03Str{Prefix: prefix0, Base: base, Subs: subs, Via: "DecodeCashAddress"}, fmt.Sprintf("remainder %010x accepted", s))
				}
			}
		})
	}
	runC03Foreign(c)
	runC03Constants(c)
	runC03Case(c)
	runC03Fingerprint(c)
	runC03Calls(c)
}

func pairFromIndex(pi, L int) (int, int) {
	i := 0
	for pi >= L-1-i {
		pi -= L - 1 - i
		i++
	}
	return i, i + 1 + pi
}
