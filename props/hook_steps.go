//go:build steps

package props

import "github.com/gcash/bchutil/verifrt"

// steps-instrumented build (C08): the library counts function entries and loop iterations.
var hookStepReset func(budget int64) = func(b int64) { verifrt.Steps = 0; verifrt.StepBudget = b }
var hookStepRead func() int64 = func() int64 { return verifrt.Steps }
