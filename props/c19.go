package props

import (
	"encoding/json"
	"fmt"
	"sort"
	"strconv"
	"strings"
	"sync/atomic"

	"github.com/gcash/bchd/chaincfg/chainhash"
	"github.com/gcash/bchd/wire"
	"github.com/gcash/bchutil"
	"github.com/gcash/bchutil/coinset"

	"verif/mc"
	"verif/ref"
)

// C19 — coin selection returns only valid selections and coin-set totals never drift.
//
// Two families:
//   "sel"  (E-ENUM) one CoinSelect call: selector x ordered coin list x target x MaxInputs x
//          MinChangeAmount (x MinAvgValueAgePerInput for the min-priority selector);
//   "hist" (E-SEQ)  one push/pop/shift history on a CoinSet built by NewCoinSet, replayed on a
//          fresh object and compared with the slice model after every operation.

func init() {
	register(&Prop{ID: "C19", Run: runC19, Replay: map[string]func(*mc.Ctx, json.RawMessage){
		"sel":  replayer(c19EvalSel),
		"hist": replayer(c19EvalHist),
		"pair": replayer(c19EvalPair),
	}})
}

// c19Coin is the harness's own Coin: an outpoint, a value and a confirmation count.
type c19Coin struct {
	hash  chainhash.Hash
	index uint32
	value int64
	confs int64
	id    int
}

func (k *c19Coin) Hash() *chainhash.Hash { return &k.hash }
func (k *c19Coin) Index() uint32         { return k.index }
func (k *c19Coin) Value() bchutil.Amount { return bchutil.Amount(k.value) }
func (k *c19Coin) PkScript() []byte      { return nil }
func (k *c19Coin) NumConfs() int64       { return k.confs }
func (k *c19Coin) ValueAge() int64       { return k.value * k.confs }

func c19NewCoin(id int, value, confs int64) *c19Coin {
	k := &c19Coin{index: uint32(id), value: value, confs: confs, id: id}
	for i := range k.hash {
		k.hash[i] = byte(0xc0 + id)
	}
	k.hash[0] = byte(id + 1)
	return k
}

// ---------------------------------------------------------------------------------------
// Selectors

type c19Sel struct {
	Sel       string     `json:"selector"` // minindex | minnumber | maxvalueage | minpriority
	Coins     [][2]int64 `json:"coins_value_confs"`
	Target    int64      `json:"target"`
	MaxInputs int        `json:"max_inputs"`
	MinChange int64      `json:"min_change"`
	MinAvg    int64      `json:"min_avg_valueage_per_input"` // min-priority selector only
	// Earlier: an earlier CoinSelect call (target = the list's total) made with the SAME selector
	// value on this other list before the call under test; a selection must not depend on it
	Earlier [][2]int64 `json:"earlier_call_coins,omitempty"`
}

var (
	c19Selectors  = []string{"minindex", "minnumber", "maxvalueage", "minpriority"}
	c19Values     = []int64{0, 1, 2, 3, 5}
	c19Confs      = []int64{0, 1, 2}
	c19MinChanges = []int64{0, 1, 2}
	c19MinAvgs    = []int64{0, 1, 2, 4, 7}
)

// c19MatchesSomeOrder: is there a descending order of the list by key (ties broken any way)
// whose shortest-qualifying-prefix outcome is the observed one?  failed: the selector returned
// an error (observed outcome "no qualifying prefix"); otherwise gotMask/gotN describe the
// returned coins as a set of list positions.
func c19MatchesSomeOrder(keys, values []int64, target, minChange int64, maxInputs int, failed bool, gotIDs []int) bool {
	// Fast path (any list length): when coins with equal keys also have equal values, every descending
	// order has the same sequence of values, hence the same shortest qualifying prefix length k; the
	// orders differ only in WHICH of the coins tied at the boundary fall inside the prefix, and every
	// such choice is realised by some order.  The observed outcome matches some order iff it has k
	// coins whose keys, as a multiset, are the k largest keys.
	uniform := true
	valOfKey := map[int64]int64{}
	for i, k := range keys {
		if v, ok := valOfKey[k]; ok && v != values[i] {
			uniform = false
			break
		}
		valOfKey[k] = values[i]
	}
	if uniform && len(keys) <= 5 {
		// on short lists both deciders run and must agree (the enumeration is the definition)
		fast := c19FastOrder(keys, values, target, minChange, maxInputs, failed, gotIDs)
		slow := c19EnumOrder(keys, values, target, minChange, maxInputs, failed, gotIDs)
		if fast != slow {
			panic(fmt.Sprintf("c19: tie-aware decider disagrees with the enumeration of tie orders: keys=%v values=%v target=%d minChange=%d maxInputs=%d failed=%v got=%v fast=%v slow=%v", keys, values, target, minChange, maxInputs, failed, gotIDs, fast, slow))
		}
		return slow
	}
	if uniform {
		return c19FastOrder(keys, values, target, minChange, maxInputs, failed, gotIDs)
	}
	return c19EnumOrder(keys, values, target, minChange, maxInputs, failed, gotIDs)
}

func c19FastOrder(keys, values []int64, target, minChange int64, maxInputs int, failed bool, gotIDs []int) bool {
	gotN := len(gotIDs)
	{
		idx := make([]int, len(keys))
		for i := range idx {
			idx[i] = i
		}
		sort.SliceStable(idx, func(a, b int) bool { return keys[idx[a]] > keys[idx[b]] })
		vals := make([]int64, len(keys))
		for i, j := range idx {
			vals[i] = values[j]
		}
		k := ref.ShortestQualifyingPrefix(vals, target, minChange, maxInputs)
		if failed {
			return k == 0
		}
		if k == 0 || k != gotN {
			return false
		}
		gk := make([]int64, 0, gotN)
		for _, j := range gotIDs {
			gk = append(gk, keys[j])
		}
		sort.Slice(gk, func(a, b int) bool { return gk[a] > gk[b] })
		for i := 0; i < k; i++ {
			if gk[i] != keys[idx[i]] {
				return false
			}
		}
		return true
	}
}

func c19EnumOrder(keys, values []int64, target, minChange int64, maxInputs int, failed bool, gotIDs []int) bool {
	gotN := len(gotIDs)
	if len(keys) > 64 {
		panic("c19: tie enumeration needs <= 64 coins")
	}
	gotMask := uint(0)
	for _, j := range gotIDs {
		gotMask |= 1 << uint(j)
	}
	found := false
	vals := make([]int64, len(keys))
	ref.EachDescendingOrder(keys, func(p []int) bool {
		for i, j := range p {
			vals[i] = values[j]
		}
		k := ref.ShortestQualifyingPrefix(vals, target, minChange, maxInputs)
		if failed {
			found = k == 0
		} else if k > 0 && k == gotN {
			m := uint(0)
			for _, j := range p[:k] {
				m |= 1 << uint(j)
			}
			found = m == gotMask
		}
		return !found
	})
	return found
}

// c19IsPrefix: the selected positions are exactly 0..k-1
func c19IsPrefix(seen []bool, count, k int) bool {
	if count != k {
		return false
	}
	for i := 0; i < k; i++ {
		if !seen[i] {
			return false
		}
	}
	return true
}

func c19EvalSel(w *mc.W, cas c19Sel) {
	c := w.Ctx()
	n := len(cas.Coins)
	objs := make([]*c19Coin, n)
	offered := make([]coinset.Coin, n)
	values := make([]int64, n)
	ages := make([]int64, n)
	sumAll := int64(0)
	for i, vc := range cas.Coins {
		objs[i] = c19NewCoin(i, vc[0], vc[1])
		offered[i] = objs[i]
		values[i] = vc[0]
		ages[i] = vc[0] * vc[1]
		sumAll += vc[0]
	}
	var sel coinset.CoinSelector
	switch cas.Sel {
	case "minindex":
		sel = coinset.MinIndexCoinSelector{MaxInputs: cas.MaxInputs, MinChangeAmount: bchutil.Amount(cas.MinChange)}
	case "minnumber":
		sel = coinset.MinNumberCoinSelector{MaxInputs: cas.MaxInputs, MinChangeAmount: bchutil.Amount(cas.MinChange)}
	case "maxvalueage":
		sel = coinset.MaxValueAgeCoinSelector{MaxInputs: cas.MaxInputs, MinChangeAmount: bchutil.Amount(cas.MinChange)}
	case "minpriority":
		sel = coinset.MinPriorityCoinSelector{MaxInputs: cas.MaxInputs, MinChangeAmount: bchutil.Amount(cas.MinChange), MinAvgValueAgePerInput: cas.MinAvg}
	default:
		panic("c19: unknown selector " + cas.Sel)
	}
	s := cas.Sel
	if len(cas.Earlier) > 0 {
		var el []coinset.Coin
		tot := int64(0)
		for i, vc := range cas.Earlier {
			el = append(el, c19NewCoin(100+i, vc[0], vc[1]))
			tot += vc[0]
		}
		mc.Guard(func() { sel.CoinSelect(bchutil.Amount(tot), el) })
	}
	w.Eval()
	var res coinset.Coins
	var err error
	var got []coinset.Coin
	if msg, p := mc.Guard(func() {
		res, err = sel.CoinSelect(bchutil.Amount(cas.Target), offered)
		if err == nil && res != nil {
			got = res.Coins()
		}
	}); p {
		c.Violate(s+"/panic", "sel", cas, msg)
		return
	}

	if err != nil {
		w.Outcome(s + ": no selection")
		if sumAll >= cas.Target && cas.MaxInputs >= 1 && n >= 1 {
			w.Nontrivial(c19SelKey(cas))
		}
		switch s {
		case "minindex":
			if k := ref.ShortestQualifyingPrefix(values, cas.Target, cas.MinChange, cas.MaxInputs); k > 0 {
				c.Violate("minindex/fails-although-a-prefix-qualifies", "sel", cas, fmt.Sprintf("prefix of length %d qualifies; err=%v", k, err))
			}
		case "minnumber":
			if !c19MatchesSomeOrder(values, values, cas.Target, cas.MinChange, cas.MaxInputs, true, nil) {
				c.Violate("minnumber/fails-although-every-descending-order-has-a-qualifying-prefix", "sel", cas, fmt.Sprintf("err=%v", err))
			}
		case "maxvalueage":
			if !c19MatchesSomeOrder(ages, values, cas.Target, cas.MinChange, cas.MaxInputs, true, nil) {
				c.Violate("maxvalueage/fails-although-every-descending-order-has-a-qualifying-prefix", "sel", cas, fmt.Sprintf("err=%v", err))
			}
		}
		// min-priority: the statement constrains successful selections only
		return
	}

	if res == nil {
		c.Violate(s+"/nil-selection-without-error", "sel", cas, "CoinSelect returned (nil, nil)")
		return
	}
	// identity: every returned coin is one of the offered objects, none twice
	ids := make([]int, 0, len(got))
	seen := make([]bool, n)
	total, totalAge := int64(0), int64(0)
	for pos, g := range got {
		k, ok := g.(*c19Coin)
		if !ok || k == nil || k.id < 0 || k.id >= n || objs[k.id] != k {
			c.Violate(s+"/coin-not-from-list", "sel", cas, fmt.Sprintf("returned coin #%d is not one of the offered objects", pos))
			return
		}
		if seen[k.id] {
			c.Violate(s+"/duplicate-coin", "sel", cas, fmt.Sprintf("offered coin #%d returned twice (selection %v + %d)", k.id, ids, k.id))
			return
		}
		seen[k.id] = true
		ids = append(ids, k.id)
		total += k.value
		totalAge += k.value * k.confs
	}
	desc := fmt.Sprintf("selected list positions %v: count=%d total=%d valueAge=%d", ids, len(ids), total, totalAge)
	if total == cas.Target {
		w.Outcome(s + ": selection, total == target")
	} else {
		w.Outcome(s + ": selection, total != target")
	}
	if len(ids) >= 2 {
		w.Nontrivial(c19SelKey(cas))
	}

	if len(ids) > cas.MaxInputs {
		c.Violate(s+"/count-exceeds-maxinputs", "sel", cas, desc)
	}
	if !ref.CoinSatisfies(cas.Target, cas.MinChange, total) {
		c.Violate(s+"/total-violates-minchange", "sel", cas, desc)
	}
	switch s {
	case "minindex":
		k := ref.ShortestQualifyingPrefix(values, cas.Target, cas.MinChange, cas.MaxInputs)
		if k == 0 {
			c.Violate("minindex/succeeds-although-no-prefix-qualifies", "sel", cas, desc)
		} else if !c19IsPrefix(seen, len(ids), k) {
			c.Violate("minindex/not-shortest-qualifying-prefix", "sel", cas, fmt.Sprintf("%s; shortest qualifying prefix has length %d", desc, k))
		}
	case "minnumber":
		if !c19MatchesSomeOrder(values, values, cas.Target, cas.MinChange, cas.MaxInputs, false, ids) {
			c.Violate("minnumber/not-shortest-prefix-of-any-descending-order", "sel", cas, desc)
		}
	case "maxvalueage":
		if !c19MatchesSomeOrder(ages, values, cas.Target, cas.MinChange, cas.MaxInputs, false, ids) {
			c.Violate("maxvalueage/not-shortest-prefix-of-any-descending-order", "sel", cas, desc)
		}
	case "minpriority":
		if totalAge < cas.MinAvg*int64(len(ids)) {
			c.Violate("minpriority/average-valueage-below-minimum", "sel", cas, fmt.Sprintf("%s; required %d*%d=%d", desc, cas.MinAvg, len(ids), cas.MinAvg*int64(len(ids))))
		}
	}
}

func c19SelKey(cas c19Sel) uint64 {
	b := make([]byte, 0, 24)
	b = append(b, cas.Sel[3], cas.Sel[4], byte(cas.Target), byte(cas.MaxInputs), byte(cas.MinChange), byte(cas.MinAvg), byte(len(cas.Coins)))
	for _, vc := range cas.Coins {
		b = append(b, byte(vc[0]), byte(vc[1]))
	}
	return mc.HashBytes(b)
}

// c19ListAt decodes a list index: lists are numbered by length, then as base-15 numerals
// over the coin kinds (value x confirmations).
func c19ListAt(idx int64) [][2]int64 {
	kinds := int64(len(c19Values) * len(c19Confs))
	n := 0
	for size := int64(1); idx >= size; size *= kinds {
		idx -= size
		n++
	}
	l := make([][2]int64, n)
	for i := n - 1; i >= 0; i-- {
		k := idx % kinds
		idx /= kinds
		l[i] = [2]int64{c19Values[k/int64(len(c19Confs))], c19Confs[k%int64(len(c19Confs))]}
	}
	return l
}

// c19SelParams visits every parameter combination for one list.
func c19SelParams(list [][2]int64, f func(cas c19Sel)) {
	sum := int64(0)
	for _, vc := range list {
		sum += vc[0]
	}
	n := len(list)
	for _, s := range c19Selectors {
		avgs := []int64{0}
		if s == "minpriority" {
			avgs = c19MinAvgs
		}
		for target := int64(0); target <= sum+1; target++ {
			for maxIn := 0; maxIn <= n+1; maxIn++ {
				for _, chg := range c19MinChanges {
					for _, avg := range avgs {
						f(c19Sel{Sel: s, Coins: list, Target: target, MaxInputs: maxIn, MinChange: chg, MinAvg: avg})
					}
				}
			}
		}
	}
}

// ---------------------------------------------------------------------------------------
// Coin set

// c19Hist is one history: NewCoinSet(init coins) followed by the operations.
type c19Hist struct {
	Init []int    `json:"init"` // ids (1..3) of the coins handed to NewCoinSet; empty = NewCoinSet(nil)
	Ops  []string `json:"ops"`  // push1 | push2 | push3 | pop | shift
	// observation schedule: bit i set = the observers are NOT called at point i (0 = after
	// construction, i = after operation i); the last point is always observed in full.  At the
	// intermediate points that are observed, Observers selects which observers run ("" = all,
	// "coins", "tx", "totals").  Observers must not change what later observations return.
	Skip      uint32 `json:"skip_observation_mask,omitempty"`
	Observers string `json:"intermediate_observers,omitempty"`
}

var c19Ops = []string{"push1", "push2", "push3", "pop", "shift"}

// the three coins of the coin-set family: (value, confirmations) with pairwise different
// values and value-ages, one value-age being zero
var c19SetCoins = map[int]*c19Coin{
	1: c19NewCoin(1, 1, 2),
	2: c19NewCoin(2, 3, 1),
	3: c19NewCoin(3, 5, 0),
}
var c19SetValue = map[int]int64{1: 1, 2: 3, 3: 5}
var c19SetAge = map[int]int64{1: 2, 2: 3, 3: 0}

// coins 161..163: value-ages of 6e18, 5.4e18 and 4e18 (two of them already exceed the int64 range
// together; Go's arithmetic wraps, and a total that wraps on the way up comes back on the way down)
func init() {
	for i, vc := range [][2]int64{{2_000_000_000_000_000, 3000}, {1_800_000_000_000_000, 3000}, {2_000_000_000_000_000, 2000}} {
		id := 161 + i
		c19SetCoins[id] = c19NewCoin(id, vc[0], vc[1])
		c19SetValue[id] = vc[0]
		c19SetAge[id] = vc[0] * vc[1]
	}
}

// coins 4..160 of the long-history family: pairwise different values (1000+id) and confirmations
func init() {
	for id := 4; id <= 160; id++ {
		v, cf := int64(1000+id), int64(id%5)
		c19SetCoins[id] = c19NewCoin(id, v, cf)
		c19SetValue[id] = v
		c19SetAge[id] = v * cf
	}
}

var c19Inits = func() [][]int {
	out := [][]int{{}}
	for a := 1; a <= 3; a++ {
		out = append(out, []int{a})
	}
	for a := 1; a <= 3; a++ {
		for b := 1; b <= 3; b++ {
			out = append(out, []int{a, b})
		}
	}
	return out
}()

var c19OpsExecuted atomic.Int64

// c19Observe evaluates every observer of the statement on the real set and compares with the
// model.  It returns the violation class ("" if all agree) and the implementation's observable
// state rendered as a key.
func c19Observe(set *coinset.CoinSet, m *ref.CoinSetModel, kind string) (class, detail, implKey string) {
	var num int
	var tv, tva int64
	var coins []coinset.Coin
	var tx *wire.MsgTx
	doTotals, doCoins, doTx := kind == "" || kind == "totals", kind == "" || kind == "coins", kind == "" || kind == "tx"
	if msg, p := mc.Guard(func() {
		if doTotals {
			num = set.Num()
			tv = int64(set.TotalValue())
			tva = set.TotalValueAge()
		}
		if doCoins {
			coins = set.Coins()
		}
		if doTx {
			tx = coinset.NewMsgTxWithInputCoins(wire.TxVersion, set)
		}
	}); p {
		return "coinset/panic", "observer panicked: " + msg, ""
	}
	if !doTotals {
		num, tv, tva = len(m.IDs), m.Sum(c19SetValue), m.Sum(c19SetAge)
	}
	var sb strings.Builder
	fmt.Fprintf(&sb, "n=%d v=%d a=%d [", num, tv, tva)
	identOK := len(coins) == len(m.IDs) || !doCoins
	for i, k := range coins {
		kc, ok := k.(*c19Coin)
		if ok && kc != nil {
			fmt.Fprintf(&sb, "%d ", kc.id)
		} else {
			sb.WriteString("? ")
		}
		if identOK && (!ok || i >= len(m.IDs) || c19SetCoins[m.IDs[i]] != kc) {
			identOK = false
		}
	}
	sb.WriteString("]")
	implKey = sb.String()
	if num != len(m.IDs) {
		return "coinset/num-differs-from-contents", fmt.Sprintf("Num()=%d, model has %v", num, m.IDs), implKey
	}
	if want := m.Sum(c19SetValue); tv != want {
		return "coinset/totalvalue-differs-from-sum-of-contents", fmt.Sprintf("TotalValue()=%d, sum over %v is %d", tv, m.IDs, want), implKey
	}
	if want := m.Sum(c19SetAge); tva != want {
		return "coinset/totalvalueage-differs-from-sum-of-contents", fmt.Sprintf("TotalValueAge()=%d, sum over %v is %d", tva, m.IDs, want), implKey
	}
	if !identOK {
		return "coinset/coins-differ-from-model", fmt.Sprintf("Coins() = %s, model %v", implKey, m.IDs), implKey
	}
	if !doTx {
		return "", "", implKey
	}
	if tx == nil || len(tx.TxIn) != len(m.IDs) {
		return "coinset/tx-input-count-differs", fmt.Sprintf("model %v", m.IDs), implKey
	}
	for i, in := range tx.TxIn {
		k := c19SetCoins[m.IDs[i]]
		if in == nil || in.PreviousOutPoint.Hash != k.hash || in.PreviousOutPoint.Index != k.index {
			return "coinset/tx-outpoints-differ", fmt.Sprintf("input %d does not spend the outpoint of coin %d (model %v)", i, m.IDs[i], m.IDs), implKey
		}
	}
	return "", "", implKey
}

// c19RunHist replays one history on a fresh real CoinSet, comparing with the model after
// construction and after every operation.  Operations with index >= countFrom are counted as
// transitions (the explorer replays a known-good prefix and adds one new operation).  It
// returns the model state key, the implementation key and whether they agreed throughout.
func c19RunHist(w *mc.W, cas c19Hist, countFrom int) (modelKey, implKey string, agree bool) {
	c := w.Ctx()
	m := &ref.CoinSetModel{}
	var init []coinset.Coin // nil for the empty initial set
	for _, id := range cas.Init {
		if c19SetCoins[id] == nil {
			panic(fmt.Sprintf("c19: bad coin id %d", id))
		}
		init = append(init, c19SetCoins[id])
		m.Push(id)
	}
	var set *coinset.CoinSet
	if msg, p := mc.Guard(func() { set = coinset.NewCoinSet(init) }); p || set == nil {
		c.Violate("coinset/panic", "hist", cas, "NewCoinSet: "+msg)
		return "", "", false
	}
	w.Eval()
	last := len(cas.Ops)
	var class, detail, ik string
	if last == 0 {
		class, detail, ik = c19Observe(set, m, "")
	} else if cas.Skip&1 == 0 {
		class, detail, ik = c19Observe(set, m, cas.Observers)
	}
	if class != "" {
		c.Violate(class, "hist", cas, "after NewCoinSet: "+detail)
		return fmt.Sprint(m.IDs), ik, false
	}
	for i, op := range cas.Ops {
		var ret coinset.Coin
		var wantID int
		var wantOK, removes bool
		msg, p := mc.Guard(func() {
			switch op {
			default:
				if !strings.HasPrefix(op, "push") || c19SetCoins[func() int { n, _ := strconv.Atoi(op[4:]); return n }()] == nil {
					panic("c19: unknown op " + op)
				}
				id, _ := strconv.Atoi(op[4:])
				set.PushCoin(c19SetCoins[id])
				m.Push(id)
			case "pop":
				removes = true
				ret = set.PopCoin()
				wantID, wantOK = m.Pop()
			case "shift":
				removes = true
				ret = set.ShiftCoin()
				wantID, wantOK = m.Shift()
			}
		})
		c19OpsExecuted.Add(1)
		if i >= countFrom {
			w.Trans()
			switch {
			case !removes:
				w.Outcome("coin set: push")
			case wantOK:
				w.Outcome("coin set: " + op + " removes a coin")
			default:
				w.Outcome("coin set: " + op + " on an empty set")
			}
		}
		at := fmt.Sprintf("after op %d (%s): ", i+1, op)
		if p {
			c.Violate("coinset/panic", "hist", cas, at+msg)
			return fmt.Sprint(m.IDs), "", false
		}
		if removes {
			w.Eval()
			if !wantOK {
				if ret != nil {
					c.Violate("coinset/"+op+"-on-empty-set-returns-non-nil", "hist", cas, at+"expected nil")
					return fmt.Sprint(m.IDs), "", false
				}
			} else if k, ok := ret.(*c19Coin); !ok || k != c19SetCoins[wantID] {
				c.Violate("coinset/"+op+"-returns-wrong-coin", "hist", cas, fmt.Sprintf("%sexpected coin %d", at, wantID))
				return fmt.Sprint(m.IDs), "", false
			}
		}
		if i+1 < last && cas.Skip>>uint(i+1)&1 == 1 {
			continue
		}
		w.Eval()
		if i+1 == last {
			class, detail, ik = c19Observe(set, m, "")
		} else {
			class, detail, ik = c19Observe(set, m, cas.Observers)
		}
		if class != "" {
			c.Violate(class, "hist", cas, at+detail)
			return fmt.Sprint(m.IDs), ik, false
		}
	}
	return fmt.Sprint(m.IDs), ik, true
}

// c19Pair: two coin sets built from prefixes of ONE caller-owned list that has spare capacity;
// operations are applied to the sets in turn, then both sets and the caller's list are observed.
// What is done to one set must not show in the other (the statement speaks about each set's own contents).
type c19Pair struct {
	List []int    `json:"list"`     // coin ids (1..3) of the caller's list
	Cap  int      `json:"capacity"` // capacity of the caller's slice (>= len(List))
	KA   int      `json:"prefix_a"` // set A = NewCoinSet(list[:KA])
	KB   int      `json:"prefix_b"` // set B = NewCoinSet(list[:KB])
	Ops  []string `json:"ops"`      // a:push1 | a:pop | b:shift | ...
}

func c19EvalPair(w *mc.W, cas c19Pair) {
	c := w.Ctx()
	w.Trace()
	list := make([]coinset.Coin, len(cas.List), cas.Cap)
	for i, id := range cas.List {
		list[i] = c19SetCoins[id]
	}
	var sets [2]*coinset.CoinSet
	var models [2]*ref.CoinSetModel
	msg, p := mc.Guard(func() {
		for k, n := range []int{cas.KA, cas.KB} {
			sets[k] = coinset.NewCoinSet(list[:n])
			models[k] = &ref.CoinSetModel{}
			for _, id := range cas.List[:n] {
				models[k].Push(id)
			}
		}
		for _, op := range cas.Ops {
			k := 0
			if op[0] == 'b' {
				k = 1
			}
			switch op[2:] {
			case "push1", "push2", "push3":
				id := int(op[6] - '0')
				sets[k].PushCoin(c19SetCoins[id])
				models[k].Push(id)
			case "pop":
				sets[k].PopCoin()
				models[k].Pop()
			case "shift":
				sets[k].ShiftCoin()
				models[k].Shift()
			default:
				panic("c19: unknown pair op " + op)
			}
		}
	})
	if p {
		c.Violate("coinset/panic", "pair", cas, msg)
		return
	}
	for k := range sets {
		w.Eval()
		if class, detail, _ := c19Observe(sets[k], models[k], ""); class != "" {
			c.Violate(class+"/two-sets-from-one-list", "pair", cas, fmt.Sprintf("set %c: %s", 'A'+k, detail))
			return
		}
	}
	// (what happens to the caller's own slice is not part of the statement: a set may adopt it)
	w.Outcome("two coin sets from one list: independent")
}

func c19EvalHist(w *mc.W, cas c19Hist) {
	w.Trace()
	c19RunHist(w, cas, 0)
}

// c19HistAt decodes an index of the flat history space: initial set x length x base-5 numeral.
func c19HistAt(idx int64, maxDepth int) c19Hist {
	per := int64(0) // histories per initial set
	for d, s := 0, int64(1); d <= maxDepth; d, s = d+1, s*int64(len(c19Ops)) {
		per += s
	}
	init := c19Inits[idx/per]
	idx %= per
	d := 0
	for size := int64(1); idx >= size; size *= int64(len(c19Ops)) {
		idx -= size
		d++
	}
	ops := make([]string, d)
	for i := d - 1; i >= 0; i-- {
		ops[i] = c19Ops[idx%int64(len(c19Ops))]
		idx /= int64(len(c19Ops))
	}
	return c19Hist{Init: init, Ops: ops}
}

func c19HasRemoval(ops []string) bool {
	for _, o := range ops {
		if o == "pop" || o == "shift" {
			return true
		}
	}
	return false
}

// ---------------------------------------------------------------------------------------

func runC19(c *mc.Ctx) {
	c.Rule("selectors: every (selector, ordered coin list, target, MaxInputs, MinChangeAmount[, MinAvgValueAgePerInput]) of the bound is one real CoinSelect call judged by the statement's clauses (tie orders of the descending sorts enumerated exhaustively); non-trivial = the selector returned >= 2 coins, or returned no selection although the list is non-empty, MaxInputs >= 1 and the list's total reaches the target. coin set: breadth-first search over push/pop/shift histories, each successor obtained by replaying the history on a fresh CoinSet, every observer compared with a slice model after every operation; non-trivial = states whose shortest history contains a pop or shift")
	c.Assume("a selection has at least one coin: 'shortest qualifying prefix' ranges over prefixes of length 1..min(len, MaxInputs), so with target 0 the empty prefix is not demanded")
	c.Assume("the statement does not say when the min-priority selector may fail; only its successful selections are judged")
	c.Assume("selections are compared as sets of coin objects (the statement fixes an order only for the inputs of a transaction built from a coin set)")
	c.Assume("coin values are non-negative (value in {0,1,2,3,5}, confirmations in {0,1,2}); negative values and lists longer than the bound are outside")
	c.Assume("CoinSet's private fields (list, totalValue, totalValueAge) are exactly what Num/Coins/TotalValue/TotalValueAge return, so the observable key used for merging states is as fine as the private state")

	// ---- selectors -------------------------------------------------------------------
	maxLen := mc.Pick(c, 3, 4)
	kinds := int64(len(c19Values) * len(c19Confs))
	nLists := int64(0)
	for n, s := 0, int64(1); n <= maxLen; n, s = n+1, s*kinds {
		nLists += s
	}
	var calls atomic.Int64
	c.Space(fmt.Sprintf("ordered coin lists of length <= %d over %d coin kinds (value x confirmations)", maxLen, kinds), nLists)
	c.ParFor(nLists, func(w *mc.W, i int64) {
		list := c19ListAt(i)
		n := int64(0)
		c19SelParams(list, func(cas c19Sel) {
			w.State()
			c19EvalSel(w, cas)
			n++
		})
		calls.Add(n)
	})
	c.Space("CoinSelect calls: list x selector x target 0..sum+1 x MaxInputs 0..n+1 x MinChange {0,1,2} (x MinAvgValueAge {0,1,2,4,7} for min-priority)", calls.Load())
	// longer lists (6..10 coins; 12 on thorough) with structure: values and value-ages that are distinct
	// (one tie order), ascending / descending / interleaved, with zero-value and zero-confirmation
	// coins, and one list with a single tied pair; the full parameter grid for each
	{
		var longLists [][][2]int64
		for _, n := range mc.Pick(c, []int{6, 8, 10}, []int{6, 7, 8, 9, 10, 12}) {
			asc := make([][2]int64, n)
			desc := make([][2]int64, n)
			mix := make([][2]int64, n)
			zer := make([][2]int64, n)
			for i := 0; i < n; i++ {
				asc[i] = [2]int64{int64(i + 1), int64(n - i)}       // value up, confirmations down
				desc[i] = [2]int64{int64(n - i), int64(i%3 + 1)}    // value down
				mix[i] = [2]int64{int64((i*5)%n + 1), int64(i + 1)} // permuted values (n coprime to 5 or not: still distinct mod n when gcd=1)
				zer[i] = [2]int64{int64(i), int64(i % 2)}           // a zero-value coin and zero-confirmation coins
			}
			tie := append([][2]int64{}, asc...)
			tie[n-1] = tie[0] // one tied pair (two tie orders)
			longLists = append(longLists, asc, desc, mix, zer, tie)
		}
		var lcalls atomic.Int64
		c.Space("structured longer coin lists (6..10(12) coins) x full parameter grid", int64(len(longLists)))
		c.ParFor(int64(len(longLists)), func(w *mc.W, i int64) {
			n := int64(0)
			c19SelParams(longLists[i], func(cas c19Sel) {
				w.State()
				c19EvalSel(w, cas)
				n++
			})
			lcalls.Add(n)
		})
		c.Note("calls_on_longer_lists", lcalls.Load())
		// realistic magnitudes: values around 2^31, 2^32 and up to the 21e14 cap, confirmations up to 10^6
		// (value-age products around and beyond 2^53 and 2^63/8); all ordered lists of length <= 3 over
		// 6 such coins x boundary targets (each value, each prefix sum, the total, each +-1) x MaxInputs
		{
			bigKinds := [][2]int64{{1<<31 - 1, 1}, {1 << 31, 2}, {1<<32 + 1, 0}, {1000000000000, 1000000}, {700000000000000, 3}, {2100000000000000, 1},
				{30000000000000, 10000}, {10000000000000, 10000}, // value-ages of 3e17 and 1e17 (beyond 2^53)
				// value-ages above 2^53 that differ by 1, by 4, or not at all while the values differ
				// (K = 2^27: K*K, (K+1)(K-1) = K^2-1, (K-1)(K+1) = K^2-1, (K+2)(K-2) = K^2-4): a comparison
				// made in floating point cannot tell them apart
				{1 << 27, 1 << 27}, {1<<27 + 1, 1<<27 - 1}, {1<<27 - 1, 1<<27 + 1}, {1<<27 + 2, 1<<27 - 2}}
			var cs []c19Sel
			var lists [][][2]int64
			for a := range bigKinds {
				lists = append(lists, [][2]int64{bigKinds[a]})
				for b := range bigKinds {
					lists = append(lists, [][2]int64{bigKinds[a], bigKinds[b]})
					for d := range bigKinds {
						if a != b && b != d && a != d {
							lists = append(lists, [][2]int64{bigKinds[a], bigKinds[b], bigKinds[d]})
						}
					}
				}
			}
			for _, l := range lists {
				tset := map[int64]bool{0: true, 1: true}
				sum := int64(0)
				for _, vc := range l {
					sum += vc[0]
					for _, d := range []int64{-1, 0, 1} {
						tset[vc[0]+d] = true
						tset[sum+d] = true
					}
				}
				var tgts []int64
				for tgt := range tset {
					if tgt >= 0 {
						tgts = append(tgts, tgt)
					}
				}
				sort.Slice(tgts, func(i, j int) bool { return tgts[i] < tgts[j] })
				for _, tgt := range tgts {
					for _, sel := range c19Selectors {
						for mi := 0; mi <= len(l)+1; mi++ {
							for _, ch := range []int64{0, 1, 1 << 31} {
								avgs := []int64{0}
								if sel == "minpriority" {
									avgs = []int64{0, 1, 1 << 32, 1 << 50}
									// the required average placed within a few units of what each prefix of the list can
									// deliver (exact integer arithmetic is needed there); only where value-ages exceed
									// 2^53, MaxInputs admits the whole list and no change is demanded
									if mi >= len(l) && ch == 0 && len(l) >= 2 {
										va, huge := int64(0), false
										for _, vc := range l {
											if vc[0]*vc[1] > 1<<53 {
												huge = true
											}
										}
										for k, vc := range l {
											va += vc[0] * vc[1]
											q := va / int64(k+1)
											for d := int64(-1); d <= 8 && huge; d++ {
												if q+d > 0 {
													avgs = append(avgs, q+d)
												}
											}
										}
									}
								}
								for _, av := range avgs {
									cs = append(cs, c19Sel{Sel: sel, Coins: l, Target: tgt, MaxInputs: mi, MinChange: ch, MinAvg: av})
								}
							}
						}
					}
				}
			}
			c.Space("large-magnitude coins: lists of <= 3 over 12 kinds (incl. value-ages above 2^53 that differ by 0, 1 and 4) x boundary targets x MaxInputs x MinChange (x MinAvg)", int64(len(cs)))
			c.ParFor(int64(len(cs)), func(w *mc.W, i int64) {
				w.State()
				c19EvalSel(w, cs[i])
			})
		}
		// a 300-coin list (counts beyond one byte), distinct values and value-ages, boundary parameters
		{
			n := 300
			big := make([][2]int64, n)
			for i := range big {
				big[i] = [2]int64{int64((i*7)%n + 1), 1} // a permutation of 1..300, one confirmation each
			}
			var cs []c19Sel
			for _, k := range []int{1, 2, 255, 256, 257, 299, 300} {
				top := int64(0) // sum of the k largest values
				for v := n; v > n-k; v-- {
					top += int64(v)
				}
				pre := int64(0) // sum of the first k list entries
				for i := 0; i < k; i++ {
					pre += big[i][0]
				}
				for _, sel := range c19Selectors {
					for _, tgt := range []int64{top - 1, top, top + 1, pre - 1, pre, pre + 1} {
						for _, mi := range []int{k - 1, k, k + 1, 300, 301} {
							for _, ch := range []int64{0, 1, 2} {
								cs = append(cs, c19Sel{Sel: sel, Coins: big, Target: tgt, MaxInputs: mi, MinChange: ch, MinAvg: 1})
							}
						}
					}
				}
			}
			c.Space("300-coin list x selectors x boundary targets / MaxInputs / MinChange", int64(len(cs)))
			c.ParFor(int64(len(cs)), func(w *mc.W, i int64) {
				w.State()
				c19EvalSel(w, cs[i])
			})
		}
	}
	// lists of 31..100 coins made of two or three value classes with LONG RUNS OF TIES, in every
	// arrangement of the runs, with MaxInputs from 1 to beyond a quarter of the list: a selector that
	// narrows a long list to "the MaxInputs best candidates" before sorting must still behave as the
	// shortest qualifying prefix of a descending order (ties: any order; the oracle accepts exactly
	// the outcomes some tie order produces)
	{
		var cs []c19Sel
		for _, n := range mc.Pick(c, []int{31, 32, 40, 65}, []int{31, 32, 33, 40, 48, 64, 65, 100}) {
			for _, hi := range []int{1, 3, n / 8, n / 4} {
				if hi < 1 {
					continue
				}
				for _, cls := range [][3][2]int64{ // {low, high, mid} coin kinds (value, confirmations)
					{{10, 1}, {50, 1}, {10, 1}}, // two value classes
					{{10, 9}, {50, 1}, {10, 9}}, // value-age order is the reverse of the value order
					{{10, 1}, {50, 1}, {20, 1}}, // three classes
					{{10, 1}, {50, 0}, {20, 2}}, // zero-confirmation large coins
				} {
					for _, arr := range []string{"low-high", "high-low", "low-high-low", "alternate", "low-mid-high"} {
						list := make([][2]int64, 0, n)
						switch arr {
						case "low-high":
							for i := 0; i < n-hi; i++ {
								list = append(list, cls[0])
							}
							for i := 0; i < hi; i++ {
								list = append(list, cls[1])
							}
						case "high-low":
							for i := 0; i < hi; i++ {
								list = append(list, cls[1])
							}
							for i := 0; i < n-hi; i++ {
								list = append(list, cls[0])
							}
						case "low-high-low":
							for i := 0; i < n; i++ {
								if i >= n/2 && i < n/2+hi {
									list = append(list, cls[1])
								} else {
									list = append(list, cls[0])
								}
							}
						case "alternate":
							put := 0
							for i := 0; i < n; i++ {
								if i%(n/hi) == n/hi-1 && put < hi {
									list = append(list, cls[1])
									put++
								} else {
									list = append(list, cls[0])
								}
							}
						case "low-mid-high":
							for i := 0; i < n; i++ {
								switch {
								case i >= n-hi:
									list = append(list, cls[1])
								case i >= n-2*hi-1:
									list = append(list, cls[2])
								default:
									list = append(list, cls[0])
								}
							}
						}
						x, y := cls[0][0], cls[1][0]
						H := int64(hi)
						for _, mi := range []int{1, 2, 3, 4, n/4 - 1, n / 4, n/4 + 1, n / 2, n} {
							if mi < 1 {
								continue
							}
							for _, tgt := range []int64{1, x, x + 1, 3 * x, y, y + 1, H * y, H*y + 1, H*y + x, int64(mi) * x, int64(mi)*x + 1} {
								for _, sel := range c19Selectors {
									cs = append(cs, c19Sel{Sel: sel, Coins: list, Target: tgt, MaxInputs: mi, MinChange: 0, MinAvg: 1})
								}
							}
						}
					}
				}
			}
		}
		c.Space("long coin lists (31..100 coins) with runs of tied coins in every arrangement x MaxInputs 1..n/4+1, n/2, n x boundary targets x selectors", int64(len(cs)))
		c.ParFor(int64(len(cs)), func(w *mc.W, i int64) {
			w.State()
			c19EvalSel(w, cs[i])
		})
	}
	// the same selector value used twice: every list of length <= 3, boundary targets, after an
	// earlier call on another list (its reverse plus a larger coin; a single coin)
	{
		nl := int64(0)
		for n, sz := 0, int64(1); n <= 3; n, sz = n+1, sz*kinds {
			nl += sz
		}
		var ecalls atomic.Int64
		c.ParFor(nl, func(w *mc.W, i int64) {
			list := c19ListAt(i)
			if len(list) == 0 {
				return
			}
			sum, rev := int64(0), make([][2]int64, 0, len(list)+1)
			for k := len(list) - 1; k >= 0; k-- {
				rev = append(rev, list[k])
				sum += list[k][0]
			}
			rev = append(rev, [2]int64{7, 2})
			n := int64(0)
			for _, sel := range c19Selectors {
				for _, tgt := range []int64{list[0][0], sum, sum - 1} {
					for _, mi := range []int{1, len(list)} {
						for _, earlier := range [][][2]int64{rev, {{2, 1}}} {
							w.State()
							c19EvalSel(w, c19Sel{Sel: sel, Coins: list, Target: tgt, MaxInputs: mi, MinAvg: 1, Earlier: earlier})
							n++
						}
					}
				}
			}
			ecalls.Add(n)
		})
		c.Space("CoinSelect calls preceded by an earlier call on the same selector value with another list", ecalls.Load())
	}
	c.Sample("sel", c19Sel{Sel: "minpriority", Coins: [][2]int64{{1, 0}, {2, 1}, {5, 2}}, Target: 3, MaxInputs: 2, MinChange: 1, MinAvg: 2})
	c.Sample("sel", c19Sel{Sel: "minnumber", Coins: [][2]int64{{2, 0}, {2, 1}, {3, 2}}, Target: 5, MaxInputs: 2, MinChange: 0})

	// ---- coin set: BFS over histories with state merging ---------------------------------
	depth := mc.Pick(c, 6, 8)
	type node struct {
		h   c19Hist
		key string
		ok  bool
	}
	visited := map[string]bool{}
	var frontier []node
	merged, disagree := int64(0), int64(0)
	{
		w := c.Worker()
		for _, in := range c19Inits {
			h := c19Hist{Init: in, Ops: []string{}}
			w.Trace()
			mk, ik, ok := c19RunHist(w, h, 0)
			if !ok {
				disagree++
				continue
			}
			key := mk + "|" + ik
			if !visited[key] {
				visited[key] = true
				w.State()
				frontier = append(frontier, node{h: h, key: key})
			}
		}
		w.Done()
	}
	levels := []int{len(frontier)}
	fixpoint := false
	for d := 1; d <= depth && len(frontier) > 0; d++ {
		nOps := int64(len(c19Ops))
		succ := make([]node, int64(len(frontier))*nOps)
		c.ParFor(int64(len(succ)), func(w *mc.W, i int64) {
			parent := frontier[i/nOps]
			ops := append(append(make([]string, 0, len(parent.h.Ops)+1), parent.h.Ops...), c19Ops[i%nOps])
			h := c19Hist{Init: parent.h.Init, Ops: ops}
			w.Trace()
			mk, ik, ok := c19RunHist(w, h, len(ops)-1)
			succ[i] = node{h: h, key: mk + "|" + ik, ok: ok}
		})
		var next []node
		w := c.Worker()
		for _, s := range succ {
			if !s.ok {
				disagree++ // reported; a state on which model and implementation differ is not merged and not expanded
				continue
			}
			if visited[s.key] {
				merged++
				continue
			}
			visited[s.key] = true
			w.State()
			if c19HasRemoval(s.h.Ops) {
				w.Nontrivial(mc.HashString("coinset", s.key))
			}
			next = append(next, s)
		}
		w.Done()
		frontier = next
		levels = append(levels, len(next))
		if len(next) == 0 {
			fixpoint = true
		}
	}
	c.Space(fmt.Sprintf("coin-set states reached from the 13 initial sets (<= 2 of 3 coins) by <= %d operations of {push1,push2,push3,pop,shift}, merged by model state + observable implementation state", depth), int64(len(visited)))
	c.Note("coinset_bfs", map[string]any{"depth_bound": depth, "new_states_per_level": levels, "distinct_states": len(visited),
		"successors_merged_into_known_states": merged, "histories_on_which_model_and_implementation_differ": disagree, "fixpoint_reached": fixpoint})
	c.Sample("hist", c19Hist{Init: []int{1, 2}, Ops: []string{"shift", "push3", "pop", "pop", "pop"}})

	// ---- coin set: every history of the bound, without merging --------------------------------
	flatDepth := depth
	per := int64(0)
	for d, s := 0, int64(1); d <= flatDepth; d, s = d+1, s*int64(len(c19Ops)) {
		per += s
	}
	nHist := per * int64(len(c19Inits))
	// coins whose value-ages do not fit the int64 range together: every sequence of <= 6 operations
	// over {push of three such coins, push of a small coin, pop, shift} from the empty set; the totals
	// are compared with the (wrapping) sums over the contents after every operation
	{
		menu := []string{"push161", "push162", "push163", "push1", "pop", "shift"}
		var hs []c19Hist
		var rec func(ops []string)
		rec = func(ops []string) {
			if len(ops) > 0 {
				hs = append(hs, c19Hist{Ops: append([]string{}, ops...)})
			}
			if len(ops) == mc.Pick(c, 5, 6) {
				return
			}
			for _, m := range menu {
				rec(append(ops, m))
			}
		}
		rec(nil)
		c.Space("coin-set histories with coins whose value-ages exceed the int64 range together", int64(len(hs)))
		c.ParFor(int64(len(hs)), func(w *mc.W, i int64) {
			w.State()
			c19RunHist(w, hs[i], 0)
		})
	}
	// LONG histories: sets of up to ~80 distinct coins.  A container that keeps its coins in a ring or a
	// slice with spare capacity behaves differently exactly when it grows or wraps, which a set of at
	// most ten coins never does.  Shape: NewCoinSet(n0 coins); a shifts; b pushes; c pops; d pushes;
	// then the set is drained by shifts (even drain steps) and pops (odd) - every combination of
	// n0 in 0..20, 31..33, 64 (quick: fewer), a in 0..3, b in 0..20, c in 0..2, d in {0, 1, 2, 17, 18};
	// the model is compared after construction, after each phase and after every drain step.
	{
		var longs []c19Hist
		n0s := mc.Pick(c, []int{0, 1, 2, 7, 8, 9, 15, 16, 17, 31, 32, 33, 64}, []int{0, 1, 2, 3, 4, 5, 6, 7, 8, 9, 10, 11, 12, 13, 14, 15, 16, 17, 18, 19, 20, 31, 32, 33, 63, 64, 65})
		for _, n0 := range n0s {
			for a := 0; a <= 3; a++ {
				for b := 0; b <= 20; b++ {
					for cpop := 0; cpop <= 2; cpop++ {
						for _, d := range []int{0, 1, 2, 17, 18} {
							if c.Quick() && (b%2 == 1 && b > 4) {
								continue
							}
							h := c19Hist{}
							next := 4
							for i := 0; i < n0; i++ {
								h.Init = append(h.Init, next)
								next++
							}
							for i := 0; i < a; i++ {
								h.Ops = append(h.Ops, "shift")
							}
							for i := 0; i < b; i++ {
								h.Ops = append(h.Ops, fmt.Sprintf("push%d", next))
								next++
							}
							for i := 0; i < cpop; i++ {
								h.Ops = append(h.Ops, "pop")
							}
							for i := 0; i < d; i++ {
								h.Ops = append(h.Ops, fmt.Sprintf("push%d", next))
								next++
							}
							left := n0 - a
							if left < 0 {
								left = 0
							}
							left += b
							left -= cpop
							if left < 0 {
								left = 0
							}
							left += d
							for i := 0; i <= left; i++ { // one step beyond empty
								if i%2 == 0 {
									h.Ops = append(h.Ops, "shift")
								} else {
									h.Ops = append(h.Ops, "pop")
								}
							}
							// observers run after construction and from the end of the pushes on; the
							// bulk of the build-up is left unobserved (mask covers the first 32 points)
							h.Skip = ^uint32(0) &^ 1
							longs = append(longs, h)
						}
					}
				}
			}
		}
		c.Space("coin-set long histories: NewCoinSet(n0) ; shifts ; pushes ; pops ; pushes ; drain (sets of up to ~100 distinct coins)", int64(len(longs)))
		c.ParFor(int64(len(longs)), func(w *mc.W, i int64) {
			w.State()
			c19RunHist(w, longs[i], 0)
		})
	}
	c.Space(fmt.Sprintf("coin-set histories: 13 initial sets x every operation sequence of length <= %d (no merging)", flatDepth), nHist)
	c.ParFor(nHist, func(w *mc.W, i int64) {
		h := c19HistAt(i, flatDepth)
		w.Trace()
		// only the last operation is a new transition of this history (its prefixes are histories of their own)
		from := len(h.Ops) - 1
		if from < 0 {
			from = 0
		}
		c19RunHist(w, h, from)
	})
	// ---- two coin sets built from prefixes of one caller-owned list with spare capacity
	{
		var pairs []c19Pair
		pops := []string{"a:push1", "a:push3", "a:pop", "a:shift", "b:push2", "b:pop", "b:shift"}
		var seqs [][]string
		for _, x := range pops {
			seqs = append(seqs, []string{x})
			for _, y := range pops {
				seqs = append(seqs, []string{x, y})
				for _, z := range pops {
					seqs = append(seqs, []string{x, y, z})
				}
			}
		}
		for _, l := range [][]int{{1, 2}, {1, 2, 3}, {3, 1}} {
			for _, cp := range []int{len(l), len(l) + 1, len(l) + 4} {
				for ka := 0; ka <= len(l); ka++ {
					for kb := ka; kb <= len(l); kb++ {
						for _, ops := range seqs {
							pairs = append(pairs, c19Pair{List: l, Cap: cp, KA: ka, KB: kb, Ops: ops})
						}
					}
				}
			}
		}
		c.Space("two coin sets from prefixes of one list (3 lists x 3 capacities x prefix pairs) x every sequence of <= 3 operations on either set", int64(len(pairs)))
		c.ParFor(int64(len(pairs)), func(w *mc.W, i int64) {
			w.State()
			c19EvalPair(w, pairs[i])
		})
		c.Sample("pair", c19Pair{List: []int{1, 2, 3}, Cap: 7, KA: 2, KB: 3, Ops: []string{"a:push3", "b:pop"}})
	}
	// ---- coin set: observation schedules ----------------------------------------------------------
	// The runs above call every observer after every operation.  An observer that leaves something
	// behind (a memoised slice, a lazily recomputed total) can then never be caught returning stale
	// data, because it is refreshed at every step.  Here every history of the (smaller) bound is run
	// under every subset of its intermediate observation points, with each choice of which observers
	// run there; the final observation is always complete.
	obsDepth := mc.Pick(c, 5, 6)
	perO := int64(0)
	for d, s := 0, int64(1); d <= obsDepth; d, s = d+1, s*int64(len(c19Ops)) {
		perO += s
	}
	nHistO := perO * int64(len(c19Inits))
	var schedules atomic.Int64
	c.ParFor(nHistO, func(w *mc.W, i int64) {
		h := c19HistAt(i, obsDepth)
		d := len(h.Ops)
		if d == 0 {
			return
		}
		n := int64(0)
		for _, kind := range []string{"", "coins", "tx", "totals"} {
			for mask := uint32(0); mask < 1<<uint(d); mask++ {
				if mask == 0 && kind == "" {
					continue // the fully observed run, done above
				}
				if mask == 1<<uint(d)-1 && kind != "" {
					continue // no intermediate observation at all: the same run for every kind
				}
				hh := c19Hist{Init: h.Init, Ops: h.Ops, Skip: mask, Observers: kind}
				w.Trace()
				w.State()
				c19RunHist(w, hh, d) // no new transitions: the operations are those of the histories above
				n++
			}
		}
		schedules.Add(n)
	})
	c.Space(fmt.Sprintf("coin-set observation schedules: every history of length <= %d x every subset of intermediate observation points x observers {all, Coins, NewMsgTxWithInputCoins, totals}", obsDepth), schedules.Load())
	c.Sample("hist", c19Hist{Init: []int{1, 2}, Ops: []string{"pop", "push3", "shift"}, Skip: 2, Observers: "coins"})
	c.Note("coinset_operations_executed_on_real_objects_including_replayed_prefixes", c19OpsExecuted.Load())
}
