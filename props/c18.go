package props

import (
	"bytes"
	"encoding/binary"
	"encoding/json"
	"fmt"
	"math"
	"sort"

	"github.com/gcash/bchd/wire"
	"github.com/gcash/bchutil/txsort"

	"verif/mc"
	"verif/ref"
)

// C18 — BIP69 sorting is a correct, non-destructive, idempotent permutation.
//
// Every enumerated transaction is built from small key alphabets chosen so that each
// shortcut of a comparator has inputs taking it: hashes whose order flips under byte
// reversal, equal hashes (index decides), indexes at the unsigned boundaries, equal keys
// (ties, distinguishable by their Sequence tag / token data), scripts that are proper
// prefixes of each other, amounts 0 and max.

func init() {
	register(&Prop{ID: "C18", Run: runC18, Replay: map[string]func(*mc.Ctx, json.RawMessage){
		"tx":     replayer(c18Eval),
		"retain": replayer(c18EvalRetain),
		"seq":    replayer(c18EvalSeq),
	}})
}

// c18Case is one transaction.  Ins[k] = 4*hash + index into the alphabets below, the k-th
// input carries Sequence k+1 and signature script {0x51, k} as a tag.  Outs[k] = 6*amount +
// script; 24 is the token-carrying twin of (amount 1, script 00).
type c18Case struct {
	Ins      []int  `json:"ins"`
	Outs     []int  `json:"outs"`
	Version  int32  `json:"version"`
	LockTime uint32 `json:"locktime"`
	// explicit elements (single-position-difference family): used instead of Ins / Outs when set
	XIns  []c18XIn  `json:"explicit_ins,omitempty"`
	XOuts []c18XOut `json:"explicit_outs,omitempty"`
	// long scripts (copy fidelity): SigLens[k] > 0 makes the signature script of explicit input k
	// c18Pattern(SigLens[k]); ScriptLens[k] > 0 likewise for the script of explicit output k
	SigLens    []int `json:"explicit_sigscript_lens,omitempty"`
	ScriptLens []int `json:"explicit_script_lens,omitempty"`
}

type c18XIn struct {
	Hash  string `json:"hash_hex"`
	Index uint32 `json:"index"`
}

type c18XOut struct {
	Amount int64  `json:"amount"`
	Script string `json:"script_hex"`
}

// c18Pattern: n bytes, every position distinguishable (a truncated or shifted copy differs)
func c18Pattern(n int) []byte {
	b := make([]byte, n)
	for i := range b {
		b[i] = byte(i*31+i>>8) ^ 0x6a
	}
	return b
}

var (
	c18Hashes = func() [4][32]byte {
		var h [4][32]byte
		h[0][0] = 0x01  // txid 00…01: the smallest as a big-endian number, large in memory order
		h[1][31] = 0x01 // txid 01 00…: 2^248
		h[2][30] = 0x02 // txid 00 02 00…: 2^241
		for i := range h[3] {
			h[3][i] = 0xff
		}
		return h
	}()
	c18Indexes = []uint32{0, 1, 1 << 31, math.MaxUint32}
	// 2^32 rather than 2 as the third amount: it is the value whose low 32 bits are zero, so a
	// comparator that truncates amounts orders it wrongly (0, 1, 2, max stay ordered under truncation)
	c18Amounts = []int64{0, 1, 1 << 32, math.MaxInt64}
	c18Scripts = [][]byte{{}, {0x00}, {0x00, 0x00}, {0x00, 0x01}, {0x01}, {0xff}}
)

const (
	c18NIn  = 16
	c18NOut = 25
)

func (cas c18Case) build() *wire.MsgTx {
	tx := &wire.MsgTx{Version: cas.Version, LockTime: cas.LockTime}
	for k, x := range cas.XIns {
		in := &wire.TxIn{Sequence: uint32(k + 1), SignatureScript: []byte{0x51, byte(k)}}
		if k < len(cas.SigLens) && cas.SigLens[k] > 0 {
			in.SignatureScript = c18Pattern(cas.SigLens[k])
		}
		copy(in.PreviousOutPoint.Hash[:], mc.UnHex(x.Hash))
		in.PreviousOutPoint.Index = x.Index
		tx.TxIn = append(tx.TxIn, in)
	}
	for k, x := range cas.XOuts {
		out := &wire.TxOut{Value: x.Amount, PkScript: mc.UnHex(x.Script)}
		if k < len(cas.ScriptLens) && cas.ScriptLens[k] > 0 {
			out.PkScript = c18Pattern(cas.ScriptLens[k])
		}
		tx.TxOut = append(tx.TxOut, out)
	}
	for k, e := range cas.Ins {
		in := &wire.TxIn{Sequence: uint32(k + 1), SignatureScript: []byte{0x51, byte(k)}}
		in.PreviousOutPoint.Hash = c18Hashes[(e/4)%4]
		in.PreviousOutPoint.Index = c18Indexes[e%4]
		tx.TxIn = append(tx.TxIn, in)
	}
	for _, e := range cas.Outs {
		out := &wire.TxOut{}
		if e == 24 {
			out.Value = 1
			out.PkScript = []byte{0x00}
			out.TokenData.CategoryID[0] = 0xc4
			out.TokenData.CategoryID[31] = 0x4c
			out.TokenData.Commitment = []byte{0xaa, 0xbb}
			out.TokenData.Amount = 5
			out.TokenData.BitField = 0x71
		} else {
			out.Value = c18Amounts[(e/6)%4]
			out.PkScript = append([]byte{}, c18Scripts[e%6]...)
		}
		tx.TxOut = append(tx.TxOut, out)
	}
	return tx
}

// element and transaction dumps: every field, deep, in a fixed layout (own code, not the
// wire serialiser, so that token data and empty-vs-nil scripts cannot hide a difference in
// content: nil and empty slices dump alike, they hold the same bytes).
func c18DumpIn(in *wire.TxIn) string {
	if in == nil {
		return "<nil input>"
	}
	b := make([]byte, 0, 48+len(in.SignatureScript))
	b = append(b, in.PreviousOutPoint.Hash[:]...)
	b = binary.BigEndian.AppendUint32(b, in.PreviousOutPoint.Index)
	b = binary.BigEndian.AppendUint32(b, in.Sequence)
	b = binary.BigEndian.AppendUint32(b, uint32(len(in.SignatureScript)))
	b = append(b, in.SignatureScript...)
	return string(b)
}

func c18DumpOut(out *wire.TxOut) string {
	if out == nil {
		return "<nil output>"
	}
	b := make([]byte, 0, 64+len(out.PkScript)+len(out.TokenData.Commitment))
	b = binary.BigEndian.AppendUint64(b, uint64(out.Value))
	b = binary.BigEndian.AppendUint32(b, uint32(len(out.PkScript)))
	b = append(b, out.PkScript...)
	b = append(b, out.TokenData.CategoryID[:]...)
	b = binary.BigEndian.AppendUint32(b, uint32(len(out.TokenData.Commitment)))
	b = append(b, out.TokenData.Commitment...)
	b = binary.BigEndian.AppendUint64(b, out.TokenData.Amount)
	b = append(b, out.TokenData.BitField)
	return string(b)
}

type c18Snap struct {
	version  int32
	locktime uint32
	ins      []string
	outs     []string
}

func c18Dump(tx *wire.MsgTx) c18Snap {
	s := c18Snap{version: tx.Version, locktime: tx.LockTime}
	s.ins = make([]string, len(tx.TxIn))
	for i, in := range tx.TxIn {
		s.ins[i] = c18DumpIn(in)
	}
	s.outs = make([]string, len(tx.TxOut))
	for i, out := range tx.TxOut {
		s.outs[i] = c18DumpOut(out)
	}
	return s
}

func eqStrs(a, b []string) bool {
	if len(a) != len(b) {
		return false
	}
	for i := range a {
		if a[i] != b[i] {
			return false
		}
	}
	return true
}

func (s c18Snap) equal(t c18Snap) bool {
	return s.version == t.version && s.locktime == t.locktime && eqStrs(s.ins, t.ins) && eqStrs(s.outs, t.outs)
}

func sameMultiset(a, b []string) bool {
	if len(a) != len(b) {
		return false
	}
	x := append([]string{}, a...)
	y := append([]string{}, b...)
	sort.Strings(x)
	sort.Strings(y)
	return eqStrs(x, y)
}

// c18Keys extracts the reference keys; ok=false if an element is nil.
func c18Keys(tx *wire.MsgTx) (ins []ref.Bip69In, outs []ref.Bip69Out, ok bool) {
	ins = make([]ref.Bip69In, len(tx.TxIn))
	for i, in := range tx.TxIn {
		if in == nil {
			return nil, nil, false
		}
		ins[i] = ref.Bip69In{Hash: in.PreviousOutPoint.Hash, Index: in.PreviousOutPoint.Index}
	}
	outs = make([]ref.Bip69Out, len(tx.TxOut))
	for i, out := range tx.TxOut {
		if out == nil {
			return nil, nil, false
		}
		outs[i] = ref.Bip69Out{Amount: out.Value, Script: out.PkScript}
	}
	return ins, outs, true
}

func sameKeySeq(a, b *wire.MsgTx) bool {
	ai, ao, ok1 := c18Keys(a)
	bi, bo, ok2 := c18Keys(b)
	if !ok1 || !ok2 || len(ai) != len(bi) || len(ao) != len(bo) {
		return false
	}
	for i := range ai {
		if ref.Bip69InCmp(ai[i], bi[i]) != 0 {
			return false
		}
	}
	for i := range ao {
		if ref.Bip69OutCmp(ao[i], bo[i]) != 0 {
			return false
		}
	}
	return true
}

// c18CheckSorted applies the statement's clauses on a result `got` of sorting a transaction
// whose snapshot before the call was `orig`.  who = "sort" | "inplace".
func c18CheckSorted(w *mc.W, cas c18Case, who string, orig c18Snap, got *wire.MsgTx) bool {
	if got == nil {
		violateCapped(w, who+"-result-nil", "tx", cas, "")
		return false
	}
	gi, gout, ok := c18Keys(got)
	if !ok {
		violateCapped(w, who+"-result-has-nil-element", "tx", cas, "")
		return false
	}
	d := c18Dump(got)
	good := true
	if d.version != orig.version || d.locktime != orig.locktime {
		violateCapped(w, who+"-changes-version-or-locktime", "tx", cas, fmt.Sprintf("version %d->%d locktime %d->%d", orig.version, d.version, orig.locktime, d.locktime))
		good = false
	}
	if !sameMultiset(d.ins, orig.ins) {
		violateCapped(w, who+"-inputs-not-a-permutation", "tx", cas, fmt.Sprintf("%d inputs before, %d after, or contents differ", len(orig.ins), len(d.ins)))
		good = false
	}
	if !sameMultiset(d.outs, orig.outs) {
		violateCapped(w, who+"-outputs-not-a-permutation", "tx", cas, fmt.Sprintf("%d outputs before, %d after, or contents differ", len(orig.outs), len(d.outs)))
		good = false
	}
	if !ref.Bip69InsSorted(gi) {
		violateCapped(w, who+"-inputs-not-in-bip69-order", "tx", cas, c18Order(got))
		good = false
	}
	if !ref.Bip69OutsSorted(gout) {
		violateCapped(w, who+"-outputs-not-in-bip69-order", "tx", cas, c18Order(got))
		good = false
	}
	return good
}

// c18Order renders a result compactly for the detail text.
func c18Order(tx *wire.MsgTx) string {
	s := "ins:"
	for _, in := range tx.TxIn {
		if in == nil {
			s += " nil"
			continue
		}
		h := in.PreviousOutPoint.Hash
		s += fmt.Sprintf(" (%02x..%02x%02x,%d)#%d", h[0], h[30], h[31], in.PreviousOutPoint.Index, in.Sequence)
	}
	s += " outs:"
	for _, out := range tx.TxOut {
		if out == nil {
			s += " nil"
			continue
		}
		s += fmt.Sprintf(" (%d,%x)", out.Value, out.PkScript)
	}
	return s
}

func c18Eval(w *mc.W, cas c18Case) {
	w.Eval()
	tx := cas.build()
	before := c18Dump(tx)
	ptrIn := append([]*wire.TxIn{}, tx.TxIn...)
	ptrOut := append([]*wire.TxOut{}, tx.TxOut...)
	rIns, rOuts, _ := c18Keys(tx)
	insSorted, outsSorted := ref.Bip69InsSorted(rIns), ref.Bip69OutsSorted(rOuts)
	refSorted := insSorted && outsSorted
	tie := ref.Bip69InsHaveTie(rIns) || ref.Bip69OutsHaveTie(rOuts)

	untouched := func() bool {
		if len(tx.TxIn) != len(ptrIn) || len(tx.TxOut) != len(ptrOut) {
			return false
		}
		for i := range ptrIn {
			if tx.TxIn[i] != ptrIn[i] {
				return false
			}
		}
		for i := range ptrOut {
			if tx.TxOut[i] != ptrOut[i] {
				return false
			}
		}
		return c18Dump(tx).equal(before)
	}

	// 1. the predicate on the original
	var libSorted bool
	if msg, p := mc.Guard(func() { libSorted = txsort.IsSorted(tx) }); p {
		violateCapped(w, "issorted-panics", "tx", cas, msg)
		return
	}
	w.Trans()
	if !untouched() {
		violateCapped(w, "issorted-modifies-argument", "tx", cas, "")
		return
	}
	switch {
	case libSorted && !refSorted && !insSorted:
		violateCapped(w, "issorted-true-for-unsorted-inputs", "tx", cas, c18Order(tx))
	case libSorted && !refSorted:
		violateCapped(w, "issorted-true-for-unsorted-outputs", "tx", cas, c18Order(tx))
	case !libSorted && refSorted:
		violateCapped(w, "issorted-false-for-sorted", "tx", cas, c18Order(tx))
	}

	// 2. Sort: a sorted permutation, the original untouched
	var sorted *wire.MsgTx
	if msg, p := mc.Guard(func() { sorted = txsort.Sort(tx) }); p {
		violateCapped(w, "sort-panics", "tx", cas, msg)
		return
	}
	w.Trans()
	if !untouched() {
		violateCapped(w, "sort-modifies-original", "tx", cas, "after Sort: "+c18Order(tx))
	}
	if !c18CheckSorted(w, cas, "sort", before, sorted) {
		return
	}
	sdump := c18Dump(sorted)

	// 3. predicate on the result, idempotence
	var s2 *wire.MsgTx
	var resSorted bool
	if msg, p := mc.Guard(func() { resSorted = txsort.IsSorted(sorted); s2 = txsort.Sort(sorted) }); p {
		violateCapped(w, "sort-or-issorted-panics-on-sort-result", "tx", cas, msg)
		return
	}
	w.TransN(2)
	if !resSorted {
		violateCapped(w, "issorted-false-on-sort-result", "tx", cas, c18Order(sorted))
	}
	if s2 == nil {
		violateCapped(w, "sort-result-nil", "tx", cas, "second Sort")
	} else if _, _, ok := c18Keys(s2); !ok {
		violateCapped(w, "sort-result-has-nil-element", "tx", cas, "second Sort")
	} else if !c18Dump(s2).equal(sdump) {
		if sameKeySeq(s2, sorted) {
			violateCapped(w, "sort-not-idempotent/only-order-among-equal-keys-differs", "tx", cas, c18Order(sorted)+" then "+c18Order(s2))
		} else {
			violateCapped(w, "sort-not-idempotent/key-order-differs", "tx", cas, c18Order(sorted)+" then "+c18Order(s2))
		}
	}

	// 4. InPlaceSort on an independent copy
	tx2 := cas.build()
	if msg, p := mc.Guard(func() { txsort.InPlaceSort(tx2) }); p {
		violateCapped(w, "inplace-panics", "tx", cas, msg)
		return
	}
	w.Trans()
	if c18CheckSorted(w, cas, "inplace", before, tx2) && !c18Dump(tx2).equal(sdump) {
		if sameKeySeq(tx2, sorted) {
			violateCapped(w, "inplace-differs-from-sort/only-order-among-equal-keys-differs", "tx", cas, c18Order(sorted)+" vs "+c18Order(tx2))
		} else {
			violateCapped(w, "inplace-differs-from-sort/key-order-differs", "tx", cas, c18Order(sorted)+" vs "+c18Order(tx2))
		}
	}

	switch {
	case len(cas.Ins) == 0 && len(cas.Outs) == 0:
		w.Outcome("empty transaction")
	case refSorted && !tie:
		w.Outcome("already in BIP69 order, all keys distinct")
	case refSorted:
		w.Outcome("already in BIP69 order, with equal keys")
	case !tie:
		w.Outcome("not in order (" + c18Which(insSorted, outsSorted) + "), all keys distinct")
	default:
		w.Outcome("not in order (" + c18Which(insSorted, outsSorted) + "), with equal keys")
	}
	if !refSorted || tie {
		var kb []byte
		for _, e := range cas.Ins {
			kb = append(kb, byte(e))
		}
		kb = append(kb, 0xfe)
		for _, e := range cas.Outs {
			kb = append(kb, byte(e))
		}
		w.Nontrivial(mc.HashBytes(kb))
	}
}

func c18Which(insSorted, outsSorted bool) string {
	switch {
	case !insSorted && !outsSorted:
		return "inputs and outputs"
	case !insSorted:
		return "inputs"
	}
	return "outputs"
}

// seqCount = number of sequences of length <= maxLen over an alphabet of size a.
func seqCount(a, maxLen int) int64 {
	var n int64
	for l := 0; l <= maxLen; l++ {
		n += ipow(a, l)
	}
	return n
}

// seqAt decodes index idx (shortest sequences first) into a sequence over [0,a).
func seqAt(a int, idx int64) []int {
	l := 0
	for idx >= ipow(a, l) {
		idx -= ipow(a, l)
		l++
	}
	s := make([]int, l)
	for i := l - 1; i >= 0; i-- {
		s[i] = int(idx % int64(a))
		idx /= int64(a)
	}
	return s
}

func c18Frame(i int64) (int32, uint32) {
	return []int32{1, 2, -1}[i%3], []uint32{0, math.MaxUint32}[i%2]
}

func runC18(c *mc.Ctx) {
	c.Rule("every sequence (with repetition) over the key alphabets is built into a wire.MsgTx and run through the real Sort / InPlaceSort / IsSorted; results are compared with the reference BIP69 keys (ref.Bip69*). non-trivial = transactions that are not already in reference order or that contain two elements with equal keys")
	c.Assume("ref.Bip69InCmp / ref.Bip69OutCmp transcribe BIP69: inputs by (txid as big-endian number = hash bytes read from the last to the first, output index as unsigned), outputs by (amount, script bytes lexicographic, proper prefix first)")
	c.Assume("elements with equal keys may come out in any relative order (sort.Sort is not stable and the statement does not ask for stability); Sort vs InPlaceSort and Sort vs Sort∘Sort are compared field by field")
	c.Assume("outside the bound: sequences longer than the enumerated length (except the arithmetic-progression family), hashes/amounts/scripts outside the alphabets, negative amounts, nil elements in the argument")

	maxLen := mc.Pick(c, 4, 5)
	nInSmall, nOutSmall := seqCount(c18NIn, 2), seqCount(c18NOut, 2)

	// (a) every input sequence; outputs walk the short output sequences diagonally
	nIn := seqCount(c18NIn, maxLen)
	c.Space(fmt.Sprintf("input sequences of length <= %d over 4 hashes x 4 indexes (outputs: diagonal over sequences of length <= 2)", maxLen), nIn)
	c.ParFor(nIn, func(w *mc.W, i int64) {
		w.State()
		v, l := c18Frame(i)
		c18Eval(w, c18Case{Ins: seqAt(c18NIn, i), Outs: seqAt(c18NOut, (i*7919)%nOutSmall), Version: v, LockTime: l})
	})
	// (b) every output sequence; inputs diagonal
	nOut := seqCount(c18NOut, maxLen)
	c.Space(fmt.Sprintf("output sequences of length <= %d over 4 amounts x 6 scripts + 1 token output (inputs: diagonal over sequences of length <= 2)", maxLen), nOut)
	c.ParFor(nOut, func(w *mc.W, i int64) {
		w.State()
		v, l := c18Frame(i)
		c18Eval(w, c18Case{Ins: seqAt(c18NIn, (i*7919)%nInSmall), Outs: seqAt(c18NOut, i), Version: v, LockTime: l})
	})
	// (c) full products of short sequences.  Inputs and outputs are ordered by separate
	// comparators; the products establish that on the real code for every pairing of short
	// sequences (thorough: 3 x 2 and 2 x 3; the 3 x 3 product, 7.1e7 transactions, ran clean once
	// in 240 s and is left out of the registered tier for its cost)
	for _, pl := range mc.Pick(c, [][2]int{{2, 2}}, [][2]int{{3, 2}, {2, 3}}) {
		pIn, pOut := seqCount(c18NIn, pl[0]), seqCount(c18NOut, pl[1])
		c.Space(fmt.Sprintf("full product: input sequences of length <= %d x output sequences of length <= %d", pl[0], pl[1]), pIn*pOut)
		c.ParFor(pIn*pOut, func(w *mc.W, i int64) {
			w.State()
			v, l := c18Frame(i)
			c18Eval(w, c18Case{Ins: seqAt(c18NIn, i/pOut), Outs: seqAt(c18NOut, i%pOut), Version: v, LockTime: l})
		})
	}
	// (d) longer transactions (beyond the insertion-sort cut-off of sort.Sort): element k of the
	// sequence is (a*k+b) mod alphabet size, for every (a,b)
	lens := mc.Pick(c, []int{13, 20, 64}, []int{6, 7, 12, 13, 14, 20, 33, 64, 200})
	nLong := int64(len(lens)) * c18NOut * c18NOut
	c.Space("arithmetic-progression transactions: length x (a,b) with element k = (a*k+b) mod alphabet size", nLong)
	c.ParFor(nLong, func(w *mc.W, i int64) {
		w.State()
		L := lens[i/(c18NOut*c18NOut)]
		j := int(i % (c18NOut * c18NOut))
		ao, bo := j/c18NOut, j%c18NOut
		ai, bi := (j%(c18NIn*c18NIn))/c18NIn, j%c18NIn
		cas := c18Case{}
		cas.Version, cas.LockTime = c18Frame(i)
		for k := 0; k < L; k++ {
			cas.Ins = append(cas.Ins, (ai*k+bi)%c18NIn)
			cas.Outs = append(cas.Outs, (ao*k+bo)%c18NOut)
		}
		c18Eval(w, cas)
	})
	c.Sample("tx", c18Case{Ins: []int{4, 0, 4}, Outs: []int{24, 7, 6}, Version: 1})
	c.Sample("tx", c18Case{Ins: []int{15, 8, 2, 1}, Outs: []int{}, Version: 2, LockTime: math.MaxUint32})
	// Single-position differences: two keys that differ in exactly ONE byte (every byte position of
	// the previous txid, of the index, of the amount, of equal-length scripts) and in nothing else,
	// in both orders and with a third element — a comparator that skips or mis-weights one position
	// is invisible to alphabets whose elements differ in several positions at once.
	{
		var xs []c18Case
		// neighbouring values and values FAR apart (a comparison by subtraction in a signed type is right
		// for small differences and wraps for 0x01 against 0x90)
		pairs := [][2]byte{{0x00, 0x01}, {0x01, 0x02}, {0x7f, 0x80}, {0xfe, 0xff}, {0x00, 0xff}, {0x01, 0x90}, {0x10, 0xf0}, {0x00, 0x80}, {0x7f, 0xff}}
		for pos := 0; pos < 32; pos++ {
			for _, pr := range pairs {
				a, b := bytes.Repeat([]byte{0x55}, 32), bytes.Repeat([]byte{0x55}, 32)
				a[pos], b[pos] = pr[0], pr[1]
				third := bytes.Repeat([]byte{0x55}, 32)
				third[31-pos] = 0x56
				A, B, T := c18XIn{mc.Hex(a), 1}, c18XIn{mc.Hex(b), 1}, c18XIn{mc.Hex(third), 0}
				xs = append(xs, c18Case{XIns: []c18XIn{A, B}}, c18Case{XIns: []c18XIn{B, A}},
					c18Case{XIns: []c18XIn{B, T, A}}, c18Case{XIns: []c18XIn{A, T, B}}, c18Case{XIns: []c18XIn{T, B, A}})
			}
		}
		h := mc.Hex(bytes.Repeat([]byte{0x33}, 32))
		for _, pr := range [][2]uint32{{0, 0xffffffff}, {1, 0x90000000}, {0x7fffffff, 0x80000000}, {0x10, 0xf0000000}, {0x00000001, 0x80000001}} { // indexes far apart
			hh := mc.Hex(bytes.Repeat([]byte{0x33}, 32))
			xs = append(xs, c18Case{XIns: []c18XIn{{hh, pr[0]}, {hh, pr[1]}}}, c18Case{XIns: []c18XIn{{hh, pr[1]}, {hh, pr[0]}}})
		}
		for bit := 0; bit < 32; bit++ { // equal txids, indexes differing in one bit
			lo, hi := uint32(0), uint32(1)<<uint(bit)
			xs = append(xs, c18Case{XIns: []c18XIn{{h, hi}, {h, lo}}}, c18Case{XIns: []c18XIn{{h, lo}, {h, hi}}},
				c18Case{XIns: []c18XIn{{h, hi | 1}, {h, hi}}})
		}
		for bit := 0; bit < 63; bit++ { // amounts differing in one bit, equal scripts
			lo, hi := int64(0), int64(1)<<uint(bit)
			xs = append(xs, c18Case{XOuts: []c18XOut{{hi, "51"}, {lo, "51"}}}, c18Case{XOuts: []c18XOut{{lo, "51"}, {hi, "51"}}},
				c18Case{XOuts: []c18XOut{{hi | 1, "51"}, {hi, "51"}, {1, "51"}}})
		}
		for L := 1; L <= 12; L++ { // equal amounts, equal-length scripts differing at one position; prefixes
			for pos := 0; pos < L; pos++ {
				for _, pr := range pairs {
					a, b := bytes.Repeat([]byte{0x55}, L), bytes.Repeat([]byte{0x55}, L)
					a[pos], b[pos] = pr[0], pr[1]
					xs = append(xs, c18Case{XOuts: []c18XOut{{7, mc.Hex(b)}, {7, mc.Hex(a)}}}, c18Case{XOuts: []c18XOut{{7, mc.Hex(a)}, {7, mc.Hex(b)}}})
				}
			}
			full := bytes.Repeat([]byte{0x55}, L)
			xs = append(xs, c18Case{XOuts: []c18XOut{{7, mc.Hex(full)}, {7, mc.Hex(full[:L-1])}}}, c18Case{XOuts: []c18XOut{{7, mc.Hex(full[:L-1])}, {7, mc.Hex(full)}}})
		}
		// longer scripts differing at ONE position only (a comparator that looks at a prefix, or in words,
		// agrees with the byte-wise one on every short script)
		for _, L := range []int{33, 34, 64, 65, 66, 128, 129, 130, 256, 257, 300} {
			for pos := 0; pos < L; pos++ {
				a, b := c18Pattern(L), c18Pattern(L)
				b[pos] ^= 0x01
				if bytes.Compare(a, b) > 0 {
					a, b = b, a
				}
				xs = append(xs, c18Case{XOuts: []c18XOut{{7, mc.Hex(b)}, {7, mc.Hex(a)}}}, c18Case{XOuts: []c18XOut{{7, mc.Hex(a)}, {7, mc.Hex(b)}}})
			}
		}
		// TWO positions, crossing: a = ..2..1.., b = ..1..2.. (every pair of byte positions of the txid, of
		// the index, of the amount, and of a 40-byte script; chosen distances in a 100-byte script).  A
		// comparator that weighs one stretch of the key in the wrong byte order decides by the wrong one
		// of the two positions; pairs differing in one position cannot show that.
		{
			cross := func(n, i, j int, fill byte) ([]byte, []byte) {
				a, b := bytes.Repeat([]byte{fill}, n), bytes.Repeat([]byte{fill}, n)
				a[i], a[j] = 2, 1
				b[i], b[j] = 1, 2
				return a, b
			}
			for i := 0; i < 32; i++ {
				for j := i + 1; j < 32; j++ {
					a, b := cross(32, i, j, 0x55)
					A, B := c18XIn{mc.Hex(a), 1}, c18XIn{mc.Hex(b), 1}
					xs = append(xs, c18Case{XIns: []c18XIn{A, B}}, c18Case{XIns: []c18XIn{B, A}})
				}
			}
			h := mc.Hex(bytes.Repeat([]byte{0x33}, 32))
			for i := 0; i < 4; i++ {
				for j := i + 1; j < 4; j++ {
					a, b := cross(4, i, j, 0)
					ia, ib := binary.LittleEndian.Uint32(a), binary.LittleEndian.Uint32(b)
					xs = append(xs, c18Case{XIns: []c18XIn{{h, ia}, {h, ib}}}, c18Case{XIns: []c18XIn{{h, ib}, {h, ia}}})
				}
			}
			for i := 0; i < 8; i++ {
				for j := i + 1; j < 8; j++ {
					a, b := cross(8, i, j, 0)
					va, vb := int64(binary.LittleEndian.Uint64(a)), int64(binary.LittleEndian.Uint64(b))
					xs = append(xs, c18Case{XOuts: []c18XOut{{va, "51"}, {vb, "51"}}}, c18Case{XOuts: []c18XOut{{vb, "51"}, {va, "51"}}})
				}
			}
			for i := 0; i < 40; i++ {
				for j := i + 1; j < 40; j++ {
					a, b := cross(40, i, j, 0x55)
					xs = append(xs, c18Case{XOuts: []c18XOut{{7, mc.Hex(a)}, {7, mc.Hex(b)}}}, c18Case{XOuts: []c18XOut{{7, mc.Hex(b)}, {7, mc.Hex(a)}}})
				}
			}
			for i := 0; i < 100; i++ {
				for _, d := range []int{1, 7, 8, 9, 31, 32, 33, 63, 64} {
					if i+d < 100 {
						a, b := cross(100, i, i+d, 0x55)
						xs = append(xs, c18Case{XOuts: []c18XOut{{7, mc.Hex(a)}, {7, mc.Hex(b)}}}, c18Case{XOuts: []c18XOut{{7, mc.Hex(b)}, {7, mc.Hex(a)}}})
					}
				}
			}
		}
		// the same single-position differences INSIDE long lists (a key precomputed for transactions with
		// many inputs or outputs may drop a stretch of the hash / script that the pairwise comparator
		// reads): 47, 48, 49, 64 and 100 elements of which two differ at one byte position only
		for _, n := range []int{47, 48, 49, 64, 100} {
			for pos := 0; pos < 32; pos++ {
				a, b := bytes.Repeat([]byte{0x55}, 32), bytes.Repeat([]byte{0x55}, 32)
				a[pos], b[pos] = 0x63, 0x64
				var ins []c18XIn
				ins = append(ins, c18XIn{mc.Hex(b), 1}, c18XIn{mc.Hex(a), 1})
				for k := 2; k < n; k++ {
					f := bytes.Repeat([]byte{byte(k)}, 32)
					f[31] = byte(0x80 + k)
					ins = append(ins, c18XIn{mc.Hex(f), uint32(k % 3)})
				}
				xs = append(xs, c18Case{XIns: ins})
				if pos < 40 && pos%3 == 0 {
					sa, sb := bytes.Repeat([]byte{0x55}, 40), bytes.Repeat([]byte{0x55}, 40)
					sa[pos], sb[pos] = 0x63, 0x64
					outs := []c18XOut{{7, mc.Hex(sb)}, {7, mc.Hex(sa)}}
					for k := 2; k < n; k++ {
						outs = append(outs, c18XOut{int64(k % 5), mc.Hex([]byte{byte(k), byte(k >> 1), 0x51})})
					}
					xs = append(xs, c18Case{XOuts: outs})
				}
			}
		}
		// very large transactions (a different code path may be taken above some size): n inputs spread
		// over two txids with indexes 0..n/2 (so indexes >= 256 and >= 65536 share a txid), n outputs
		// with amounts and scripts in a deterministic shuffled order
		for _, n := range mc.Pick(c, []int{1024, 1500, 4100}, []int{1024, 1500, 4100, 70000}) {
			var cas c18Case
			h1, h2 := mc.Hex(bytes.Repeat([]byte{0x11}, 32)), mc.Hex(bytes.Repeat([]byte{0x12}, 32))
			for i := 0; i < n; i++ {
				j := (i*7919 + 13) % n // a permutation of 0..n-1 (7919 is prime, n not a multiple of it)
				h := h1
				if j%2 == 1 {
					h = h2
				}
				idx := uint32(j / 2)
				if n >= 70000 && j%5 == 0 {
					idx += 65536
				}
				cas.XIns = append(cas.XIns, c18XIn{h, idx})
				cas.XOuts = append(cas.XOuts, c18XOut{int64(j % 7), mc.Hex([]byte{byte(j >> 8), byte(j)})})
			}
			xs = append(xs, cas)
		}
		// amounts over the whole int64 range, negative ones included (the wire type is signed; BIP69
		// orders amounts as numbers): every ordered pair and triple over nine values, equal scripts -
		// a comparison by subtraction overflows when two amounts are 2^63 or more apart
		{
			av := []int64{math.MinInt64, -5_000_000_000_000_000_000, -2, -1, 0, 1, 5_000_000_000_000_000_000, math.MaxInt64 - 1, math.MaxInt64}
			for _, a := range av {
				for _, b := range av {
					xs = append(xs, c18Case{XOuts: []c18XOut{{a, "51"}, {b, "51"}}})
					for _, d := range av {
						xs = append(xs, c18Case{XOuts: []c18XOut{{a, "51"}, {b, "51"}, {d, "52"}}})
					}
				}
			}
		}
		// long scripts (copy fidelity of the sorted copy): one output script / signature script of a
		// length around 2^8 and 2^16 next to short ones, sorted and unsorted
		for _, n := range []int{255, 256, 257, 4096, 65535, 65536, 65537, 70000, 200000} {
			hA, hB := mc.Hex(bytes.Repeat([]byte{0x21}, 32)), mc.Hex(bytes.Repeat([]byte{0x22}, 32))
			xs = append(xs,
				c18Case{XIns: []c18XIn{{hA, 0}}, XOuts: []c18XOut{{5, "51"}, {5, ""}}, ScriptLens: []int{0, n}},
				c18Case{XIns: []c18XIn{{hA, 0}}, XOuts: []c18XOut{{5, ""}, {5, "51"}}, ScriptLens: []int{n, 0}},
				c18Case{XIns: []c18XIn{{hB, 1}, {hA, 0}}, XOuts: []c18XOut{{1, "51"}}, SigLens: []int{n, 0}},
				c18Case{XIns: []c18XIn{{hA, 0}, {hB, 1}}, XOuts: []c18XOut{{1, ""}, {2, ""}}, SigLens: []int{n, n + 1}, ScriptLens: []int{n, n}})
		}
		c.Space("single-position differences (txid byte, index bit, amount bit, script byte up to 300-byte scripts, script prefix), two-position crossing differences (every pair of byte positions of txid, index, amount, 40-byte script), large transactions, long scripts", int64(len(xs)))
		c.ParFor(int64(len(xs)), func(w *mc.W, i int64) {
			w.State()
			c18Eval(w, xs[i])
		})
	}
	runC18Retain(c)
	runC18Seq(c)

}
