package props

import (
	"fmt"

	"github.com/gcash/bchd/wire"
	"github.com/gcash/bchutil/txsort"

	"verif/mc"
)

// C18, retained results.  The sorted copy that Sort returned for one transaction is a value of its
// own: sorting other transactions afterwards (or the same one again, or one in place) must not
// change it.  An implementation that builds its result in recycled storage (a pooled scratch
// transaction, a reused slice of element pointers) hands out the right copy and changes it later.
// Every sequence of <= 3 (4) calls over {Sort, InPlaceSort} x four transactions (unsorted with
// different lengths, sorted, with equal keys); every Sort result is kept and compared at the end
// with what it was when it was returned.

type c18Retain struct {
	Calls []string `json:"calls"` // "sort:<k>" | "inplace:<k>", k = index into c18RetainTxs()
}

func c18RetainTxs() []c18Case {
	return []c18Case{
		{Ins: []int{15, 8, 2, 1}, Outs: []int{23, 7, 6}, Version: 2, LockTime: 9},
		{Ins: []int{4, 0}, Outs: []int{24, 7, 6, 1, 0}, Version: 1, LockTime: 0xffffffff},
		{Ins: []int{0, 1, 5}, Outs: []int{0, 1, 7}, Version: 1},
		{Ins: []int{3, 3, 2, 2, 1}, Outs: []int{6, 6}, Version: 3, LockTime: 1},
	}
}

func c18EvalRetain(w *mc.W, cas c18Retain) {
	c := w.Ctx()
	w.Eval()
	txs := c18RetainTxs()
	type kept struct {
		call int
		res  *wire.MsgTx
		dump c18Snap
	}
	var keep []kept
	msg, p := mc.Guard(func() {
		for i, cl := range cas.Calls {
			var op string
			var k int
			for j := 0; j < len(cl); j++ {
				if cl[j] == ':' {
					op = cl[:j]
					fmt.Sscanf(cl[j+1:], "%d", &k)
				}
			}
			tx := txs[k].build()
			w.Trans()
			if op == "sort" {
				r := txsort.Sort(tx)
				if r != nil {
					keep = append(keep, kept{i, r, c18Dump(r)})
				}
			} else {
				txsort.InPlaceSort(tx)
			}
		}
	})
	if p {
		c.Violate("sort-panics-in-a-call-sequence", "retain", cas, msg)
		return
	}
	for _, kp := range keep {
		if !c18Dump(kp.res).equal(kp.dump) {
			c.Violate("sorted-copy-changed-by-a-later-call", "retain", cas, fmt.Sprintf("the result of call %d (%s) is no longer what it was when it was returned: now %s", kp.call+1, cas.Calls[kp.call], c18Order(kp.res)))
			return
		}
	}
	w.Outcome("call sequence: every sorted copy is still what it was")
}

func runC18Retain(c *mc.Ctx) {
	var alpha []string
	for k := range c18RetainTxs() {
		alpha = append(alpha, fmt.Sprintf("sort:%d", k), fmt.Sprintf("inplace:%d", k))
	}
	var cases []c18Retain
	var rec func(cur []string)
	rec = func(cur []string) {
		if len(cur) >= 2 {
			cases = append(cases, c18Retain{Calls: append([]string{}, cur...)})
		}
		if len(cur) == mc.Pick(c, 3, 4) {
			return
		}
		for _, a := range alpha {
			rec(append(cur, a))
		}
	}
	rec(nil)
	c.Space("sequences of 2..3 (4) Sort / InPlaceSort calls over four transactions, every sorted copy kept and re-examined at the end", int64(len(cases)))
	w := c.Worker() // one after the other: recycled storage goes from one call to the next
	for _, cs := range cases {
		w.State()
		c18EvalRetain(w, cs)
	}
	w.Done()
	c.Sample("retain", cases[len(cases)/2])
}
