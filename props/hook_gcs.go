//go:build !nohook_gcs

package props

import "github.com/gcash/bchutil/gcs"

var hookFastReduction func(v, nHi, nLo uint64) uint64 = gcs.VerifFastReduction
