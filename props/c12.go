package props

import (
	"encoding/json"
	"fmt"
	"runtime"
	"runtime/debug"
	"sort"
	"strings"

	"github.com/gcash/bchd/chaincfg/chainhash"
	"github.com/gcash/bchd/wire"
	"github.com/gcash/bchutil/merkleblock"

	"verif/mc"
	"verif/ref"
)

// C12 — merkle proof extraction is sound against malformed or malicious messages.

func init() {
	register(&Prop{ID: "C12", Run: runC12, Replay: map[string]func(*mc.Ctx, json.RawMessage){
		"msg": replayer(c12Eval),
	}})
}

// c12Msg is a merkle-block message over a small hash alphabet: Hashes is a string of digits, each
// naming one of the alphabet's hashes ('0','1','2' = the three base hashes; 'a'.. = txids of the
// honest block of size HonestN).
type c12Msg struct {
	NumTx   uint32 `json:"transactions"`
	Hashes  string `json:"hashes"`
	Flags   string `json:"flags_hex"`
	HonestN int    `json:"honest_n,omitempty"`
	// DiffPos > 0: the hash list is built from two hashes that differ in exactly one byte
	// (position DiffPos-1); Hashes then selects them by the digits '0' and '1'.
	DiffPos int `json:"diff_pos,omitempty"`
	// SharePtr: entries of the hash list that hold equal values are the SAME *chainhash.Hash object
	// (a caller building the message by hand may do that; a decoder must compare values, not pointers)
	SharePtr bool `json:"equal_hashes_share_one_object,omitempty"`
	// Dense > 0: the message is the full proof of Dense distinct leaves with every flag bit set
	// (Hashes and Flags are ignored), then damaged: the first DupPairs sibling pairs at tree level
	// DupLevel are made equal (each a CVE-2012-2459 defect), the last DropHashes hashes and the last
	// DropFlagBytes flag bytes are removed.  Counts of defects around 2^8 and 2^16 are the point.
	Dense         int `json:"dense_leaves,omitempty"`
	DupPairs      int `json:"dup_pairs,omitempty"`
	DupLevel      int `json:"dup_level,omitempty"`
	DropHashes    int `json:"drop_hashes,omitempty"`
	DropFlagBytes int `json:"drop_flag_bytes,omitempty"`
	// SkipFirst > 0 (with Dense): the first SkipFirst leaves are NOT matched (honest proof of the rest);
	// ExtraFlags: bytes appended behind the flag string.  Together they place the end of the used flag
	// bits at a chosen byte length (the largest the format allows, powers of two) with whole unused
	// bytes behind it.
	SkipFirst  int    `json:"skip_first,omitempty"`
	ExtraFlags string `json:"extra_flags_hex,omitempty"`
}

// c12FlagBits: the number of flag bits of the honest proof of T leaves of which the first skip are
// not matched (no hashing).
func c12FlagBits(T, skip int) int {
	n := 0
	var rec func(h uint, pos int)
	width := func(h uint) int { return (T + (1 << h) - 1) >> h }
	rec = func(h uint, pos int) {
		n++
		last := (pos+1)<<h - 1
		if last >= T {
			last = T - 1
		}
		if h == 0 || last < skip {
			return
		}
		rec(h-1, 2*pos)
		if 2*pos+1 < width(h-1) {
			rec(h-1, 2*pos+1)
		}
	}
	h := uint(0)
	for width(h) > 1 {
		h++
	}
	rec(h, 0)
	return n
}

func c12Dense(cas c12Msg) ([]ref.Hash32, []byte) {
	T := cas.Dense
	hs := make([]ref.Hash32, T)
	for i := range hs {
		hs[i] = ref.Hash32{byte(i), byte(i >> 8), byte(i >> 16), 0x77}
	}
	blk := 1 << uint(cas.DupLevel)
	for j := 0; j < cas.DupPairs; j++ {
		for k := 0; k < blk; k++ {
			if src, dst := 2*j*blk+k, (2*j+1)*blk+k; dst < T {
				hs[dst] = hs[src]
			}
		}
	}
	nodes := 0
	for w := T; ; w = (w + 1) / 2 {
		nodes += w
		if w == 1 {
			break
		}
	}
	flags := make([]byte, (nodes+7)/8)
	for i := 0; i < nodes; i++ {
		flags[i/8] |= 1 << uint(i%8)
	}
	if cas.SkipFirst > 0 {
		matched := make([]bool, T)
		for i := cas.SkipFirst; i < T; i++ {
			matched[i] = true
		}
		hs, flags = ref.PMTBuild(hs, matched)
	}
	flags = append(flags, mc.UnHex(cas.ExtraFlags)...)
	if cas.DropHashes <= len(hs) {
		hs = hs[:len(hs)-cas.DropHashes]
	}
	if cas.DropFlagBytes <= len(flags) {
		flags = flags[:len(flags)-cas.DropFlagBytes]
	}
	return hs, flags
}

// the first element is the ALL-ZERO hash: the value an implementation is most likely to use as a
// sentinel ("no hash", "failed subtree"), here a perfectly ordinary hash in every slot
var c12Alpha = [3]ref.Hash32{{}, {0x02, 0x02}, {0x03, 0x03, 0x03}}

func c12Hash(ch byte, honestN int) ref.Hash32 {
	if ch >= '0' && ch <= '2' {
		return c12Alpha[ch-'0']
	}
	if ch == 'z' { // an interior node value or foreign hash
		return ref.Hash32{0xfe, 0xed}
	}
	// COMPUTED interior values: a hash list may carry, as an opaque subtree hash, exactly the value
	// that the neighbouring subtree - given leaf by leaf - computes to (the CVE-2012-2459 shape with
	// the two equal children supplied in different forms)
	switch ch {
	case 'p':
		return ref.MerkleParent(c12Alpha[1], c12Alpha[2])
	case 'q':
		return ref.MerkleParent(c12Alpha[2], c12Alpha[1])
	case 'r':
		return ref.MerkleParent(c12Alpha[1], c12Alpha[1])
	case 's':
		return ref.MerkleParent(ref.MerkleParent(c12Alpha[1], c12Alpha[2]), ref.MerkleParent(c12Alpha[1], c12Alpha[2]))
	}
	// honest proof material is addressed by index into the proof's own hash list, see c12Honest
	panic("bad hash symbol")
}

func c12Eval(w *mc.W, cas c12Msg) {
	c := w.Ctx()
	w.Eval()
	flags := mc.UnHex(cas.Flags)
	var hashes []ref.Hash32
	if cas.Dense > 0 {
		hashes, flags = c12Dense(cas)
	} else if cas.HonestN > 0 {
		hashes = c12HonestHashes(cas)
	} else if cas.DiffPos > 0 {
		var a, b ref.Hash32
		for i := range a {
			a[i], b[i] = 0x5a, 0x5a
		}
		b[cas.DiffPos-1] ^= 0x01
		for i := 0; i < len(cas.Hashes); i++ {
			if cas.Hashes[i] == '0' {
				hashes = append(hashes, a)
			} else {
				hashes = append(hashes, b)
			}
		}
	} else {
		for i := 0; i < len(cas.Hashes); i++ {
			hashes = append(hashes, c12Hash(cas.Hashes[i], 0))
		}
	}
	msg := wire.MsgMerkleBlock{Transactions: cas.NumTx, Flags: flags}
	shared := map[ref.Hash32]*chainhash.Hash{}
	for i := range hashes {
		h := chainhash.Hash(hashes[i])
		if cas.SharePtr {
			if p, ok := shared[hashes[i]]; ok {
				msg.Hashes = append(msg.Hashes, p)
				continue
			}
			shared[hashes[i]] = &h
		}
		msg.Hashes = append(msg.Hashes, &h)
	}
	var root *chainhash.Hash
	var pb *merkleblock.PartialBlock
	if m, p := mc.Guard(func() {
		pb = merkleblock.NewMerkleBlockFromMsg(msg)
		root = pb.ExtractMatches()
	}); p {
		c.Violate("extraction-panics", "msg", cas, m)
		return
	}
	wantRoot, wantMatches, reason := ref.PMTExtract(cas.NumTx, hashes, flags, merkleblock.MaxTxnCount)
	if reason != "" {
		w.Outcome("fails: " + reason)
		if root != nil {
			c.Violate("accepts-message-the-specification-rejects/"+sanitizeReason(reason), "msg", cas, fmt.Sprintf("returned root %x", root[:4]))
		} else {
			c12Second(w, cas, pb, wantRoot, wantMatches, reason)
		}
		return
	}
	w.Outcome(fmt.Sprintf("succeeds with %d matches", min(len(wantMatches), 4)))
	w.Nontrivial(mc.HashString(fmt.Sprint(cas.NumTx), cas.Hashes, cas.Flags, fmt.Sprint(cas.HonestN, cas.Dense, cas.DupPairs, cas.DupLevel, cas.DropHashes, cas.DropFlagBytes)))
	if root == nil {
		// The statement demands soundness only ("either fails or returns ..."): a refusal is never a
		// violation here (acceptance of honest proofs is C11's clause).  Counted, not reported.
		w.Outcome("library fails although the independent evaluation succeeds (allowed)")
		return
	}
	if ref.Hash32(*root) != wantRoot {
		c.Violate("extracted-root-differs-from-independent-evaluation", "msg", cas, "")
	}
	items, hs := pb.GetItems(), pb.GetMatches()
	if len(items) != len(wantMatches) || len(hs) != len(wantMatches) {
		c.Violate("match-list-differs-from-independent-evaluation", "msg", cas, fmt.Sprintf("got %v want %d matches", items, len(wantMatches)))
		return
	}
	for i, m := range wantMatches {
		if items[i] != m.Pos || ref.Hash32(*hs[i]) != m.Hash {
			c.Violate("match-list-differs-from-independent-evaluation", "msg", cas, fmt.Sprintf("match %d: got pos %d want %d", i, items[i], m.Pos))
			return
		}
		if n := len(wantMatches); n > 4096 && i > 1 && i != n/2 && i < n-2 {
			continue // very long lists: the leaf-under-the-root walk for the first two, the middle and the last two
		}
		// independently: the reported hash is a leaf at the reported position under the returned root
		r, ok := ref.PMTVerifyLeaf(cas.NumTx, hashes, flags, items[i], ref.Hash32(*hs[i]))
		if !ok || r != ref.Hash32(*root) {
			c.Violate("reported-match-is-not-a-leaf-under-the-returned-root", "msg", cas, fmt.Sprintf("pos %d", items[i]))
		}
	}
	c12Second(w, cas, pb, wantRoot, wantMatches, "")
}

// c12Second: a second extraction on the same object is an extraction of the same message: it may
// fail, but if it returns a root, root and lists must again be the independent evaluation's (state
// kept in the object - counters, appended lists - must not leak into the result).  Run where it is
// cheap: short flag strings and the structured families.
func c12Second(w *mc.W, cas c12Msg, pb *merkleblock.PartialBlock, wantRoot ref.Hash32, wantMatches []ref.PMTMatch, reason string) {
	c := w.Ctx()
	if !(len(cas.Flags) <= 2 || cas.HonestN > 0 || cas.Dense > 0 || cas.DiffPos > 0) {
		return
	}
	var root2 *chainhash.Hash
	if m, p := mc.Guard(func() { root2 = pb.ExtractMatches() }); p {
		c.Violate("second-extraction-panics", "msg", cas, m)
		return
	}
	w.Trans()
	// ... and ANOTHER object's extraction in between (a two-leaf proof with both leaves matched) is
	// an extraction of that other message: scratch state shared between objects would show in either
	if cas.Dense <= 100000 {
		other := wire.MsgMerkleBlock{Transactions: 2, Flags: []byte{0x07}}
		oa, ob := chainhash.Hash(c12Alpha[1]), chainhash.Hash(c12Alpha[2])
		other.Hashes = []*chainhash.Hash{&oa, &ob}
		var oroot, root3 *chainhash.Hash
		var opb *merkleblock.PartialBlock
		if m, p := mc.Guard(func() {
			opb = merkleblock.NewMerkleBlockFromMsg(other)
			oroot = opb.ExtractMatches()
			root3 = pb.ExtractMatches()
		}); p {
			c.Violate("extraction-after-another-objects-extraction-panics", "msg", cas, m)
			return
		}
		w.Trans()
		if oroot == nil || ref.Hash32(*oroot) != ref.MerkleParent(c12Alpha[1], c12Alpha[2]) || len(opb.GetItems()) != 2 || len(opb.GetMatches()) != 2 {
			c.Violate("another-objects-extraction-disturbed", "msg", cas, fmt.Sprintf("a two-leaf proof extracted after this message: root %v, %d items", oroot, len(opb.GetItems())))
			return
		}
		if (root2 == nil) != (root3 == nil) || root3 != nil && *root3 != *root2 {
			c.Violate("extraction-differs-after-another-objects-extraction", "msg", cas, fmt.Sprintf("second extraction %v, third (after another object was extracted) %v", root2, root3))
			return
		}
	}
	if root2 == nil {
		return
	}
	if reason != "" {
		c.Violate("second-extraction-accepts-message-the-specification-rejects/"+sanitizeReason(reason), "msg", cas, "the first extraction failed, the second returned a root")
		return
	}
	items, hs := pb.GetItems(), pb.GetMatches()
	if ref.Hash32(*root2) != wantRoot || len(items) != len(wantMatches) || len(hs) != len(wantMatches) {
		c.Violate("second-extraction-differs-from-independent-evaluation", "msg", cas, fmt.Sprintf("%d items / %d hashes, want %d", len(items), len(hs), len(wantMatches)))
		return
	}
	for i, m := range wantMatches {
		if items[i] != m.Pos || ref.Hash32(*hs[i]) != m.Hash {
			c.Violate("second-extraction-differs-from-independent-evaluation", "msg", cas, fmt.Sprintf("match %d", i))
			return
		}
	}
}

// honest proofs and their mutations: Hashes encodes a mutation recipe "n:subsetbits:mutation:arg"
func c12HonestHashes(cas c12Msg) []ref.Hash32 {
	var n, sub, arg int
	var mut string
	fmt.Sscanf(cas.Hashes, "%d:%d:%s", &n, &sub, &mut)
	// mut has the form name,arg
	for i := 0; i < len(mut); i++ {
		if mut[i] == ',' {
			fmt.Sscanf(mut[i+1:], "%d", &arg)
			mut = mut[:i]
			break
		}
	}
	b := c11GetBlock(n)
	matched := make([]bool, n)
	for i := range matched {
		matched[i] = sub>>uint(i)&1 == 1
	}
	hs, _ := ref.PMTBuild(b.ids, matched)
	switch mut {
	case "drop":
		if arg < len(hs) {
			hs = append(append([]ref.Hash32{}, hs[:arg]...), hs[arg+1:]...)
		}
	case "dup":
		if arg < len(hs) {
			hs = append(append(append([]ref.Hash32{}, hs[:arg+1]...), hs[arg]), hs[arg+1:]...)
		}
	case "swap":
		if arg+1 < len(hs) {
			hs = append([]ref.Hash32{}, hs...)
			hs[arg], hs[arg+1] = hs[arg+1], hs[arg]
		}
	case "foreign":
		if arg < len(hs) {
			hs = append([]ref.Hash32{}, hs...)
			hs[arg] = ref.Hash32{0xfe, 0xed}
		}
	case "copyprev": // make two siblings equal
		if arg+1 < len(hs) {
			hs = append([]ref.Hash32{}, hs...)
			hs[arg+1] = hs[arg]
		}
	}
	return hs
}

func c12HonestFlags(n, sub int) []byte {
	b := c11GetBlock(n)
	matched := make([]bool, n)
	for i := range matched {
		matched[i] = sub>>uint(i)&1 == 1
	}
	_, fl := ref.PMTBuild(b.ids, matched)
	return fl
}

func runC12(c *mc.Ctx) {
	c.Rule("every merkle-block message with transaction count in {0..N, MaxTxnCount, MaxTxnCount+1, 2^32-1}, every hash list of length 0..L over a 3-element alphabet (equal siblings occur everywhere) and every flag string of 0, 1 and 2 bytes (65,793) is extracted by the real code and by an independent evaluation written from BIP37; plus every single-bit flag flip, dropped/duplicated/swapped/foreign/equalised hash, count +-1 and added/removed flag byte of every honest proof for n <= 9 (12); acceptance, root, matches and positions must agree and each reported leaf is re-verified under the root; non-trivial = messages that extract successfully")
	c.Assume("double-SHA256 trusted; nil hash pointers inside a message cannot be produced by wire decoding and are excluded")

	N := mc.Pick(c, 5, 7)
	L := mc.Pick(c, 5, 8)
	counts := []uint32{}
	for n := 0; n <= N; n++ {
		counts = append(counts, uint32(n))
	}
	// counts around 2^16 and 2^24 (a truncated count would be evaluated against a smaller tree)
	counts = append(counts, 65535, 65536, 65537, 65538, 65539, 131073, 1<<24+1)
	counts = append(counts, merkleblock.MaxTxnCount, merkleblock.MaxTxnCount+1, 1<<32-1)
	// all flag strings of 0,1,2 bytes
	nflags := int64(1 + 256 + 65536)
	flagOf := func(i int64) string {
		switch {
		case i == 0:
			return ""
		case i <= 256:
			return fmt.Sprintf("%02x", i-1)
		}
		i -= 257
		return fmt.Sprintf("%02x%02x", i&0xff, i>>8)
	}
	for _, cnt := range counts {
		cnt := cnt
		maxLen := L
		if int(cnt)+1 < maxLen && cnt <= uint32(N) {
			maxLen = int(cnt) + 1
		}
		if cnt > uint32(N) {
			maxLen = 3
		}
		var lists []string
		for l := 0; l <= maxLen; l++ {
			for i := int64(0); i < ipow(3, l); i++ {
				lists = append(lists, string(bytesOfLen([]byte("012"), l, i)))
			}
		}
		// For the huge counts the tree is 20+ levels deep; two flag bytes cannot finish it, which is
		// exactly the point (must fail cleanly).
		total := int64(len(lists)) * nflags
		c.Space(fmt.Sprintf("transactions=%d: %d hash lists x 65793 flag strings", cnt, len(lists)), total)
		c.ParFor(total, func(w *mc.W, i int64) {
			w.State()
			m := c12Msg{NumTx: cnt, Hashes: lists[i/nflags], Flags: flagOf(i % nflags)}
			c12Eval(w, m)
			if i%nflags <= 256 { // flag strings of 0 and 1 byte: also with equal hashes sharing one object
				m.SharePtr = true
				c12Eval(w, m)
			}
		})
	}
	c.Sample("msg", c12Msg{NumTx: 3, Hashes: "0112", Flags: "0b"})

	// sibling hashes that differ in exactly one byte: a hash comparison that skips a byte would
	// wrongly reject (equal-children rule) or wrongly accept
	{
		var ds []c12Msg
		for pos := 1; pos <= 32; pos++ {
			for _, hs := range []string{"01", "10", "00", "11", "010", "001", "0110"} {
				for _, n := range []uint32{2, 3, 4} {
					for _, fl := range []string{"07", "1f", "7f", "03", "05", "1b", "17"} {
						ds = append(ds, c12Msg{NumTx: n, Hashes: hs, Flags: fl, DiffPos: pos})
					}
				}
			}
		}
		c.Space("sibling hashes differing in exactly one byte", int64(len(ds)))
		c.ParFor(int64(len(ds)), func(w *mc.W, i int64) {
			w.State()
			c12Eval(w, ds[i])
		})
	}

	// dense proofs with many defects: a decoder that counts its problems instead of latching them
	// forgets them when the count wraps (2^8, 2^16)
	{
		var ds []c12Msg
		ladder := []int{0, 1, 2, 3, 127, 128, 129, 254, 255, 256, 257, 258, 511, 512, 513, 767, 768, 769, 1023, 1024, 1025}
		var Ts []int
		for T := 2; T <= 24; T++ {
			Ts = append(Ts, T)
		}
		Ts = append(Ts, 255, 256, 257, 511, 512, 513, 514, 1023, 1024, 1025, 1536, 2048, 2049)
		for _, T := range Ts {
			var dups, drops []int
			if T <= 24 {
				for d := 0; d <= T/2; d++ {
					dups = append(dups, d)
				}
				for d := 0; d <= T; d++ {
					drops = append(drops, d)
				}
			} else {
				dups, drops = ladder, ladder
			}
			for _, lvl := range []int{0, 1, 2} {
				for _, d := range dups {
					if 2*d<<uint(lvl) > T+(1<<uint(lvl)) || lvl > 0 && d == 0 {
						continue
					}
					for _, k := range drops {
						if k > T {
							continue
						}
						for _, fb := range []int{0, 1, 2, 31, 32, 33, 64, 128} {
							if fb > T/4+1 || T <= 24 && fb > 2 {
								continue
							}
							ds = append(ds, c12Msg{NumTx: uint32(T), Dense: T, DupPairs: d, DupLevel: lvl, DropHashes: k, DropFlagBytes: fb})
						}
					}
				}
			}
		}
		if c.Thorough() {
			for _, T := range []int{131072, 131074} {
				for _, d := range []int{65535, 65536, 65537} {
					ds = append(ds, c12Msg{NumTx: uint32(T), Dense: T, DupPairs: d})
					ds = append(ds, c12Msg{NumTx: uint32(T), Dense: T, DropHashes: d})
				}
			}
		}
		// the END of the used flag bits placed at chosen byte lengths B: the largest a processable block
		// can reach, MaxTxnCount/4 and +1 (what a bound computed from the limit comes to), 2^k and 2^k+-1;
		// honest, and with one / three whole unused bytes behind (which must fail however long the string)
		{
			maxT := int(merkleblock.MaxTxnCount)
			var targets []int
			for k := uint(5); k <= 19; k++ {
				if k > 16 && c.Quick() && k != 19 {
					continue
				}
				targets = append(targets, 1<<k-1, 1<<k, 1<<k+1)
			}
			targets = append(targets, maxT/4-1, maxT/4, maxT/4+1, (c12FlagBits(maxT, 0)+7)/8)
			seenTS := map[[2]int]bool{}
			var fl []c12Msg // a loop of its own: the largest take seconds each and must not share one chunk
			for _, B := range targets {
				found := false
				for T := min(maxT, 4*B+8); T > 4*B-64 && T > 1 && !found; T-- {
					for skip := 1; skip <= 9 && skip < T; skip++ {
						if bits := c12FlagBits(T, skip); (bits+7)/8 == B {
							if !seenTS[[2]int{T, skip}] {
								seenTS[[2]int{T, skip}] = true
								exs := []string{"", "00", "ff", "000000"}
								if T > 200000 && c.Quick() {
									exs = []string{"", "00"} // the largest: honest and one unused byte (thorough: all four)
								}
								for _, ex := range exs {
									fl = append(fl, c12Msg{NumTx: uint32(T), Dense: T, SkipFirst: skip, ExtraFlags: ex})
								}
							}
							found = true
							break
						}
					}
				}
			}
			// largest first, so that the long ones start together
			sort.SliceStable(fl, func(i, j int) bool { return fl[i].Dense > fl[j].Dense })
			c.Space("honest proofs of all but the first few leaves whose used flag bits end at chosen byte lengths (2^k, 2^k+-1, limit/4 and neighbours, the largest reachable), each honest and with 1 or 3 whole unused bytes appended", int64(len(fl)))
			// a proof of two million leaves holds several hundred megabytes while it is evaluated (hash
			// list, one object per hash for the wire message, the library's and the reference's match
			// lists): at most three of them at a time, collected right away (the process-wide GC target of
			// 800 % would otherwise let sixteen of them grow to tens of gigabytes)
			bigSem := make(chan struct{}, 3)
			c.ParFor(int64(len(fl)), func(w *mc.W, i int64) {
				w.State()
				if fl[i].Dense > 200000 {
					bigSem <- struct{}{}
					defer func() {
						runtime.GC()
						<-bigSem
					}()
				}
				c12Eval(w, fl[i])
			})
			debug.FreeOSMemory()
		}
		c.Space("dense proofs (every flag bit set) with d equalised sibling pairs at level 0..2, k missing hashes, b missing flag bytes; d, k around 2^8, 2^9, 2^10 (2^16)", int64(len(ds)))
		c.ParFor(int64(len(ds)), func(w *mc.W, i int64) {
			w.State()
			c12Eval(w, ds[i])
			if ds[i].DupPairs > 0 && ds[i].Dense <= 600 {
				m := ds[i]
				m.SharePtr = true
				c12Eval(w, m)
			}
		})
		c.Sample("msg", c12Msg{NumTx: 512, Dense: 512, DupPairs: 256})
	}

	// transaction counts at which 32-bit arithmetic on the count wraps: count*d crosses a multiple of
	// 2^32 for d = 1..64 (a size or limit computed as count * constant), powers of two and 3*2^j, and
	// the neighbourhood of the limit; each with four trivial messages.  Thorough: every one of the
	// 2^32 counts with a one-hash message.
	{
		set := map[uint32]bool{}
		for d := uint64(1); d <= 64; d++ {
			for k := uint64(1); k <= d; k++ {
				base := (k<<32 + d - 1) / d
				for dd := int64(-1); dd <= 2; dd++ {
					if v := int64(base) + dd; v >= 0 && v < 1<<32 {
						set[uint32(v)] = true
					}
				}
			}
		}
		for j := uint(0); j < 32; j++ {
			for dd := int64(-1); dd <= 1; dd++ {
				if v := int64(1)<<j + dd; v >= 0 && v < 1<<32 {
					set[uint32(v)] = true
				}
				if v := int64(3)<<j + dd; v >= 0 && v < 1<<32 {
					set[uint32(v)] = true
				}
			}
		}
		for dd := int64(-2); dd <= 2; dd++ {
			set[uint32(int64(merkleblock.MaxTxnCount)+dd)] = true
		}
		var cl []uint32
		for v := range set {
			cl = append(cl, v)
		}
		sort.Slice(cl, func(i, j int) bool { return cl[i] < cl[j] })
		// every NUMBER of unused flag bytes 1..600 (two fills) behind every accepted message of <= 4
		// transactions with a one-byte flag string: "a whole byte of flag bits unused" however many there
		// are (a leftover measured in a narrow type wraps at 32 and 8192 bytes; the latter on thorough)
		{
			var bases []c12Msg
			for n := uint32(1); n <= 4; n++ {
				for l := 1; l <= 4; l++ {
					for i := int64(0); i < ipow(2, l); i++ {
						hl := string(bytesOfLen([]byte("12"), l, i))
						for fb := 0; fb < 256; fb++ {
							fl := []byte{byte(fb)}
							var hs []ref.Hash32
							for k := 0; k < len(hl); k++ {
								hs = append(hs, c12Hash(hl[k], 0))
							}
							if _, _, reason := ref.PMTExtract(n, hs, fl, merkleblock.MaxTxnCount); reason == "" {
								bases = append(bases, c12Msg{NumTx: n, Hashes: hl, Flags: fmt.Sprintf("%02x", fb)})
								break // one accepted flag byte per (count, hash list)
							}
						}
					}
				}
			}
			extras := []int{}
			for k := 1; k <= 600; k++ {
				extras = append(extras, k)
			}
			if c.Thorough() {
				extras = append(extras, 8191, 8192, 8193, 65535, 65536, 65537)
			}
			c.Space("accepted small messages followed by 1..600 unused flag bytes (fills 00 and ff)", int64(len(bases)*len(extras)*2))
			c.ParFor(int64(len(bases)*len(extras)), func(w *mc.W, i int64) {
				b := bases[i/int64(len(extras))]
				k := extras[i%int64(len(extras))]
				for _, fill := range []string{"00", "ff"} {
					m := b
					m.Flags += strings.Repeat(fill, k)
					w.State()
					c12Eval(w, m)
				}
			})
			c.Note("accepted_small_messages_used_as_bases", len(bases))
		}
		// hash lists over two leaves and the interior values computed from them ('p' = H(1,2), 'q' = H(2,1),
		// 'r' = H(1,1), 's' = H(p,p)): counts 2..8, lists of length <= 5, every one-byte flag string and
		// two-byte strings whose second byte is a run of low bits
		{
			var lists []string
			syms := mc.Pick(c, "12pr", "12pqrs")
			for l := 1; l <= 5; l++ {
				for i := int64(0); i < ipow(len(syms), l); i++ {
					lists = append(lists, string(bytesOfLen([]byte(syms), l, i)))
				}
			}
			var fls []string
			for b := 0; b < 256; b++ {
				fls = append(fls, fmt.Sprintf("%02x", b))
				for _, b2 := range []int{0x00, 0x01, 0x03, 0x07, 0x0f, 0x1f, 0x7f, 0xff} {
					if c.Thorough() || b2 <= 0x07 {
						fls = append(fls, fmt.Sprintf("%02x%02x", b, b2))
					}
				}
			}
			cnts := []uint32{2, 3, 4, 5, 6, 7, 8}
			tot := int64(len(lists)) * int64(len(fls)) * int64(len(cnts))
			c.Space("messages whose hash lists carry computed interior values next to the leaves they are computed from", tot)
			c.ParFor(tot, func(w *mc.W, i int64) {
				m := c12Msg{NumTx: cnts[i%int64(len(cnts))]}
				i /= int64(len(cnts))
				m.Flags = fls[i%int64(len(fls))]
				m.Hashes = lists[i/int64(len(fls))]
				w.State()
				c12Eval(w, m)
			})
		}
		shapes := []c12Msg{{Hashes: "0", Flags: "00"}, {Hashes: "0", Flags: "01"}, {Hashes: "01", Flags: "07"}, {Hashes: "", Flags: ""}}
		c.Space("transaction counts at the wrap points of count*d (d <= 64), powers of two, 3*2^j and around the limit x 4 trivial messages", int64(len(cl)*len(shapes)))
		c.ParFor(int64(len(cl)*len(shapes)), func(w *mc.W, i int64) {
			m := shapes[i%int64(len(shapes))]
			m.NumTx = cl[i/int64(len(shapes))]
			w.State()
			c12Eval(w, m)
		})
		if c.Thorough() {
			c.Space("every transaction count 0..2^32-1 with a one-hash message", 1<<32)
			c.ParFor(1<<20, func(w *mc.W, blk int64) {
				h := chainhash.Hash(c12Alpha[0])
				bad := 0
				for lo := int64(0); lo < 1<<12; lo++ {
					cnt := uint32(blk<<12 | lo)
					if cnt <= merkleblock.MaxTxnCount {
						w.State()
						c12Eval(w, c12Msg{NumTx: cnt, Hashes: "0", Flags: "00"})
						continue
					}
					// beyond the limit the statement demands a refusal: no reference evaluation needed
					w.State()
					w.Eval()
					msg := wire.MsgMerkleBlock{Transactions: cnt, Flags: []byte{0}, Hashes: []*chainhash.Hash{&h}}
					if merkleblock.NewMerkleBlockFromMsg(msg).ExtractMatches() != nil && bad < 3 {
						bad++
						c12Eval(w, c12Msg{NumTx: cnt, Hashes: "0", Flags: "00"}) // reports it with the full oracle
					}
				}
				w.OutcomeN("fails: too many transactions", 1<<12)
			})
		}
	}

	// mutations of honest proofs
	var muts []c12Msg
	maxN := mc.Pick(c, 9, 12)
	for n := 1; n <= maxN; n++ {
		for sub := 0; sub < 1<<uint(n); sub++ {
			fl := c12HonestFlags(n, sub)
			b := c11GetBlock(n)
			matched := make([]bool, n)
			for i := range matched {
				matched[i] = sub>>uint(i)&1 == 1
			}
			hs, _ := ref.PMTBuild(b.ids, matched)
			base := fmt.Sprintf("%d:%d:", n, sub)
			add := func(cnt uint32, recipe string, flags []byte) {
				muts = append(muts, c12Msg{NumTx: cnt, Hashes: base + recipe, Flags: mc.Hex(flags), HonestN: n})
			}
			add(uint32(n), "none,0", fl)
			for bit := 0; bit < 8*len(fl); bit++ {
				m := append([]byte{}, fl...)
				m[bit/8] ^= 1 << uint(bit%8)
				add(uint32(n), "none,0", m)
			}
			add(uint32(n)+1, "none,0", fl)
			if n > 1 {
				add(uint32(n)-1, "none,0", fl)
			}
			add(uint32(n), "none,0", append(append([]byte{}, fl...), 0))
			add(uint32(n), "none,0", append(append([]byte{}, fl...), 1))
			if len(fl) > 0 {
				add(uint32(n), "none,0", fl[:len(fl)-1])
			}
			for k := 0; k < len(hs); k++ {
				for _, m := range []string{"drop", "dup", "swap", "foreign", "copyprev"} {
					add(uint32(n), fmt.Sprintf("%s,%d", m, k), fl)
				}
			}
		}
	}
	c.Space("mutations of honest proofs", int64(len(muts)))
	c.ParFor(int64(len(muts)), func(w *mc.W, i int64) {
		w.State()
		c12Eval(w, muts[i])
		if strings.Contains(muts[i].Hashes, "dup,") || strings.Contains(muts[i].Hashes, "copyprev,") {
			m := muts[i]
			m.SharePtr = true
			c12Eval(w, m)
		}
	})
	c.Sample("msg", muts[len(muts)/2])
}
