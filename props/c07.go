package props

import (
	"bytes"
	"encoding/json"
	"fmt"
	"math/big"
	"strings"

	"github.com/gcash/bchutil/base58"
	"github.com/gcash/bchutil/bech32"

	"verif/mc"
	"verif/ref"
)

// C07 — Base58 / Base58Check / bech32 are exact, strict, side-effect-free inverses.

func init() {
	register(&Prop{ID: "C07", Run: runC07, Replay: map[string]func(*mc.Ctx, json.RawMessage){
		"b58bytes": replayer(c07EvalB58Bytes),
		"b58str":   replayer(c07EvalB58Str),
		"b58check": replayer(c07EvalCheck),
		"bechenc":  replayer(c07EvalBechEnc),
		"bechstr":  replayer(c07EvalBechStr),
		"conv":     replayer(c07EvalConv),
		"retain":   replayer(c07EvalRetain),
	}})
}

type c07Bytes struct {
	Fn  string `json:"fn"`
	Hex string `json:"hex"`
	Ver int    `json:"version,omitempty"`
}
type c07Str struct {
	Fn string `json:"fn"`
	S  string `json:"s_hex"` // hex of the string so every byte survives JSON
}
type c07Bech struct {
	Hrp  string `json:"hrp"`
	Data string `json:"data_hex"`
}
type c07Conv struct {
	Data     string `json:"data_hex"`
	From, To uint8
	Pad      bool
}

// guarded makes a copy of b with spare capacity filled with a sentinel; check() reports
// whether anything reachable from the slice (len and spare capacity) changed.
type guardedSlice struct {
	full []byte
	snap []byte
	n    int
}

func guard(b []byte) *guardedSlice {
	full := make([]byte, len(b)+24)
	copy(full, b)
	for i := len(b); i < len(full); i++ {
		full[i] = 0xEE
	}
	return &guardedSlice{full: full, snap: append([]byte{}, full...), n: len(b)}
}
func (g *guardedSlice) arg() []byte  { return g.full[:g.n] }
func (g *guardedSlice) intact() bool { return bytes.Equal(g.full, g.snap) }

func c07EvalB58Bytes(w *mc.W, cas c07Bytes) {
	c := w.Ctx()
	b := mc.UnHex(cas.Hex)
	w.Eval()
	g := guard(b)
	var enc string
	var dec []byte
	if msg, p := mc.Guard(func() { enc = base58.Encode(g.arg()); dec = base58.Decode(enc) }); p {
		c.Violate("base58-panic", "b58bytes", cas, msg)
		return
	}
	if !g.intact() {
		c.Violate("base58-encode-mutates-argument", "b58bytes", cas, "argument or its spare capacity changed")
	}
	want := ref.B58Encode(b)
	if enc != want {
		c.Violate("base58-encode-differs-from-spec", "b58bytes", cas, fmt.Sprintf("got %q want %q", enc, want))
	}
	if !bytes.Equal(dec, b) {
		c.Violate("base58-decode-encode-not-identity", "b58bytes", cas, fmt.Sprintf("decode(encode(b))=%x", dec))
	}
	if len(b) > 0 && b[0] == 0 {
		w.Outcome("b58 bytes: leading zero")
		w.Nontrivial(mc.HashBytes([]byte("b58z"), b))
	} else {
		w.Outcome("b58 bytes: no leading zero")
	}
}

func c07EvalB58Str(w *mc.W, cas c07Str) {
	c := w.Ctx()
	s := string(mc.UnHex(cas.S))
	w.Eval()
	var dec []byte
	if msg, p := mc.Guard(func() { dec = base58.Decode(s) }); p {
		c.Violate("base58-panic", "b58str", cas, msg)
		return
	}
	want, ok := ref.B58Decode(s)
	if !ok {
		w.Outcome("b58 string: foreign character -> empty")
		if len(dec) != 0 {
			c.Violate("base58-decode-accepts-foreign-character", "b58str", cas, fmt.Sprintf("got %x", dec))
		}
		w.Nontrivial(mc.HashString("b58f", s))
		return
	}
	w.Outcome("b58 string: in alphabet")
	if !bytes.Equal(dec, want) {
		c.Violate("base58-decode-differs-from-spec", "b58str", cas, fmt.Sprintf("got %x want %x", dec, want))
		return
	}
	if re := base58.Encode(dec); re != s {
		c.Violate("base58-encode-decode-not-identity", "b58str", cas, fmt.Sprintf("encode(decode(s))=%q", re))
	}
}

// c07EvalCheck: Fn "enc": Hex = payload, Ver = version -> round trip.  Fn "dec": Hex = raw decoded
// bytes (body || 4 bytes), string = ref.B58Encode(raw) -> acceptance iff checksum rule.
func c07EvalCheck(w *mc.W, cas c07Bytes) {
	c := w.Ctx()
	b := mc.UnHex(cas.Hex)
	w.Eval()
	switch cas.Fn {
	case "enc":
		g := guard(b)
		var enc string
		var res []byte
		var ver byte
		var err error
		if msg, p := mc.Guard(func() {
			enc = base58.CheckEncode(g.arg(), byte(cas.Ver))
			res, ver, err = base58.CheckDecode(enc)
		}); p {
			c.Violate("base58check-panic", "b58check", cas, msg)
			return
		}
		if !g.intact() {
			c.Violate("base58check-encode-mutates-argument", "b58check", cas, "")
		}
		if want := ref.B58CheckEncode(byte(cas.Ver), b); enc != want {
			c.Violate("base58check-encode-differs-from-spec", "b58check", cas, fmt.Sprintf("got %q want %q", enc, want))
		}
		if err != nil || ver != byte(cas.Ver) || !bytes.Equal(res, b) {
			c.Violate("base58check-roundtrip", "b58check", cas, fmt.Sprintf("got ver=%d payload=%x err=%v", ver, res, err))
		}
		w.Outcome("b58check: round trip")
	case "dec":
		s := ref.B58Encode(b)
		var res []byte
		var ver byte
		var err error
		if msg, p := mc.Guard(func() { res, ver, err = base58.CheckDecode(s) }); p {
			c.Violate("base58check-panic", "b58check", cas, msg)
			return
		}
		wv, wp, status := ref.B58CheckDecode(s)
		switch status {
		case "ok":
			w.Outcome("b58check string: accepted")
			if err != nil || ver != wv || !bytes.Equal(res, wp) {
				c.Violate("base58check-decode-differs-from-spec", "b58check", cas, fmt.Sprintf("got ver=%d payload=%x err=%v", ver, res, err))
			}
		case "format":
			w.Outcome("b58check string: too short")
			w.Nontrivial(mc.HashBytes([]byte("b58c-short"), b))
			if err != base58.ErrInvalidFormat {
				c.Violate("base58check-short-input-not-ErrInvalidFormat", "b58check", cas, fmt.Sprintf("err=%v", err))
			}
		case "checksum":
			w.Outcome("b58check string: bad checksum")
			w.Nontrivial(mc.HashBytes([]byte("b58c-sum"), b))
			if err == nil {
				c.Violate("base58check-accepts-bad-checksum", "b58check", cas, fmt.Sprintf("ver=%d payload=%x", ver, res))
			} else if err != base58.ErrChecksum {
				c.Violate("base58check-bad-checksum-wrong-error", "b58check", cas, fmt.Sprintf("err=%v", err))
			}
		}
	}
}

func c07EvalBechEnc(w *mc.W, cas c07Bech) {
	c := w.Ctx()
	data := mc.UnHex(cas.Data)
	w.Eval()
	g := guard(data)
	var enc string
	var err error
	if msg, p := mc.Guard(func() { enc, err = bech32.Encode(cas.Hrp, g.arg()) }); p {
		c.Violate("bech32-encode-panic", "bechenc", cas, msg)
		return
	}
	if !g.intact() {
		c.Violate("bech32-encode-mutates-argument", "bechenc", cas, "data[len:cap] overwritten")
	}
	want, ok := ref.Bech32Encode(cas.Hrp, data)
	if !ok {
		w.Outcome("bech32 encode: symbol out of range -> error")
		if err == nil {
			c.Violate("bech32-encode-accepts-out-of-range-symbol", "bechenc", cas, enc)
		}
		return
	}
	if err != nil {
		c.Violate("bech32-encode-fails", "bechenc", cas, err.Error())
		return
	}
	if enc != want {
		c.Violate("bech32-encode-differs-from-BIP173", "bechenc", cas, fmt.Sprintf("got %q want %q", enc, want))
		return
	}
	if len(enc) > 90 {
		w.Outcome("bech32 encode: longer than 90 (outside the statement)")
		return
	}
	if cas.Hrp != strings.ToLower(cas.Hrp) {
		// an upper-case prefix given to the ENCODER is outside BIP173 (the result is mixed case); only
		// the comparison with the reference above applies.  The call matters for what it leaves behind.
		w.Outcome("bech32 encode: upper-case prefix (comparison with the reference only)")
		return
	}
	for _, variant := range []string{enc, strings.ToUpper(enc)} {
		var hrp string
		var dd []byte
		if msg, p := mc.Guard(func() { hrp, dd, err = bech32.Decode(variant) }); p {
			c.Violate("bech32-decode-panic", "bechenc", cas, msg)
			return
		}
		if err != nil || hrp != cas.Hrp || !bytes.Equal(dd, data) {
			c.Violate("bech32-roundtrip", "bechenc", cas, fmt.Sprintf("decode(%q) = %q %x %v", variant, hrp, dd, err))
			return
		}
	}
	w.Outcome(fmt.Sprintf("bech32 encode: round trip ok (len class %s)", lenClass(len(enc))))
}

func lenClass(n int) string {
	switch {
	case n >= 89:
		return fmt.Sprint(n)
	case n <= 9:
		return fmt.Sprint(n)
	}
	return "10..88"
}

func c07EvalBechStr(w *mc.W, cas c07Str) {
	c := w.Ctx()
	s := string(mc.UnHex(cas.S))
	w.Eval()
	var hrp string
	var dd []byte
	var err error
	if msg, p := mc.Guard(func() { hrp, dd, err = bech32.Decode(s) }); p {
		c.Violate("bech32-decode-panic", "bechstr", cas, msg)
		return
	}
	wh, wd, ok := ref.Bech32Decode(s)
	if ok {
		w.Outcome("bech32 string: accepted")
		if err != nil {
			c.Violate("bech32-decode-rejects-valid", "bechstr", cas, err.Error())
		} else if hrp != wh || !bytes.Equal(dd, wd) {
			c.Violate("bech32-decode-differs-from-BIP173", "bechstr", cas, fmt.Sprintf("got %q %x want %q %x", hrp, dd, wh, wd))
		}
		return
	}
	w.Outcome("bech32 string: rejected")
	w.Nontrivial(mc.HashString("bechrej", s))
	if err == nil {
		c.Violate("bech32-decode-accepts-invalid", "bechstr", cas, fmt.Sprintf("decoded to %q %x", hrp, dd))
	}
}

func c07EvalConv(w *mc.W, cas c07Conv) {
	c := w.Ctx()
	data := mc.UnHex(cas.Data)
	w.Eval()
	g := guard(data)
	var out []byte
	var err error
	if msg, p := mc.Guard(func() { out, err = bech32.ConvertBits(g.arg(), cas.From, cas.To, cas.Pad) }); p {
		c.Violate("convertbits-panic", "conv", cas, msg)
		return
	}
	if !g.intact() {
		c.Violate("convertbits-mutates-argument", "conv", cas, "")
	}
	want, leftover, zero := ref.Regroup(data, uint(cas.From), uint(cas.To), cas.Pad)
	if cas.Pad {
		if err != nil || !bytes.Equal(out, want) {
			c.Violate("convertbits-pad-differs", "conv", cas, fmt.Sprintf("got %x %v want %x", out, err, want))
		}
		w.Outcome("convertbits pad: ok")
		return
	}
	spec58 := (cas.From == 8 && cas.To == 5) || (cas.From == 5 && cas.To == 8)
	if spec58 {
		// BIP173: reject iff leftover >= from or leftover bits non-zero
		reject := leftover >= uint(cas.From) || !zero
		if reject {
			w.Outcome("convertbits 8<->5 strict: rejected padding")
			w.Nontrivial(mc.HashBytes([]byte{cas.From, cas.To}, data))
			if err == nil {
				c.Violate("convertbits-accepts-bad-padding", "conv", cas, fmt.Sprintf("leftover=%d zero=%v out=%x", leftover, zero, out))
			}
		} else {
			w.Outcome("convertbits 8<->5 strict: accepted")
			if err != nil || !bytes.Equal(out, want) {
				c.Violate("convertbits-strict-differs", "conv", cas, fmt.Sprintf("got %x %v want %x", out, err, want))
			}
		}
		return
	}
	// other (from,to): only the unambiguous part
	if err == nil {
		w.Outcome("convertbits other widths strict: accepted")
		if !bytes.Equal(out, want) || !zero {
			c.Violate("convertbits-generic-accepts-lossy", "conv", cas, fmt.Sprintf("got %x want %x leftoverzero=%v", out, want, zero))
		}
	} else {
		w.Outcome("convertbits other widths strict: rejected")
		if leftover == 0 {
			c.Violate("convertbits-generic-rejects-exact", "conv", cas, err.Error())
		}
	}
}

// ---------------------------------------------------------------------------------------

func bytesOfLen(alpha []byte, n int, idx int64) []byte {
	b := make([]byte, n)
	for i := n - 1; i >= 0; i-- {
		b[i] = alpha[idx%int64(len(alpha))]
		idx /= int64(len(alpha))
	}
	return b
}

func ipow(a, n int) int64 {
	r := int64(1)
	for i := 0; i < n; i++ {
		r *= int64(a)
	}
	return r
}

func allBytes() []byte {
	a := make([]byte, 256)
	for i := range a {
		a[i] = byte(i)
	}
	return a
}

func runC07(c *mc.Ctx) {
	c.Rule("exhaustive small-scope enumeration; every case calls the real encoder/decoder and compares with the byte-array / GF(32) reference models; non-trivial = cases that take a rejection or leading-zero branch")
	c.Assume("reference models ref.B58*, ref.Bech32*, ref.Regroup are correct transcriptions of the Bitcoin wiki / BIP173 (self-tested against BIP173 vectors at start)")
	c.Assume("byte strings longer than the enumerated lengths behave like the enumerated ones (outside the bound)")
	c07SelfTest(c)
	runC07Retain(c)

	all := allBytes()
	// 1. Base58 bytes: all strings of length <= 2 (quick) / <= 3 (thorough), plus structured longer ones.
	maxLen := mc.Pick(c, 2, 3)
	for n := 0; n <= maxLen; n++ {
		n := n
		size := ipow(256, n)
		c.Space(fmt.Sprintf("base58 byte strings of length %d", n), size)
		c.ParFor(size, func(w *mc.W, i int64) {
			b := bytesOfLen(all, n, i)
			w.State()
			c07EvalB58Bytes(w, c07Bytes{Fn: "b58", Hex: mc.Hex(b)})
		})
	}
	// structured longer inputs: k leading zeros then a fill, lengths up to 64 (512 for thorough)
	var longs [][]byte
	maxL := mc.Pick(c, 512, 2048)
	for L := 3; L <= maxL; L++ {
		for _, z := range []int{0, 1, 2, L - 1, L} {
			if z > L {
				continue
			}
			for _, fill := range []byte{0x01, 0x7f, 0x80, 0xff} {
				b := make([]byte, L)
				for i := z; i < L; i++ {
					b[i] = fill
				}
				longs = append(longs, b)
			}
		}
	}
	c.Space("base58 structured byte strings (leading zeros x fills, length 3..max)", int64(len(longs)))
	c.ParFor(int64(len(longs)), func(w *mc.W, i int64) {
		w.State()
		c07EvalB58Bytes(w, c07Bytes{Fn: "b58", Hex: mc.Hex(longs[i])})
	})
	c.Sample("b58bytes", c07Bytes{Fn: "b58", Hex: "0001"})
	// numbers with a SHAPE in base 58 or base 256, at sizes no address has: 58^k - 1, 58^k, 58^k + 1
	// (a digit string of all 'z', or '2' followed by '1's - a conversion that works in groups of digits
	// or splits the number goes wrong on long runs of zero digits) for every k up to 1300 (thorough
	// 3000 in steps), a*58^k + b*58^j for sparse pairs, 2^(8m) - 1 and 2^(8m) for every m up to 900 and two in seven up to 3300 (6000)
	{
		var shaped [][]byte
		one := big.NewInt(1)
		b58k := big.NewInt(1)
		maxK := 1300
		var pows []*big.Int
		for k := 0; k <= mc.Pick(c, maxK, 3000); k++ {
			pows = append(pows, new(big.Int).Set(b58k))
			if k <= maxK || k%13 == 0 {
				shaped = append(shaped, new(big.Int).Sub(b58k, one).Bytes(), b58k.Bytes(), new(big.Int).Add(b58k, one).Bytes())
			}
			b58k.Mul(b58k, big.NewInt(58))
		}
		for k := 20; k < len(pows); k += 37 {
			for _, j := range []int{0, 1, k / 2, k - 1, k - 439, k - 440, k - 441, k - 10, k - 11} {
				if j < 0 || j >= k {
					continue
				}
				v := new(big.Int).Mul(pows[k], big.NewInt(7))
				v.Add(v, new(big.Int).Mul(pows[j], big.NewInt(5)))
				shaped = append(shaped, v.Bytes())
			}
		}
		for m := 1; m <= mc.Pick(c, 3300, 6000); m++ { // every length to 900 bytes, then in steps of 7, and the steps' neighbours
			if m > 900 && m%7 != 0 && m%7 != 1 && m%100 != 78 {
				continue
			}
			p2 := new(big.Int).Lsh(one, uint(8*m))
			shaped = append(shaped, new(big.Int).Sub(p2, one).Bytes(), p2.Bytes())
		}
		c.Space("base58 byte strings whose value is 58^k-1, 58^k, 58^k+1, 7*58^k+5*58^j, 2^(8m)-1, 2^(8m)", int64(len(shaped)))
		c.ParFor(int64(len(shaped)), func(w *mc.W, i int64) {
			w.State()
			c07EvalB58Bytes(w, c07Bytes{Fn: "b58", Hex: mc.Hex(shaped[i])})
		})
	}

	// 2. Base58 strings: length 1 over all 256 byte values; lengths <= 3 over alphabet + foreign.
	salpha := []byte(ref.B58Alphabet)
	salpha = append(salpha, '0', 'O', 'I', 'l', ' ', 0x80, 0xff)
	c.Space("base58 strings of length 1 over all byte values", 256)
	c.ParFor(256, func(w *mc.W, i int64) {
		w.State()
		c07EvalB58Str(w, c07Str{Fn: "b58", S: mc.Hex([]byte{byte(i)})})
	})
	maxS := mc.Pick(c, 3, 4)
	for n := 0; n <= maxS; n++ {
		n := n
		size := ipow(len(salpha), n)
		c.Space(fmt.Sprintf("base58 strings of length %d over 58 letters + 7 foreign", n), size)
		c.ParFor(size, func(w *mc.W, i int64) {
			w.State()
			c07EvalB58Str(w, c07Str{Fn: "b58", S: mc.Hex(bytesOfLen(salpha, n, i))})
		})
	}
	c.Sample("b58str", c07Str{Fn: "b58", S: mc.Hex([]byte("1Il"))})
	// every byte value at every position of longer valid strings (a foreign byte anywhere empties the result)
	{
		var fs [][]byte
		for _, L := range []int{2, 5, 11, 21, 34, 51, 111} {
			b := make([]byte, L)
			for i := range b {
				b[i] = ref.B58Alphabet[(i*17+L)%58]
			}
			for pos := 0; pos < L; pos++ {
				for v := 0; v < 256; v++ {
					m := append([]byte{}, b...)
					m[pos] = byte(v)
					fs = append(fs, m)
				}
			}
			// framed by white space / terminators
			for _, fr := range []string{" ", "\t", "\n", "\r", "\r\n", "\x00", "\n\n", "\ufeff"} {
				fs = append(fs, []byte(string(b)+fr), []byte(fr+string(b)), []byte(fr+string(b)+fr))
			}
			// and every multi-byte character that a rune-wise decoder may take for the letter there
			for _, m := range runeSubstitutions(string(b)) {
				fs = append(fs, []byte(m))
			}
		}
		c.Space("base58 strings of length 2..111 with every byte value (and every look-alike multi-byte character) at every position", int64(len(fs)))
		c.ParFor(int64(len(fs)), func(w *mc.W, i int64) {
			w.State()
			c07EvalB58Str(w, c07Str{Fn: "b58", S: mc.Hex(fs[i])})
		})
	}
	// low-entropy digit strings: a decoder that works on groups of digits (or an encoder on groups of
	// bytes) goes wrong on a group that is all zero digits or all maximal digits at a particular
	// offset, which strings of 3-4 arbitrary letters never contain.  (a) every string over
	// {'1','2','z'} up to length 12(13) and over {'1','z'} up to length 20(22); (b) every string of
	// length <= 64(96) that is a run of one letter ('1' or 'z') except at <= 2 positions.
	for _, fam := range []struct {
		letters string
		maxN    int
	}{{"12z", mc.Pick(c, 12, 13)}, {"1z", mc.Pick(c, 20, 22)}} {
		fam := fam
		for n := 5; n <= fam.maxN; n++ {
			n := n
			size := ipow(len(fam.letters), n)
			c.Space(fmt.Sprintf("base58 strings of length %d over {%s}", n, fam.letters), size)
			c.ParFor(size, func(w *mc.W, i int64) {
				w.State()
				c07EvalB58Str(w, c07Str{Fn: "b58", S: mc.Hex(bytesOfLen([]byte(fam.letters), n, i))})
			})
		}
	}
	{
		var sparse [][]byte
		for L := 5; L <= mc.Pick(c, 64, 96); L++ {
			for _, bg := range []struct {
				run byte
				alt string
			}{{'1', "2z"}, {'z', "1y"}} {
				for p1 := 0; p1 < L; p1++ {
					for _, a := range []byte(bg.alt) {
						b := bytes.Repeat([]byte{bg.run}, L)
						b[p1] = a
						sparse = append(sparse, b)
						for p2 := p1 + 1; p2 < L; p2++ {
							b2 := append([]byte{}, b...)
							b2[p2] = bg.alt[0]
							sparse = append(sparse, b2)
						}
					}
				}
			}
		}
		c.Space("base58 strings that are a run of '1' or 'z' except at <= 2 positions (length 5..max)", int64(len(sparse)))
		c.ParFor(int64(len(sparse)), func(w *mc.W, i int64) {
			w.State()
			c07EvalB58Str(w, c07Str{Fn: "b58", S: mc.Hex(sparse[i])})
		})
		// the byte-string side of the same idea: runs of 0x00 or 0xff except at <= 2 positions
		var sb [][]byte
		for L := 3; L <= mc.Pick(c, 48, 72); L++ {
			for _, bg := range []struct {
				run byte
				alt []byte
			}{{0x00, []byte{0x01, 0xff}}, {0xff, []byte{0x00, 0xfe}}} {
				for p1 := 0; p1 < L; p1++ {
					for _, a := range bg.alt {
						b := bytes.Repeat([]byte{bg.run}, L)
						b[p1] = a
						sb = append(sb, b)
						for p2 := p1 + 1; p2 < L; p2++ {
							b2 := append([]byte{}, b...)
							b2[p2] = bg.alt[0]
							sb = append(sb, b2)
						}
					}
				}
			}
		}
		c.Space("base58 byte strings that are a run of 0x00 or 0xff except at <= 2 positions (length 3..max)", int64(len(sb)))
		c.ParFor(int64(len(sb)), func(w *mc.W, i int64) {
			w.State()
			c07EvalB58Bytes(w, c07Bytes{Fn: "b58", Hex: mc.Hex(sb[i])})
		})
	}

	// 3. Base58Check encode: version 0..255 x payloads.
	small := []byte{0x00, 0x01, 0xff}
	var payloads [][]byte
	for n := 0; n <= 2; n++ {
		for i := int64(0); i < ipow(3, n); i++ {
			payloads = append(payloads, bytesOfLen(small, n, i))
		}
	}
	for _, L := range []int{20, 32} {
		for _, f := range []byte{0x00, 0xa5} {
			payloads = append(payloads, bytes.Repeat([]byte{f}, L))
		}
	}
	// every payload length 0..300 with position-dependent content (a limit placed on one side only, a
	// buffer sized for the usual lengths)
	for L := 0; L <= 300; L++ {
		b := make([]byte, L)
		for i := range b {
			b[i] = byte(i*29+L) | 1
		}
		payloads = append(payloads, b)
	}
	c.Space("base58check encode: version x payload (small payloads, 20/32 bytes, every length 0..300)", int64(256*len(payloads)))
	c.ParFor(int64(256*len(payloads)), func(w *mc.W, i int64) {
		w.State()
		c07EvalCheck(w, c07Bytes{Fn: "enc", Hex: mc.Hex(payloads[i/256]), Ver: int(i % 256)})
	})
	// 4. Base58Check decode: body (version||payload, total length 0..4 over {00,01,ff} and one 21-byte body)
	// x checksum variants {correct, each of 32 single-bit flips, each body bit flip keeping the checksum,
	// truncated by 1..4 bytes}.
	var raws [][]byte
	var bodies [][]byte
	for n := 0; n <= 4; n++ {
		for i := int64(0); i < ipow(3, n); i++ {
			bodies = append(bodies, bytesOfLen(small, n, i))
		}
	}
	bodies = append(bodies, append([]byte{0x05}, bytes.Repeat([]byte{0x5a}, 20)...))
	for _, body := range bodies {
		ck := ref.DoubleSHA256(body)
		good := append(append([]byte{}, body...), ck[:4]...)
		raws = append(raws, good)
		for bit := 0; bit < 32; bit++ {
			m := append([]byte{}, good...)
			m[len(body)+bit/8] ^= 1 << uint(bit%8)
			raws = append(raws, m)
		}
		for bit := 0; bit < 8*len(body); bit++ {
			m := append([]byte{}, good...)
			m[bit/8] ^= 1 << uint(bit%8)
			raws = append(raws, m)
		}
		if len(body) <= 2 || len(body) == 21 {
			for _, pm := range checksumPatterns() {
				m := append([]byte{}, good...)
				for i := 0; i < 4; i++ {
					m[len(body)+i] ^= pm[i]
				}
				raws = append(raws, m)
			}
		}
		for t := 1; t <= 4 && t <= len(good); t++ {
			raws = append(raws, append([]byte{}, good[:len(good)-t]...))
		}
	}
	c.Space("base58check decode: bodies x checksum variants", int64(len(raws)))
	c.ParFor(int64(len(raws)), func(w *mc.W, i int64) {
		w.State()
		c07EvalCheck(w, c07Bytes{Fn: "dec", Hex: mc.Hex(raws[i])})
	})
	c.Sample("b58check", c07Bytes{Fn: "dec", Hex: mc.Hex(raws[1])})

	// 5. bech32 encode/decode round trip.
	hrps := []string{"a", "bc", "tb", "1", "a1b", "!", "~", strings.Repeat("x", 83)}
	var datas [][]byte
	five := make([]byte, 32)
	for i := range five {
		five[i] = byte(i)
	}
	for n := 0; n <= mc.Pick(c, 2, 3); n++ {
		for i := int64(0); i < ipow(32, n); i++ {
			datas = append(datas, bytesOfLen(five, n, i))
		}
	}
	datas = append(datas, []byte{32}, []byte{255}, []byte{0, 32})
	var bechCases []c07Bech
	for _, h := range hrps {
		for _, d := range datas {
			if len(h)+7+len(d) <= 91 {
				bechCases = append(bechCases, c07Bech{Hrp: h, Data: mc.Hex(d)})
			}
		}
		// boundary lengths: total = 88..92
		for total := 88; total <= 92; total++ {
			n := total - len(h) - 7
			if n < 0 {
				continue
			}
			for _, f := range []byte{0, 31, 10} {
				bechCases = append(bechCases, c07Bech{Hrp: h, Data: mc.Hex(bytes.Repeat([]byte{f}, n))})
			}
		}
	}
	c.Space("bech32 (hrp, data) pairs", int64(len(bechCases)))
	c.ParFor(int64(len(bechCases)), func(w *mc.W, i int64) {
		w.State()
		c07EvalBechEnc(w, bechCases[i])
	})
	c.Sample("bechenc", bechCases[40])

	// 6. bech32 strings: mutations of valid strings + BIP173 vectors + tiny strings.
	var strs []string
	bases := []string{}
	for _, h := range []string{"a", "bc", "a1b", "!"} {
		for _, d := range [][]byte{{}, {0}, {31, 0, 17}, bytes.Repeat([]byte{7}, 20)} {
			s, _ := ref.Bech32Encode(h, d)
			bases = append(bases, s)
		}
	}
	for _, h := range []string{"a", strings.Repeat("x", 83), strings.Repeat("y", 40)} {
		for total := 89; total <= 91; total++ {
			n := total - len(h) - 7
			if n >= 0 {
				s, _ := ref.Bech32Encode(h, bytes.Repeat([]byte{3}, n))
				bases = append(bases, s)
			}
		}
	}
	foreign := []byte{'b', 'i', 'o', '1', ' ', '!', '~', 0x7f, 0x80, 0x00, 'Q', 'q', 'P'}
	for _, s := range bases {
		strs = append(strs, s, strings.ToUpper(s))
		for pos := 0; pos < len(s); pos++ {
			for _, f := range foreign {
				m := []byte(s)
				m[pos] = f
				strs = append(strs, string(m))
			}
			m := []byte(s) // toggle case of one character -> mixed case
			if m[pos] >= 'a' && m[pos] <= 'z' {
				m[pos] -= 32
				strs = append(strs, string(m))
			}
			strs = append(strs, s[:pos]+s[pos+1:]) // deletion
			strs = append(strs, s[:pos]+"1"+s[pos:], s[:pos]+"q"+s[pos:])
		}
		// every byte value INSERTED at every position of the valid string (a decoder that drops what it
		// does not recognise still sees a valid checksum), and substituted at every position
		if len(s) <= 40 {
			for pos := 0; pos <= len(s); pos++ {
				for v := 0; v < 256; v++ {
					strs = append(strs, s[:pos]+string([]byte{byte(v)})+s[pos:])
					if pos < len(s) && byte(v) != s[pos] {
						m := []byte(s)
						m[pos] = byte(v)
						strs = append(strs, string(m))
					}
				}
			}
		}
	}
	for _, s := range bases[:8] { // non-ASCII runes that case-fold into ASCII, in lower- and upper-case strings
		strs = append(strs, runeSubstitutions(s)...)
		strs = append(strs, runeSubstitutions(strings.ToUpper(s))...)
	}
	for _, s := range bases[:8] {
		for _, fr := range []string{" ", "\t", "\n", "\r", "\r\n", "\x00", "\ufeff"} {
			strs = append(strs, s+fr, fr+s, fr+s+fr)
		}
		// case by LETTER: in the upper-case string all occurrences of one letter are lower case, and the
		// other way round, for every letter that occurs; every single character of the upper-case string
		// in lower case (a case test with an off-by-one at the ends of the alphabet misses exactly the
		// letters 'a' / 'z' / 'A' / 'Z', which single flips FROM lower case only reach one way round)
		up, lo := strings.ToUpper(s), strings.ToLower(s)
		for ch := byte('a'); ch <= 'z'; ch++ {
			if strings.IndexByte(lo, ch) < 0 {
				continue
			}
			m1, m2 := []byte(up), []byte(lo)
			for i := range m1 {
				if lo[i] == ch {
					m1[i] = ch
					m2[i] = ch - 32
				}
			}
			strs = append(strs, string(m1), string(m2))
		}
		for i := 0; i < len(up); i++ {
			if up[i] >= 'A' && up[i] <= 'Z' {
				m := []byte(up)
				m[i] += 32
				strs = append(strs, string(m))
			}
		}
	}
	// human-readable parts containing bytes outside 33..126 WITH the checksum that belongs to them (a
	// substituted byte fails the checksum whatever the range test does; only a string encoded for that
	// very hrp shows whether the range test is there): every single byte 0..32 and 127..255, every
	// well-formed two-byte UTF-8 character, some three- and four-byte ones, at the start, in the
	// middle and at the end of the hrp
	{
		var xs []string
		for b := 0; b < 256; b++ {
			if b < 33 || b > 126 {
				xs = append(xs, string([]byte{byte(b)}))
			}
		}
		for b1 := 0xc2; b1 <= 0xdf; b1++ {
			for b2 := 0x80; b2 <= 0xbf; b2++ {
				xs = append(xs, string([]byte{byte(b1), byte(b2)}))
			}
		}
		xs = append(xs, "\u20ac", "\uff01", "\u212a", "\U0001f600", "\u00e9\u00e9", "\u00bf\u00a1")
		d10 := []byte{1, 2, 3, 4, 5, 6, 7, 8, 9, 10}
		for _, x := range xs {
			for _, hrp := range []string{x, "a" + x + "b", x + "bc", "ab" + x} {
				if s, ok := ref.Bech32Encode(hrp, d10); ok && len(s) <= 90 {
					strs = append(strs, s)
				}
			}
		}
	}
	strs = append(strs, bip173Valid...)
	strs = append(strs, bip173Invalid...)
	tiny := []byte{'q', 'p', '1', 'a', 'A', '!'}
	for n := 0; n <= 9; n++ {
		if n <= 5 || c.Thorough() && n <= 8 {
			for i := int64(0); i < ipow(len(tiny), n); i++ {
				strs = append(strs, string(bytesOfLen(tiny, n, i)))
			}
		}
	}
	c.Space("bech32 strings (mutations of valid strings, BIP173 vectors, all strings of length<=5 over {q,p,1,a,A,!})", int64(len(strs)))
	c.ParFor(int64(len(strs)), func(w *mc.W, i int64) {
		w.State()
		c07EvalBechStr(w, c07Str{Fn: "bech", S: mc.Hex([]byte(strs[i]))})
	})
	c.Sample("bechstr", c07Str{Fn: "bech", S: mc.Hex([]byte(strs[5]))})

	// 7. ConvertBits.
	var convs []c07Conv
	for _, pad := range []bool{true, false} {
		for n := 0; n <= 2; n++ {
			for i := int64(0); i < ipow(256, n); i++ {
				convs = append(convs, c07Conv{Data: mc.Hex(bytesOfLen(all, n, i)), From: 8, To: 5, Pad: pad})
			}
		}
		for n := 0; n <= mc.Pick(c, 3, 4); n++ {
			for i := int64(0); i < ipow(32, n); i++ {
				convs = append(convs, c07Conv{Data: mc.Hex(bytesOfLen(five, n, i)), From: 5, To: 8, Pad: pad})
			}
		}
		// longer 5->8 inputs: all lengths 0..16 with two fills so every leftover count 0..7 occurs
		for n := 0; n <= 16; n++ {
			for _, f := range []byte{0, 1, 16, 31} {
				convs = append(convs, c07Conv{Data: mc.Hex(bytes.Repeat([]byte{f}, n)), From: 5, To: 8, Pad: pad})
				convs = append(convs, c07Conv{Data: mc.Hex(bytes.Repeat([]byte{f}, n)), From: 8, To: 5, Pad: pad})
			}
		}
		// inputs longer than 255 groups (8-bit counters)
		for _, n := range []int{254, 255, 256, 257, 300, 511, 512, 513} {
			for _, f := range []byte{0, 1, 21, 31} {
				convs = append(convs, c07Conv{Data: mc.Hex(bytes.Repeat([]byte{f}, n)), From: 5, To: 8, Pad: pad})
				convs = append(convs, c07Conv{Data: mc.Hex(bytes.Repeat([]byte{f * 8}, n)), From: 8, To: 5, Pad: pad})
			}
		}
		for from := uint8(1); from <= 8; from++ {
			for to := uint8(1); to <= 8; to++ {
				if (from == 8 && to == 5) || (from == 5 && to == 8) {
					continue
				}
				var al []byte
				for v := 0; v < 1<<from; v++ {
					al = append(al, byte(v))
				}
				if len(al) > 4 {
					al = []byte{0, 1, byte(1<<from - 1), byte(1 << (from - 1))}
				}
				for n := 0; n <= 3; n++ {
					for i := int64(0); i < ipow(len(al), n); i++ {
						convs = append(convs, c07Conv{Data: mc.Hex(bytesOfLen(al, n, i)), From: from, To: to, Pad: pad})
					}
				}
			}
		}
	}
	// illegal widths must return an error, not panic
	c.Space("ConvertBits cases", int64(len(convs)))
	c.ParFor(int64(len(convs)), func(w *mc.W, i int64) {
		w.State()
		c07EvalConv(w, convs[i])
	})
	for _, fw := range [][2]uint8{{0, 5}, {5, 0}, {9, 5}, {5, 9}, {255, 255}} {
		var err error
		msg, p := mc.Guard(func() { _, err = bech32.ConvertBits([]byte{1, 2}, fw[0], fw[1], true) })
		c.Evals.Add(1)
		if p || err == nil {
			c.Violate("convertbits-illegal-width", "conv", c07Conv{Data: "0102", From: fw[0], To: fw[1], Pad: true}, msg)
		}
	}
	c.Sample("conv", convs[300])
	// which call came first: every ordered pair over a menu of calls (encoder with a lower-case and
	// with an UPPER-case prefix, decoder on a lower-case and an upper-case string, the Base58 pair),
	// each pair in a process of its own - a table or memo filled by the first call (keyed by a folded
	// prefix, say) is then read by the second
	{
		d5 := mc.Hex([]byte{0, 14, 20, 15, 7, 13, 26, 0, 25, 18, 6, 11, 13, 8, 21, 4, 20, 3, 17, 2, 29, 3, 12, 29, 3, 4, 15, 24, 20, 6, 14, 30, 22})
		lower := "bc1qw508d6qejxtdg4y5r3zarvary0c5xw7kv8f3t4"
		menu := []mc.KindCase{
			{Kind: "bechenc", Case: c07Bech{Hrp: "bc", Data: d5}},
			{Kind: "bechenc", Case: c07Bech{Hrp: "BC", Data: d5}},
			{Kind: "bechenc", Case: c07Bech{Hrp: "tb", Data: d5}},
			{Kind: "bechstr", Case: c07Str{Fn: "bech", S: mc.Hex([]byte(lower))}},
			{Kind: "bechstr", Case: c07Str{Fn: "bech", S: mc.Hex([]byte(strings.ToUpper(lower)))}},
			{Kind: "b58bytes", Case: c07Bytes{Fn: "b58", Hex: "0001ff"}},
			{Kind: "b58str", Case: c07Str{Fn: "b58", S: mc.Hex([]byte("1Il"))}},
		}
		var seqs [][]mc.KindCase
		for _, a := range menu {
			for _, b := range menu {
				seqs = append(seqs, []mc.KindCase{a, b})
				if a.Kind == "bechenc" && b.Kind != "bechenc" {
					seqs = append(seqs, []mc.KindCase{a, b, menu[0], menu[3]})
				}
			}
		}
		c.Space("ordered pairs (and some quadruples) of calls over a 7-call menu, each sequence in a process of its own", int64(len(seqs)))
		c.FreshSeqAll(seqs)
	}
}

var bip173Valid = []string{
	"A12UEL5L",
	"a12uel5l",
	"an83characterlonghumanreadablepartthatcontainsthenumber1andtheexcludedcharactersbio1tt5tgs",
	"abcdef1qpzry9x8gf2tvdw0s3jn54khce6mua7lmqqqxw",
	"11qqqqqqqqqqqqqqqqqqqqqqqqqqqqqqqqqqqqqqqqqqqqqqqqqqqqqqqqqqqqqqqqqqqqqqqqqqqqqqqqqqc8247j",
	"split1checkupstagehandshakeupstreamerranterredcaperred2y9e3w",
	"?1ezyfcl",
}

var bip173Invalid = []string{
	"\x201nwldj5",
	"\x7f1axkwrx",
	"\x801eym55h",
	"an84characterslonghumanreadablepartthatcontainsthenumber1andtheexcludedcharactersbio1569pvx",
	"pzry9x0s0muk",
	"1pzry9x0s0muk",
	"x1b4n0q5v",
	"li1dgmt3",
	"de1lg7wt\xff",
	"A1G7SGD8",
	"10a06t8",
	"1qzzfhee",
}

func c07SelfTest(c *mc.Ctx) {
	for _, s := range bip173Valid {
		if _, _, ok := ref.Bech32Decode(s); !ok {
			panic("reference bech32 rejects BIP173 valid vector " + s)
		}
	}
	for _, s := range bip173Invalid {
		if _, _, ok := ref.Bech32Decode(s); ok {
			panic("reference bech32 accepts BIP173 invalid vector " + s)
		}
	}
	if ref.B58Encode([]byte{0, 0, 1}) != "112" || ref.B58Encode([]byte("Hello World!")) != "2NEpo7TZRRrLZSi2U" {
		panic("reference base58 self-test failed")
	}
}
