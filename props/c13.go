package props

import (
	"encoding/json"
	"fmt"
	"sort"
	"sync"

	"github.com/gcash/bchutil/gcs"

	"verif/mc"
	"verif/ref"
)

// C13 — GCS filters never miss a member and all query strategies agree.

func init() {
	register(&Prop{ID: "C13", Run: runC13, Replay: map[string]func(*mc.Ctx, json.RawMessage){
		"query": replayer(c13Eval),
		"pair":  replayer(c13EvalPair),
	}})
}

type c13Case struct {
	Key   int      `json:"key"` // 0: all-zero key, 1: 00 01 .. 0f
	P     uint8    `json:"p"`
	M     uint64   `json:"m"`
	Items []string `json:"items_hex"`
	Query []string `json:"query_hex"`
	// Pre: a query list run through all four methods on the filter BEFORE the queries under test;
	// Other: a second filter (other key, P, M, built from Pre or two fixed items) is built and queried
	// with Query in between.  Neither may change what the filter under test answers.
	Pre   []string `json:"earlier_query_hex,omitempty"`
	Other bool     `json:"second_filter_in_between,omitempty"`
}

var c13Keys = [2][16]byte{{}, {0, 1, 2, 3, 4, 5, 6, 7, 8, 9, 10, 11, 12, 13, 14, 15}}

type c13PM struct {
	P uint8
	M uint64
}

var c13Configs = []c13PM{{0, 1}, {1, 2}, {7, 200}, {8, 256}, {19, 784931}, {20, 1 << 20}, {31, 1 << 31}, {32, 1 << 32}, {32, 1 << 40}, {19, 1 << 29},
	// long unary runs: quotients up to several hundred (P tiny against M)
	{0, 5000}, {1, 1 << 12}}

// c13Alphabet builds, for one (key, M, N), the item alphabet by a deterministic scan over counter
// strings: three unrelated items, the empty string, the items with the smallest and largest reduced
// value, a pair with EQUAL reduced value and a pair with equal LOW 32 BITS but different value
// (when N*M exceeds 2^32 and the scan finds one).
type c13Alpha struct {
	items    [][]byte
	names    []string
	hasEqual bool
	hasLow32 bool
}

var c13AlphaCache sync.Map

func c13Alphabet(key int, m uint64, n uint32, scan int) *c13Alpha {
	ck := fmt.Sprintf("%d/%d/%d/%d", key, m, n, scan)
	if v, ok := c13AlphaCache.Load(ck); ok {
		return v.(*c13Alpha)
	}
	a := &c13Alpha{}
	add := func(name string, it []byte) {
		for _, e := range a.items {
			if string(e) == string(it) {
				return
			}
		}
		a.items = append(a.items, it)
		a.names = append(a.names, name)
	}
	item := func(i int) []byte { return []byte(fmt.Sprintf("item-%d", i)) }
	add("u0", item(0))
	add("u1", item(1))
	add("u2", item(2))
	add("empty", []byte{})
	byVal := map[uint64]int{}
	byLow := map[uint32]int{}
	minI, maxI := 0, 0
	var minV, maxV uint64
	eqA, eqB, loA, loB := -1, -1, -1, -1
	mod := uint64(n) * m
	for i := 0; i < scan; i++ {
		v := ref.GCSValue(c13Keys[key], n, m, item(i))
		if i == 0 || v < minV {
			minV, minI = v, i
		}
		if i == 0 || v > maxV {
			maxV, maxI = v, i
		}
		if eqA < 0 {
			if j, ok := byVal[v]; ok {
				eqA, eqB = j, i
			} else {
				byVal[v] = i
			}
		}
		if loA < 0 && mod > 1<<32 {
			if j, ok := byLow[uint32(v)]; ok {
				if ref.GCSValue(c13Keys[key], n, m, item(j)) != v {
					loA, loB = j, i
				}
			} else {
				byLow[uint32(v)] = i
			}
		}
		if eqA >= 0 && (loA >= 0 || mod <= 1<<32) && i >= 4096 {
			break
		}
	}
	add("min", item(minI))
	add("max", item(maxI))
	if eqA >= 0 {
		add("eqA", item(eqA))
		add("eqB", item(eqB))
		a.hasEqual = true
	}
	if loA >= 0 {
		add("low32A", item(loA))
		add("low32B", item(loB))
		a.hasLow32 = true
	}
	c13AlphaCache.Store(ck, a)
	return a
}

func c13Eval(w *mc.W, cas c13Case) {
	c := w.Ctx()
	key := c13Keys[cas.Key]
	var items, query [][]byte
	for _, s := range cas.Items {
		items = append(items, mc.UnHex(s))
	}
	for _, s := range cas.Query {
		query = append(query, mc.UnHex(s))
	}
	fail := func(class, detail string) { c.Violate(class, "query", cas, detail) }
	msg, p := mc.Guard(func() {
		f, err := gcs.BuildGCSFilter(cas.P, cas.M, key, items)
		if err != nil {
			fail("build-fails", err.Error())
			return
		}
		n := uint32(len(items))
		members := map[uint64]bool{}
		for _, it := range items {
			members[ref.GCSValue(key, n, cas.M, it)] = true
		}
		type qm struct {
			name string
			f    func([16]byte, [][]byte) (bool, error)
		}
		runAll := func(tag string, g *gcs.Filter, k [16]byte, gn uint32, gm uint64, gmembers map[uint64]bool, qs [][]byte) {
			anyW := false
			for _, q := range qs {
				want := gn > 0 && gmembers[ref.GCSValue(k, gn, gm, q)]
				anyW = anyW || want
				if got, err := g.Match(k, q); err != nil || got != want {
					fail("match-differs-from-reference-membership/"+tag, fmt.Sprintf("query %x: got %v (%v) want %v", q, got, err, want))
				}
			}
			for _, m := range []qm{{"MatchAny", g.MatchAny}, {"ZipMatchAny", g.ZipMatchAny}, {"HashMatchAny", g.HashMatchAny}} {
				if got, err := m.f(k, qs); err != nil || got != anyW {
					fail("any-of-query-differs-from-individual-matches/"+tag+"/"+m.name, fmt.Sprintf("got %v (%v) want %v", got, err, anyW))
				}
			}
		}
		if len(cas.Pre) > 0 {
			var pre [][]byte
			for _, s := range cas.Pre {
				pre = append(pre, mc.UnHex(s))
			}
			runAll("earlier-query", f, key, n, cas.M, members, pre)
			if cas.Other {
				k2 := c13Keys[1-cas.Key]
				p2, m2 := uint8(19), uint64(784931) // a configuration whose unary runs stay short
				if cas.P == 19 {
					p2, m2 = 20, 1<<20
				}
				g, err := gcs.BuildGCSFilter(p2, m2, k2, pre)
				if err != nil {
					fail("build-fails/second-filter", err.Error())
					return
				}
				gm := map[uint64]bool{}
				for _, it := range pre {
					gm[ref.GCSValue(k2, uint32(len(pre)), m2, it)] = true
				}
				runAll("second-filter", g, k2, uint32(len(pre)), m2, gm, append(append([][]byte{}, query...), pre...))
			}
		}
		w.Eval()
		anyWant := false
		for qi, q := range query {
			want := n > 0 && members[ref.GCSValue(key, n, cas.M, q)]
			if want {
				anyWant = true
			}
			if len(query) > 64 && qi >= 8 && qi < len(query)-8 {
				continue // Match is O(N): on large queries the real single-item query runs on the first and last 8 items only
			}
			got, err := f.Match(key, q)
			if err != nil {
				fail("match-returns-error", err.Error())
			} else if got != want {
				fail("match-differs-from-reference-membership", fmt.Sprintf("query %x: got %v want %v", q, got, want))
			}
			if want {
				anyWant = true
			}
		}
		type strat struct {
			name string
			f    func([16]byte, [][]byte) (bool, error)
		}
		for _, s := range []strat{{"MatchAny", f.MatchAny}, {"ZipMatchAny", f.ZipMatchAny}, {"HashMatchAny", f.HashMatchAny}} {
			got, err := s.f(key, query)
			if err != nil {
				fail("anyquery-returns-error/"+s.name, err.Error())
				continue
			}
			if got != anyWant {
				if anyWant {
					fail("any-of-query-misses-an-individually-matching-item/"+s.name, fmt.Sprintf("got %v want %v", got, anyWant))
				} else {
					fail("any-of-query-matches-although-no-item-matches-individually/"+s.name, fmt.Sprintf("got %v want %v", got, anyWant))
				}
			}
		}
		// every member matches through every query method (checked once per set: empty query case)
		if len(query) == 0 {
			sweep := items
			if len(items) > 64 && len(items) <= c13FullSweepMax(c) {
				// every member by the single-item query (O(N) each; sets of up to 8193 (thorough 32769) elements, N^2 code words): a slip
				// at one particular rank of the sorted values (a block boundary of a skip index, rank 128 or
				// 256) is hit whichever rank it is
				for _, it := range items {
					if ok, _ := f.Match(key, it); !ok {
						fail("member-not-matched/Match", fmt.Sprintf("%x", it))
						break
					}
				}
			}
			if len(items) > 64 { // each query is O(N): first 8, last 8 and 16 evenly spaced members
				sweep = append(append([][]byte{}, items[:8]...), items[len(items)-8:]...)
				for k := 1; k <= 16; k++ {
					sweep = append(sweep, items[k*(len(items)-1)/17])
				}
			}
			for _, it := range sweep {
				if ok, _ := f.Match(key, it); !ok {
					fail("member-not-matched/Match", fmt.Sprintf("%x", it))
				}
				for _, s := range []strat{{"MatchAny", f.MatchAny}, {"ZipMatchAny", f.ZipMatchAny}, {"HashMatchAny", f.HashMatchAny}} {
					if ok, _ := s.f(key, [][]byte{it}); !ok {
						fail("member-not-matched/"+s.name, fmt.Sprintf("%x", it))
					}
					// also with a non-member in front of and behind it
					if ok, _ := s.f(key, [][]byte{[]byte("zz-nonmember"), it, []byte("aa-nonmember")}); !ok {
						fail("member-not-matched-in-mixed-query/"+s.name, fmt.Sprintf("%x", it))
					}
				}
			}
		}
		switch {
		case n == 0:
			w.Outcome("empty filter")
		case len(query) == 0:
			w.Outcome("empty query")
		case anyWant:
			w.Outcome("query hits")
		default:
			w.Outcome("query misses")
		}
	})
	if p {
		fail("panic", msg)
	}
}

func multisets(k, n int) [][]int { // all non-decreasing index lists of length n over k symbols
	var out [][]int
	var rec func(start int, cur []int)
	rec = func(start int, cur []int) {
		if len(cur) == n {
			out = append(out, append([]int{}, cur...))
			return
		}
		for i := start; i < k; i++ {
			rec(i, append(cur, i))
		}
	}
	rec(0, nil)
	return out
}

func runC13(c *mc.Ctx) {
	c.Rule("for 2 keys x 12 (P,M) configurations (incl. N*M >= 2^32 already for N = 1,2) and each set size N: an item alphabet built by a deterministic scan (unrelated items, empty string, min/max reduced value, a pair with equal reduced value, a pair with equal low 32 bits but different value); all multisets of size N <= 3 (4 thorough; N=4 over a 5-item sub-alphabet on quick) x all query lists of length <= 2 (3 thorough); every query through Match, MatchAny, ZipMatchAny, HashMatchAny against reference membership of reduced values; non-trivial = cases whose set or query contains one of the colliding pairs")
	c.Assume("reference SipHash-2-4 and 128-bit multiply (math/bits.Mul64) correct (SipHash self-tested on the paper's vector)")
	c13SelfTest()
	scan := mc.Pick(c, 1<<19, 1<<21)
	maxN := mc.Pick(c, 3, 4)
	maxQ := mc.Pick(c, 2, 3)
	var cases []c13Case
	nontriv := map[int]bool{}
	collisionConfigs := 0
	for key := 0; key < 2; key++ {
		for _, pm := range c13Configs {
			for n := 0; n <= 4; n++ {
				if n > maxN && !(n == 4 && c.Quick()) {
					continue
				}
				al := c13Alphabet(key, pm.M, uint32(max(n, 1)), scan)
				if al.hasLow32 {
					collisionConfigs++
				}
				k := len(al.items)
				if n == 4 && c.Quick() {
					k = 5
					if al.hasLow32 || al.hasEqual { // keep the colliding pair in the reduced alphabet
						k = len(al.items)
						if k > 8 {
							k = 8
						}
					}
				}
				sets := multisets(k, n)
				var queries [][]int
				for l := 0; l <= maxQ; l++ {
					for i := int64(0); i < ipow(len(al.items), l); i++ {
						q := make([]int, l)
						x := i
						for j := l - 1; j >= 0; j-- {
							q[j] = int(x % int64(len(al.items)))
							x /= int64(len(al.items))
						}
						queries = append(queries, q)
					}
				}
				for _, s := range sets {
					var items []string
					special := false
					for _, i := range s {
						items = append(items, mc.Hex(al.items[i]))
						if len(al.names[i]) > 2 && (al.names[i][:2] == "eq" || al.names[i][:2] == "lo") {
							special = true
						}
					}
					for _, q := range queries {
						var qs []string
						sp := special
						for _, i := range q {
							qs = append(qs, mc.Hex(al.items[i]))
							if len(al.names[i]) > 2 && (al.names[i][:2] == "eq" || al.names[i][:2] == "lo") {
								sp = true
							}
						}
						if sp {
							nontriv[len(cases)] = true
						}
						cases = append(cases, c13Case{Key: key, P: pm.P, M: pm.M, Items: items, Query: qs})
						// the same case after earlier queries on the same filter, with and without a second
						// filter built and queried in between (small sets only)
						if key == 0 && n >= 1 && n <= 2 && len(q) >= 1 {
							last := mc.Hex(al.items[len(al.items)-1])
							for _, pre := range [][]string{{mc.Hex(al.items[0])}, {last, items[0]}, append([]string{qs[len(qs)-1]}, last)} {
								for _, other := range []bool{false, true} {
									if sp {
										nontriv[len(cases)] = true
									}
									cases = append(cases, c13Case{Key: key, P: pm.P, M: pm.M, Items: items, Query: qs, Pre: pre, Other: other})
								}
							}
						}
					}
				}
			}
		}
	}
	// Larger sets (N = 5..100) with structured queries: the member with the smallest / largest /
	// a middle reduced value placed first, last and duplicated inside queries of every size around
	// the MatchAny strategy switch (N/2), queries of non-members only, and queries whose smallest
	// value is below every filter value.
	for key := 0; key < 2; key++ {
		for _, pm := range []c13PM{{19, 784931}, {2, 5}, {32, 1 << 32}, {0, 3}} {
			sizes := mc.Pick(c, []int{5, 6, 8, 16, 33}, []int{5, 6, 7, 8, 9, 16, 17, 33, 100})
			if pm.P == 19 { // size ladder (one configuration): counts beyond 8, 10, 15 and 16 bits
				sizes = append(sizes, mc.Pick(c, []int{257, 1025, 4097, 8193, 70001, 140003}, []int{257, 1025, 2049, 4095, 4096, 4097, 8193, 16385, 32769, 65537, 70001, 131071, 131072, 131073, 140003, 300007})...)
			}
			for _, n := range sizes {
				var items [][]byte
				for i := 0; i < n; i++ {
					items = append(items, []byte(fmt.Sprintf("m-%d", i)))
				}
				if n%2 == 0 {
					items[n-1] = items[0] // a duplicate member (delta zero)
				}
				// order members by reduced value
				type mv struct {
					it []byte
					v  uint64
				}
				var ms []mv
				for _, it := range items {
					ms = append(ms, mv{it, ref.GCSValue(c13Keys[key], uint32(n), pm.M, it)})
				}
				sort.Slice(ms, func(i, j int) bool { return ms[i].v < ms[j].v })
				// non-members, sorted by value too
				var nms []mv
				for i := 0; len(nms) < 40; i++ {
					it := []byte(fmt.Sprintf("x-%d", i))
					v := ref.GCSValue(c13Keys[key], uint32(n), pm.M, it)
					member := false
					for _, m := range ms {
						if m.v == v {
							member = true
						}
					}
					if !member {
						nms = append(nms, mv{it, v})
					}
					if i > 5000 {
						break
					}
				}
				sort.Slice(nms, func(i, j int) bool { return nms[i].v < nms[j].v })
				var itemHex []string
				for _, it := range items {
					itemHex = append(itemHex, mc.Hex(it))
				}
				targets := []mv{ms[0], ms[len(ms)-1], ms[len(ms)/2]}
				for _, qn := range []int{1, 2, n/2 - 1, n / 2, n/2 + 1, n, n + 3} {
					if qn < 1 {
						continue
					}
					fill := func(k int) []mv { // k non-members, spread over the value range
						var out []mv
						for i := 0; i < k && len(nms) > 0; i++ {
							out = append(out, nms[(i*7)%len(nms)])
						}
						return out
					}
					var queries [][]mv
					queries = append(queries, fill(qn)) // non-members only
					for _, t := range targets {
						q := append([]mv{t}, fill(qn-1)...) // match first
						queries = append(queries, q)
						q2 := append(fill(qn-1), t) // match last
						queries = append(queries, q2)
						if qn >= 2 {
							q3 := append(append([]mv{t}, fill(qn-2)...), t) // duplicate
							queries = append(queries, q3)
						}
					}
					if len(nms) > 0 { // smallest non-member first, then the largest member
						queries = append(queries, append([]mv{nms[0]}, ms[len(ms)-1]))
						queries = append(queries, append([]mv{nms[len(nms)-1]}, ms[0]))
					}
					for _, q := range queries {
						var qs []string
						for _, e := range q {
							qs = append(qs, mc.Hex(e.it))
						}
						nontriv[len(cases)] = true
						cases = append(cases, c13Case{Key: key, P: pm.P, M: pm.M, Items: itemHex, Query: qs})
					}
				}
				cases = append(cases, c13Case{Key: key, P: pm.P, M: pm.M, Items: itemHex}) // member sweep (empty query)
			}
		}
	}
	// quotient ladder: every unary run length 0..139 in the first and in the second code word
	ladderSets := 0
	for _, p := range mc.Pick(c, []uint8{0, 1, 19, 20, 32}, []uint8{0, 1, 2, 7, 8, 16, 19, 20, 24, 30, 31, 32}) {
		m, sets := c13QuotientLadder(0, p)
		ladderSets += len(sets)
		for _, set := range sets {
			var ih []string
			for _, it := range set {
				ih = append(ih, mc.Hex(it))
			}
			nontriv[len(cases)] = true
			cases = append(cases, c13Case{Key: 0, P: p, M: m, Items: ih}) // member sweep through all four methods
			cases = append(cases, c13Case{Key: 0, P: p, M: m, Items: ih, Query: []string{ih[len(ih)-1], mc.Hex([]byte("zz-nonmember"))}})
			cases = append(cases, c13Case{Key: 0, P: p, M: m, Items: ih, Query: []string{mc.Hex([]byte("aa-nonmember"))}})
		}
	}
	// the full 64-bit value range (N*M just below 2^64): hashed values - of the set and, above all, of a
	// QUERY - may lie 2^63 or more apart, where a comparison by subtraction has the wrong sign.  The
	// members are two items whose SipHash under the all-zero key is below 2^38 (found once by scanning
	// 2^29 candidates, re-verified here), so the filters themselves stay a few bytes long.
	{
		small := [][]byte{[]byte("g-37982193"), []byte("g-336752757")}
		for _, it := range small {
			if ref.SipHash24(c13Keys[0], it) >= 1<<38 {
				panic("harness: " + string(it) + " no longer has a tiny SipHash value")
			}
		}
		var others [][]byte
		for i := 0; len(others) < 6; i++ {
			others = append(others, []byte(fmt.Sprintf("far-%d", i)))
		}
		type cfg struct {
			m   uint64
			set [][]byte
		}
		for _, cf := range []cfg{{1<<64 - 1, small[:1]}, {1<<63 - 1, small}, {1<<63 - 1, [][]byte{small[1], small[0]}}} {
			var ih []string
			for _, it := range cf.set {
				ih = append(ih, mc.Hex(it))
			}
			pool := append(append([][]byte{}, cf.set...), others...)
			for a := range pool {
				for b := range pool {
					q2 := []string{mc.Hex(pool[a]), mc.Hex(pool[b])}
					nontriv[len(cases)] = true
					cases = append(cases, c13Case{Key: 0, P: 32, M: cf.m, Items: ih, Query: q2})
					for d := range pool {
						if d != a && d != b && (a < len(cf.set) || b < len(cf.set) || d < len(cf.set)) {
							cases = append(cases, c13Case{Key: 0, P: 32, M: cf.m, Items: ih, Query: append(append([]string{}, q2...), mc.Hex(pool[d]))})
						}
					}
				}
			}
			cases = append(cases, c13Case{Key: 0, P: 32, M: cf.m, Items: ih})
		}
	}
	// item LENGTH and CONTENT: every length 0..72 and the neighbours of 128, 256, 1000, 65536, with
	// non-uniform bytes incl. values >= 0x80 (the counter-string items above are short ASCII): an item
	// hashed through a shortcut for "the common 32-byte case", or by words with a tail, takes another
	// path than a 7-byte name.  Set {a_L, b_L, four short items}; queries: none (every member through
	// every method), a member, a non-member of the same length, mixtures.
	{
		lens := []int{}
		for L := 0; L <= 72; L++ {
			lens = append(lens, L)
		}
		lens = append(lens, 127, 128, 129, 255, 256, 257, 999, 1000, 1001, 65535, 65536, 65537)
		mkItem := func(L int, tag byte) []byte {
			b := make([]byte, L)
			for i := range b {
				b[i] = byte(i*151+i>>2*29) ^ tag
			}
			if L > 0 {
				b[L-1] |= 0x80
			}
			return b
		}
		for _, L := range lens {
			a, b2, n1, n2 := mkItem(L, 0x11), mkItem(L, 0xa2), mkItem(L, 0x33), mkItem(L, 0xc4)
			ih := []string{mc.Hex(a), mc.Hex(b2), mc.Hex([]byte("s1")), mc.Hex([]byte("s2")), mc.Hex([]byte("s3")), mc.Hex([]byte("s4"))}
			if L == 0 {
				ih = ih[1:] // a and b coincide
			}
			for key := 0; key < 2; key++ {
				for _, pm := range []c13PM{{19, 784931}, {20, 1 << 20}} {
					for _, q := range [][][]byte{nil, {a}, {n1}, {n1, a}, {n1, n2, b2}, {b2, n1}, {n1, n2}} {
						var qh []string
						for _, x := range q {
							qh = append(qh, mc.Hex(x))
						}
						nontriv[len(cases)] = true
						cases = append(cases, c13Case{Key: key, P: pm.P, M: pm.M, Items: ih, Query: qh})
					}
				}
			}
		}
	}
	c.Note("quotient_ladder_sets", ladderSets)
	c.Note("configurations_with_a_low32_colliding_pair", collisionConfigs)
	if collisionConfigs == 0 {
		c.NotExhaustive("no low-32-bit colliding pair found by the scan: the HashMatchAny truncation class is not exercised")
	}
	c.Space("(key, P, M, multiset, query list)", int64(len(cases)))
	c.ParFor(int64(len(cases)), func(w *mc.W, i int64) {
		w.State()
		c13Eval(w, cases[i])
		if nontriv[int(i)] {
			w.Nontrivial(uint64(i))
		}
	})
	c.Sample("query", cases[len(cases)/3])
	c.Sample("query", cases[len(cases)-1])
	runC13Pairs(c)
}

// c13QuotientLadder: for a parameter pair with M = 140 * 2^P (unary quotients up to 139 for one
// element, 279 for two), one-element sets whose code word has every quotient length 0..139 and
// two-element sets whose first quotient is 0..7 (eight bit alignments of the second code word) and
// whose second quotient is 0..139, found by scanning items named "q-<i>".  A writer or reader that
// treats code words "that fit in a machine word" specially goes wrong at one particular length.
func c13QuotientLadder(key int, p uint8) (m uint64, sets [][][]byte) {
	m = 140 << p
	k := c13Keys[key]
	const cand = 6000
	items := make([][]byte, cand)
	v1 := make([]uint64, cand)
	v2 := make([]uint64, cand)
	for i := range items {
		items[i] = []byte(fmt.Sprintf("q-%d", i))
		v1[i] = ref.GCSValue(k, 1, m, items[i])
		v2[i] = ref.GCSValue(k, 2, m, items[i])
	}
	seen1 := map[uint64]bool{}
	for i := range items {
		if q := v1[i] >> p; q < 140 && !seen1[q] {
			seen1[q] = true
			sets = append(sets, [][]byte{items[i]})
		}
	}
	for qa := uint64(0); qa < 8; qa++ {
		a := -1
		for i := range items {
			if v2[i]>>p == qa {
				a = i
				break
			}
		}
		if a < 0 {
			continue
		}
		seen2 := map[uint64]bool{}
		for i := range items {
			if v2[i] <= v2[a] {
				continue
			}
			if q := (v2[i] - v2[a]) >> p; q < 140 && !seen2[q] {
				seen2[q] = true
				sets = append(sets, [][]byte{items[a], items[i]})
			}
		}
	}
	return
}

func c13SelfTest() {
	// SipHash-2-4 paper vector: key 00..0f, message 00..0e -> a129ca6149be45e5
	var msg []byte
	for i := 0; i < 15; i++ {
		msg = append(msg, byte(i))
	}
	if ref.SipHash24(c13Keys[1], msg) != 0xa129ca6149be45e5 {
		panic("reference SipHash-2-4 fails the paper's test vector")
	}
}

// c13FullSweepMax: up to which set size every member is queried through Match (quadratic)
func c13FullSweepMax(c *mc.Ctx) int { return mc.Pick(c, 8193, 32769) }
