package props

import (
	"encoding/json"
	"fmt"
	"math"
	"sort"
	"strconv"
	"strings"
	"sync"
	"sync/atomic"

	"github.com/gcash/bchutil"

	"verif/mc"
	"verif/ref"
)

// C17 — amounts convert between BCH floats, satoshi integers and text without loss.
//
// Integer side: for whole numbers of satoshi a, |a| <= 2.1e15, the exact value a·10^−(u+8) is
// obtained by moving the decimal point in a's digits (ref.ShiftDecimal); ToUnit must equal
// strconv.ParseFloat of that text (correctly rounded parser = trusted base) and the number
// printed by Format must denote that value exactly and be followed by the unit's label.
// Float side: NewAmount(f) must equal sign(p)·floor(|p|+1/2) of the exact value of the float64
// product p = f*1e8 (the one rounding the statement allows), be odd and monotone.

func init() {
	register(&Prop{ID: "C17", Run: runC17, Replay: map[string]func(*mc.Ctx, json.RawMessage){
		"amt":    replayer(c17EvalAmt),
		"unit":   replayer(c17EvalUnit),
		"float":  replayer(c17EvalFloat),
		"mulf64": replayer(c17EvalMul),
		"retain": replayer(c17EvalRetain),
	}})
}

// retained texts: what Format / String returned must still be that text after further calls (a
// formatter that hands out a view of a reused buffer is right at first and changes later).  Every
// sequence of <= 4 calls over 8 (amount, unit) pairs of different text lengths, run sequentially;
// each text is kept and compared with the exact rendering again at the end.
type c17Retain struct {
	Seq []int `json:"call_sequence"` // indices into c17RetainCalls
	// Calls, when set, replaces Seq: explicit (amount, unit) pairs (truncation twins)
	Calls []c17Unit `json:"calls,omitempty"`
}

var c17RetainCalls = []c17Unit{{A: 123456789, Unit: 0}, {A: 1, Unit: 0}, {A: c17Cap, Unit: -8}, {A: -5, Unit: -3}, {A: 100000000, Unit: 3},
	{A: 2099999999999999, Unit: -6}, {A: 0, Unit: 0}, {A: -c17Cap + 1, Unit: 6}}

func c17EvalRetain(w *mc.W, cas c17Retain) {
	w.Eval()
	var kept []string
	calls := cas.Calls
	for _, k := range cas.Seq {
		calls = append(calls, c17RetainCalls[k])
	}
	if msg, p := mc.Guard(func() {
		for k, cl := range calls {
			a, u := bchutil.Amount(cl.A), bchutil.AmountUnit(cl.Unit)
			if u == bchutil.AmountBCH && k%2 == 0 {
				kept = append(kept, a.String())
			} else {
				kept = append(kept, a.Format(u))
			}
		}
	}); p {
		w.Ctx().Violate("tounit-or-format-panics/call-sequence", "retain", cas, msg)
		return
	}
	for i, cl := range calls {
		var ebuf [48]byte
		exact := string(ref.AppendShiftDecimal(ebuf[:0], cl.A, cl.Unit+8))
		if stem := c17CheckText(kept[i], exact, cl.Unit); stem != "" {
			w.Ctx().Violate("text-kept-from-an-earlier-call-changed-or-wrong", "retain", cas, fmt.Sprintf("call %d: %s", i, c17TextDetail(kept[i], exact, cl.Unit)))
			return
		}
	}
	w.Outcome("call sequence: every kept text still exact")
}

const c17Cap = int64(2_100_000_000_000_000) // 21e6 coins in satoshi

type c17Amt struct {
	A int64 `json:"a"`
}
type c17Unit struct {
	A    int64 `json:"a"`
	Unit int   `json:"unit"` // decimal exponent of the unit relative to one coin
}
type c17Float struct {
	Bits string `json:"bits"` // IEEE-754 bits of f, hex
	F    string `json:"f"`    // informational rendering (%g), not used by the replayer
}
type c17Mul struct {
	A    int64  `json:"a"`
	Bits string `json:"bits"`
}

func c17FloatCase(f float64) c17Float {
	return c17Float{Bits: fmt.Sprintf("%#016x", math.Float64bits(f)), F: strconv.FormatFloat(f, 'g', -1, 64)}
}

func c17Bits(s string) float64 {
	v, err := strconv.ParseUint(s, 0, 64)
	if err != nil {
		panic("bad float bits in case: " + s)
	}
	return math.Float64frombits(v)
}

// c17Tag: the part of a violation class that separates unit families.
func c17Tag(u int) string {
	switch {
	case u < -8:
		return "exp<-8/unnamed"
	case ref.UnitNamed(u):
		return "exp>=-8/named"
	}
	return "exp>=-8/unnamed"
}

// c17CheckText applies the text clause to one printed string and returns the class stem of the
// failure ("" if it holds).
func c17CheckText(txt string, exact string, unit int) string {
	suffix := c17Suffix[unit+12]
	if !strings.HasSuffix(txt, suffix) {
		return "label-wrong"
	}
	eq, ok := ref.DecimalEqual(txt[:len(txt)-len(suffix)], exact)
	switch {
	case !ok:
		return "not-a-plain-decimal"
	case !eq:
		return "inexact"
	}
	return ""
}

func c17TextDetail(txt, exact string, unit int) string {
	return fmt.Sprintf("printed %q; the exact value is %s and the unit's label is %q", txt, exact, ref.UnitLabel(unit))
}

func c17EvalUnit(w *mc.W, cas c17Unit) {
	w.Outcome(c17Outcome[cas.Unit+12][c17UnitCore(w, cas)])
}

// c17UnitCore evaluates one (amount, unit) pair and returns 1 if the exact value has a
// fractional part, else 0 (the enumerator aggregates the outcome counts per amount).
func c17UnitCore(w *mc.W, cas c17Unit) int {
	a, u := bchutil.Amount(cas.A), bchutil.AmountUnit(cas.Unit)
	if cas.Unit < -12 || cas.Unit > 12 {
		panic("unit exponent outside -12..12 in case")
	}
	tag := c17Tag(cas.Unit)
	var ebuf [48]byte
	exact := string(ref.AppendShiftDecimal(ebuf[:0], cas.A, cas.Unit+8))
	want, err := strconv.ParseFloat(exact, 64)
	if err != nil {
		panic("harness: exact decimal does not parse: " + exact)
	}
	var got float64
	var txt string
	w.EvalN(2)
	if msg, p := mc.Guard(func() { got = a.ToUnit(u); txt = a.Format(u) }); p {
		violateCapped(w, "tounit-or-format-panics/"+tag, "unit", cas, msg)
		return 0
	}
	if got != want && violRoom(w, "tounit-not-correctly-rounded/"+tag) {
		w.Ctx().Violate("tounit-not-correctly-rounded/"+tag, "unit", cas,
			fmt.Sprintf("ToUnit = %s (%#x), nearest float64 to the exact value %s is %s (%#x)",
				strconv.FormatFloat(got, 'g', -1, 64), math.Float64bits(got), exact, strconv.FormatFloat(want, 'g', -1, 64), math.Float64bits(want)))
	}
	if stem := c17CheckText(txt, exact, cas.Unit); stem != "" && violRoom(w, "format-"+stem+"/"+tag) {
		w.Ctx().Violate("format-"+stem+"/"+tag, "unit", cas, c17TextDetail(txt, exact, cas.Unit))
	}
	frac := cas.Unit+8 > 0 && strings.TrimRight(exact[len(exact)-(cas.Unit+8):], "0") != ""
	if frac {
		return 1
	}
	return 0
}

// c17UnitsOf runs the unit exponents [lo,hi] on one amount.
func c17UnitsOf(w *mc.W, a int64, lo, hi int) {
	var cnt [3][2]int64 // by class tag: <-8, >=-8 unnamed, >=-8 named
	var rep [3]int
	for u := lo; u <= hi; u++ {
		t := 0
		if u >= -8 {
			t = 1
			if ref.UnitNamed(u) {
				t = 2
			}
		}
		rep[t] = u + 12
		cnt[t][c17UnitCore(w, c17Unit{A: a, Unit: u})]++
	}
	for t := range cnt {
		for k, n := range cnt[t] {
			if n > 0 {
				w.OutcomeN(c17Outcome[rep[t]][k], n)
			}
		}
	}
}

// per-exponent tables (index = exponent + 12)
var c17Suffix, c17Outcome = func() (s [25]string, o [25][2]string) {
	for u := -12; u <= 12; u++ {
		s[u+12] = " " + ref.UnitLabel(u)
		o[u+12][0] = "unit " + c17Tag(u) + ": value is a whole number of units"
		o[u+12][1] = "unit " + c17Tag(u) + ": value has a fractional part"
	}
	return
}()

func c17EvalAmt(w *mc.W, cas c17Amt) {
	a := bchutil.Amount(cas.A)
	var f float64
	var back bchutil.Amount
	var err error
	var str string
	w.EvalN(2)
	if msg, p := mc.Guard(func() { f = a.ToBCH(); back, err = bchutil.NewAmount(f); str = a.String() }); p {
		violateCapped(w, "roundtrip-or-string-panics", "amt", cas, msg)
		return
	}
	// ToBCH is a unit conversion of its own (not necessarily ToUnit(AmountBCH)): the correctly rounded quotient
	{
		var ebuf [48]byte
		exact := string(ref.AppendShiftDecimal(ebuf[:0], cas.A, 8))
		if want, perr := strconv.ParseFloat(exact, 64); perr == nil && f != want && violRoom(w, "tobch-not-correctly-rounded") {
			w.Ctx().Violate("tobch-not-correctly-rounded", "amt", cas, fmt.Sprintf("ToBCH = %s, nearest float64 to the exact value %s is %s", strconv.FormatFloat(f, 'g', -1, 64), exact, strconv.FormatFloat(want, 'g', -1, 64)))
		}
	}
	switch {
	case err != nil:
		violateCapped(w, "roundtrip-newamount-rejects-tobch", "amt", cas, err.Error())
	case back != a:
		violateCapped(w, "roundtrip-tobch-newamount-differs", "amt", cas, fmt.Sprintf("ToBCH = %s, NewAmount of it = %d", strconv.FormatFloat(f, 'g', -1, 64), int64(back)))
	}
	if stem := c17CheckText(str, ref.ShiftDecimal(cas.A, 8), 0); stem != "" {
		violateCapped(w, "string-"+stem, "amt", cas, c17TextDetail(str, ref.ShiftDecimal(cas.A, 8), 0))
	}
	if cas.A%100000000 == 0 {
		w.Outcome("round trip: whole coins")
	} else {
		w.Outcome("round trip: fractional coins")
		w.Nontrivial(uint64(cas.A))
	}
}

const c17Lim = float64(1 << 62)

func c17EvalFloat(w *mc.W, cas c17Float) { c17FloatCore(w, c17Bits(cas.Bits)) }

// c17FloatCore evaluates one float; the JSON case is only rendered when a violation is recorded.
func c17FloatCore(w *mc.W, f float64) {
	cas := lazyCase{f}
	next := math.Nextafter(f, math.Inf(1))
	var got, gotNeg, gotNext bchutil.Amount
	var err, errNeg error
	w.Eval()
	if msg, p := mc.Guard(func() {
		got, err = bchutil.NewAmount(f)
		gotNeg, errNeg = bchutil.NewAmount(-f)
		gotNext, _ = bchutil.NewAmount(next)
	}); p {
		violateCapped(w, "newamount-panics", "float", cas, msg)
		return
	}
	if math.IsNaN(f) || math.IsInf(f, 0) {
		w.Outcome("float: NaN or infinity")
		if err == nil || errNeg == nil {
			violateCapped(w, "newamount-accepts-nan-or-infinity", "float", cas, fmt.Sprintf("returned %d, %v / %d, %v", int64(got), err, int64(gotNeg), errNeg))
		}
		return
	}
	if err != nil || errNeg != nil {
		violateCapped(w, "newamount-rejects-finite-float", "float", cas, fmt.Sprint(err, errNeg))
		return
	}
	p := f * 1e8 // the single floating-point rounding the statement allows
	if !(math.Abs(p) < c17Lim) {
		w.Outcome("float: |f*1e8| >= 2^62, outside the statement (no-panic only)")
		return
	}
	want, ok := ref.RoundHalfAway(p)
	if big := ref.RoundHalfAwayBig(p); !ok || !big.IsInt64() || big.Int64() != want {
		panic(fmt.Sprintf("harness: the two reference roundings disagree on %v", p))
	}
	m := math.Abs(p)
	frac := 0.0
	if m < 1<<52 {
		frac = m - math.Floor(m)
	}
	if int64(got) != want {
		var region string
		switch {
		case m >= 1<<52:
			region = "integer-product-at-or-above-2^52-changed"
		case frac < 0.5 && absI64(int64(got)) == absI64(want)+1:
			region = "product-below-2^52/fraction-below-half-rounded-away"
		case frac >= 0.5 && absI64(int64(got)) == absI64(want)-1:
			region = "product-below-2^52/fraction-at-or-above-half-truncated"
		default:
			region = "product-below-2^52/other"
		}
		violateCapped(w, "newamount-rounding-wrong/"+region, "float", cas,
			fmt.Sprintf("f*1e8 = %s (%#x), nearest integer (ties away) is %d, NewAmount = %d", strconv.FormatFloat(p, 'g', -1, 64), math.Float64bits(p), want, int64(got)))
	}
	if gotNeg != -got {
		violateCapped(w, "newamount-not-odd-symmetric", "float", cas, fmt.Sprintf("NewAmount(f) = %d, NewAmount(-f) = %d", int64(got), int64(gotNeg)))
	}
	if pn := next * 1e8; math.Abs(pn) < c17Lim && gotNext < got {
		violateCapped(w, "newamount-not-monotone", "float", cas, fmt.Sprintf("NewAmount(f) = %d > NewAmount(nextafter(f,+inf)) = %d", int64(got), int64(gotNext)))
	}
	switch {
	case m >= 1<<52 && math.Mod(m, 2) == 1:
		w.Outcome("float: product is an odd integer >= 2^52")
		w.Nontrivial(math.Float64bits(f))
	case m >= 1<<52:
		w.Outcome("float: product is an even integer >= 2^52")
		w.Nontrivial(math.Float64bits(f))
	case frac == 0:
		w.Outcome("float: product is a whole number")
	case frac == 0.5:
		w.Outcome("float: product is exactly half-way")
		w.Nontrivial(math.Float64bits(f))
	case frac < 0.5:
		w.Outcome("float: fraction of the product below half")
		w.Nontrivial(math.Float64bits(f))
	default:
		w.Outcome("float: fraction of the product above half")
		w.Nontrivial(math.Float64bits(f))
	}
}

// lazyCase renders as the c17Float case of its float when marshalled.
type lazyCase struct{ f float64 }

func (l lazyCase) MarshalJSON() ([]byte, error) { return json.Marshal(c17FloatCase(l.f)) }

// violateCapped records a violation through the kernel, but only the first 2^20 of each
// class: a change that breaks (nearly) every case would otherwise make the run hold hundreds
// of millions of case hashes.  On the unchanged tree no class comes near the cap, so the
// recorded case sets are complete and independent of scheduling; beyond the cap the class is
// reported anyway and the surplus is counted in the outcome histogram.
func violateCapped(w *mc.W, class, kind string, cas any, detail string) {
	if violRoom(w, class) {
		w.Ctx().Violate(class, kind, cas, detail)
	}
}

// violRoom counts one violation of class and reports whether it is still to be recorded
// (callers with an expensive detail text ask before rendering it).
func violRoom(w *mc.W, class string) bool {
	const limit = 1 << 20
	v, ok := violCount.Load(class)
	if !ok {
		v, _ = violCount.LoadOrStore(class, new(atomic.Int64))
	}
	if v.(*atomic.Int64).Add(1) > limit {
		w.Outcome("violations beyond the first 2^20 of their class (counted, not recorded one by one)")
		return false
	}
	return true
}

var violCount sync.Map // class -> *atomic.Int64

func absI64(x int64) int64 {
	if x < 0 {
		return -x
	}
	return x
}

// MulF64 is not in the statement: no-panic only.
func c17EvalMul(w *mc.W, cas c17Mul) {
	f := c17Bits(cas.Bits)
	w.Eval()
	if msg, p := mc.Guard(func() { _ = bchutil.Amount(cas.A).MulF64(f) }); p {
		violateCapped(w, "mulf64-panics", "mulf64", cas, msg)
		return
	}
	w.Outcome("MulF64: returned")
}

// ---------------------------------------------------------------------------------------
// enumerated spaces

// c17Ivl is an arithmetic progression lo, lo+stride, … (n terms).
type c17Ivl struct{ lo, n, stride int64 }

type c17Space struct {
	iv  []c17Ivl
	cum []int64 // cum[i] = number of terms before interval i
	n   int64
}

func (s *c17Space) at(i int64) int64 {
	k := sort.Search(len(s.cum), func(j int) bool { return s.cum[j] > i }) - 1
	return s.iv[k].lo + (i-s.cum[k])*s.iv[k].stride
}

// c17Merge: union of inclusive integer ranges, clamped to [0, max].
func c17Merge(r [][2]int64, max int64) *c17Space {
	var cl [][2]int64
	for _, x := range r {
		if x[0] < 0 {
			x[0] = 0
		}
		if x[1] > max {
			x[1] = max
		}
		if x[0] <= x[1] {
			cl = append(cl, x)
		}
	}
	sort.Slice(cl, func(i, j int) bool { return cl[i][0] < cl[j][0] })
	var out [][2]int64
	for _, x := range cl {
		if n := len(out); n > 0 && x[0] <= out[n-1][1]+1 {
			if x[1] > out[n-1][1] {
				out[n-1][1] = x[1]
			}
			continue
		}
		out = append(out, x)
	}
	s := &c17Space{}
	for _, x := range out {
		s.cum = append(s.cum, s.n)
		s.iv = append(s.iv, c17Ivl{x[0], x[1] - x[0] + 1, 1})
		s.n += x[1] - x[0] + 1
	}
	return s
}

// c17Amounts: [0, base], ±rad around every power of two and of ten and around the whole-coin
// amount nearest to each power of two, and the top window [cap − top, cap].
func c17Amounts(base, rad, top int64) *c17Space {
	r := [][2]int64{{0, base}, {c17Cap - top, c17Cap}}
	for m := 0; m <= 51; m++ {
		p := int64(1) << uint(m)
		r = append(r, [2]int64{p - rad, p + rad})
		if m >= 27 {
			q := (p + 50000000) / 100000000 * 100000000
			r = append(r, [2]int64{q - rad, q + rad})
		}
	}
	for e, p := 0, int64(1); e <= 15; e, p = e+1, p*10 {
		r = append(r, [2]int64{p - rad, p + rad})
	}
	return c17Merge(r, c17Cap)
}

// c17Products: the integers k that the product f*1e8 is steered onto.
func c17Products(base, rad, radBig, radTop int64) *c17Space {
	r := [][2]int64{{0, base}}
	for m := 0; m <= 53; m++ {
		p := int64(1) << uint(m)
		r = append(r, [2]int64{p - rad, p + rad})
	}
	for _, p := range []int64{1 << 31, 1 << 32, 100000000, c17Cap} {
		r = append(r, [2]int64{p - radBig, p + radBig})
	}
	for _, p := range []int64{1 << 52, 1<<52 + 1<<51, 1 << 53} {
		r = append(r, [2]int64{p - radTop, p + radTop})
	}
	s := c17Merge(r, 1<<53+radBig)
	// above 2^53 consecutive integers collapse onto the same float: step by the float spacing
	for m := 54; m <= 62; m++ {
		p := int64(1) << uint(m)
		st := int64(1) << uint(m-53) // spacing just below 2^m
		rr := rad
		if m == 62 {
			rr = radTop
		}
		s.cum = append(s.cum, s.n)
		s.iv = append(s.iv, c17Ivl{p - rr*st, 2*rr + 1, st})
		s.n += 2*rr + 1
	}
	return s
}

func nextN(x float64, n int) float64 {
	for ; n > 0; n-- {
		x = math.Nextafter(x, math.Inf(1))
	}
	for ; n < 0; n++ {
		x = math.Nextafter(x, math.Inf(-1))
	}
	return x
}

var c17SpecialBits = []uint64{
	0x7ff8000000000000, 0x7ff8000000000001, 0x7ff0000000000001, 0x7fffffffffffffff, 0xfff8000000000000, 0xfff0000000000001, // NaNs
	0x7ff0000000000000, 0xfff0000000000000, // infinities
	0x0000000000000000, 0x8000000000000000, // zeros
	0x0000000000000001, 0x8000000000000001, 0x000fffffffffffff, 0x800fffffffffffff, // subnormals
	0x0010000000000000, 0x8010000000000000, // smallest normal
	0x7fefffffffffffff, 0xffefffffffffffff, // largest finite (product overflows: outside the statement)
	0x3ff0000000000000, 0xbff0000000000000, 0x3fe0000000000000, 0x3ff8000000000000, // 1, -1, 0.5, 1.5
}

var c17Units = func() []int {
	var u []int
	for e := -12; e <= 12; e++ {
		u = append(u, e)
	}
	return u
}()

func runC17(c *mc.Ctx) {
	c.Rule("integer side: every enumerated amount is run through the real ToBCH/NewAmount/String and, for every unit exponent, ToUnit/Format, against the exact decimal obtained by moving the decimal point; float side: floats are constructed so that f*1e8 falls on and next to integers and half-integers and NewAmount is compared with exact rounding of that product. non-trivial = amounts that are not whole coins (ToBCH has to round; every such amount also has fractional values in the larger units); floats whose product has a fractional part or is >= 2^52")
	c.Assume("strconv.ParseFloat is correctly rounded (trusted base; cross-checked against math/big.Rat on [0,2^10], the top 2^10 amounts and around 2^m, all 25 exponents, at start)")
	c.Assume("the float64 product f*1e8 computed by the harness equals the one computed inside NewAmount (amd64, no fused multiply-add across the call)")
	c.Assume("outside the bound: amounts between the enumerated windows (2.1e15 amounts cannot all be visited); |a| > 2.1e15; floats whose product is not within a few ulps of an enumerated integer or half-integer; MulF64 results (not in the statement, no-panic only)")

	// self-check of the trusted base
	for _, a := range func() []int64 {
		var l []int64
		for a := int64(0); a <= 1<<10; a++ {
			l = append(l, a, c17Cap-a)
		}
		for m := 11; m <= 50; m++ {
			for d := int64(-3); d <= 3; d++ {
				l = append(l, int64(1)<<uint(m)+d)
			}
		}
		return l
	}() {
		for _, u := range c17Units {
			for _, s := range []int64{a, -a} {
				pf, err := strconv.ParseFloat(ref.ShiftDecimal(s, u+8), 64)
				if qr := ref.QuotientRat(s, u+8); err != nil || pf != qr {
					panic(fmt.Sprintf("harness: ParseFloat(%s) = %v but big.Rat gives %v", ref.ShiftDecimal(s, u+8), pf, qr))
				}
			}
		}
	}

	// (F) the first conversion a process ever makes: every unit exponent x 3 amounts through
	// ToUnit+Format, every unit through Format (String for whole coins) alone, the round trip and the
	// float side, each as the first library call of a process of its own (mc.FreshAll)
	{
		var units, texts, amts, floats []any
		for _, u := range c17Units {
			for _, a := range []int64{123456789, 0, -1} {
				units = append(units, c17Unit{A: a, Unit: u})
			}
			texts = append(texts, c17Retain{Calls: []c17Unit{{A: 2099999999999999, Unit: u}}})
		}
		for _, a := range []int64{123456789, 0, -c17Cap} {
			amts = append(amts, c17Amt{A: a})
		}
		floats = append(floats, c17FloatCase(1.5e-8), c17FloatCase(-20999999.99999999))
		c.Space("first conversion of a fresh process: 25 unit exponents x 3 amounts (ToUnit, Format), 25 x Format/String alone, 3 round trips, 2 floats; one process each", int64(len(units)+len(texts)+len(amts)+len(floats)))
		c.FreshAll("unit", units)
		c.FreshAll("retain", texts)
		c.FreshAll("amt", amts)
		c.FreshAll("float", floats)
	}
	// (0) retained texts, sequentially and first
	{
		n := len(c17RetainCalls)
		var cases []c17Retain
		for l := 2; l <= mc.Pick(c, 4, 5); l++ {
			for i := int64(0); i < ipow(n, l); i++ {
				seq := make([]int, l)
				x := i
				for j := l - 1; j >= 0; j-- {
					seq[j] = int(x % int64(n))
					x /= int64(n)
				}
				cases = append(cases, c17Retain{Seq: seq})
			}
		}
		// truncation twins: two amounts that agree in their low k bits (k around 8..50), formatted one
		// after the other with the same unit: a memo keyed by a narrowed amount answers with the wrong text
		for _, a := range []int64{123456789, 1, 99999999, 0, 2099999999999999} {
			for _, k := range []uint{8, 15, 16, 24, 31, 32, 33, 40, 47, 48, 49, 50} {
				for _, u := range []int{0, -8, 3} {
					for _, b := range []int64{a + 1<<k, a - 1<<k} {
						if b > c17Cap || b < -c17Cap {
							continue
						}
						cases = append(cases, c17Retain{Calls: []c17Unit{{A: a, Unit: u}, {A: b, Unit: u}}}, c17Retain{Calls: []c17Unit{{A: b, Unit: u}, {A: a, Unit: u}, {A: b, Unit: u}}})
					}
				}
			}
		}
		c.Space("sequences of 2..4(5) Format/String calls over 8 (amount, unit) pairs and over pairs of amounts that agree in their low k bits, every text kept and re-examined at the end", int64(len(cases)))
		w := c.Worker()
		for _, cs := range cases {
			w.State()
			c17EvalRetain(w, cs)
		}
		w.Done()
		c.Sample("retain", cases[len(cases)/2])
	}
	// (A) integer side, every unit exponent -12..12, round trip, String
	full := c17Amounts(mc.Pick[int64](c, 1<<22, 1<<24), mc.Pick[int64](c, 1<<12, 1<<15), mc.Pick[int64](c, 1<<20, 1<<23))
	c.Space("amounts (both signs): [0,base] + windows around 2^m, 10^e, whole-coin amounts nearest 2^m + top window below 2.1e15; each with round trip, String and 25 unit exponents -12..12", 2*full.n-1)
	c.ParFor(2*full.n, func(w *mc.W, i int64) {
		a := full.at(i / 2)
		if i%2 == 1 {
			if a == 0 {
				return
			}
			a = -a
		}
		w.State()
		c17EvalAmt(w, c17Amt{A: a})
		c17UnitsOf(w, a, -12, 12)
	})
	// (B) amounts whose decimal digits are sparse: a formatter or divider that works on groups of
	// digits goes wrong on a group of zeros or nines at a particular offset.  Every amount <= cap with
	// at most 3 non-zero digits from {1,5,9}, and every amount that is all nines (1..15 of them) with
	// at most 2 digits replaced by {0,8}.
	{
		var sp []int64
		pow := make([]int64, 17)
		pow[0] = 1
		for i := 1; i < 17; i++ {
			pow[i] = pow[i-1] * 10
		}
		ds := []int64{1, 5, 9}
		for p1 := 0; p1 < 16; p1++ {
			for _, d1 := range ds {
				a1 := d1 * pow[p1]
				sp = append(sp, a1)
				for p2 := 0; p2 < p1; p2++ {
					for _, d2 := range ds {
						a2 := a1 + d2*pow[p2]
						sp = append(sp, a2)
						for p3 := 0; p3 < p2; p3++ {
							for _, d3 := range ds {
								sp = append(sp, a2+d3*pow[p3])
							}
						}
					}
				}
			}
		}
		for L := 1; L <= 16; L++ {
			nines := pow[L] - 1
			sp = append(sp, nines)
			for p1 := 0; p1 < L; p1++ {
				for _, d1 := range []int64{9, 1} { // subtract 9 (-> 0) or 1 (-> 8)
					a1 := nines - d1*pow[p1]
					sp = append(sp, a1)
					for p2 := 0; p2 < p1; p2++ {
						sp = append(sp, a1-9*pow[p2])
					}
				}
			}
		}
		var keep []int64
		for _, a := range sp {
			if a >= 0 && a <= c17Cap {
				keep = append(keep, a)
			}
		}
		c.Space("amounts (both signs) with sparse decimal digits (<= 3 non-zero digits of {1,5,9}; all nines with <= 2 digits replaced), each with round trip, String and 25 unit exponents", int64(2*len(keep)))
		c.ParFor(int64(2*len(keep)), func(w *mc.W, i int64) {
			a := keep[i/2]
			if i%2 == 1 {
				a = -a
			}
			w.State()
			c17EvalAmt(w, c17Amt{A: a})
			c17UnitsOf(w, a, -12, 12)
		})
	}
	// (B3) MID-RANGE amounts with DENSE digits: the windows above sit at powers of two, powers of ten
	// and whole coins, the sparse family has at most three non-zero digits - an error that depends on
	// the particular mantissa of a quotient (two roundings instead of one, a precision one digit short)
	// shows at neither.  Three lattices across the whole range [0, 2.1e15]: multiples of an odd stride
	// near 2.0e9 (2^20 points; thorough 2^23 with a stride near 2.5e8), the amounts
	// 123456789012345 - 97k and 2099999997690000 - 1000003k (2^18 points each), both signs, each
	// with round trip, String and every unit exponent.
	{
		n1, s1 := mc.Pick[int64](c, 1<<20, 1<<23), mc.Pick[int64](c, 2002999993, 250374997)
		n2 := int64(1 << 18)
		c.Space("amounts (both signs) on three lattices across the whole range (dense decimal digits, far from powers of two and ten), each with round trip, String and 25 unit exponents", 2*(n1+2*n2))
		c.ParFor(2*(n1+2*n2), func(w *mc.W, i int64) {
			k := i / 2
			var a int64
			switch {
			case k < n1:
				a = k * s1
			case k < n1+n2:
				a = 123456789012345 - 97*(k-n1)
			default:
				a = 2099999997690000 - 1000003*(k-n1-n2)
			}
			if a > c17Cap {
				return
			}
			if i%2 == 1 {
				a = -a
			}
			w.State()
			c17EvalAmt(w, c17Amt{A: a})
			c17UnitsOf(w, a, -12, 12)
		})
	}
	// (B4) runs of 2^20 (2^23) CONSECUTIVE amounts starting just above 10^e and 3*10^e for e = 9..15: an
	// error that occurs once in 10^5..10^6 amounts of one decade (two roundings in a split conversion)
	// is not met by windows of 2^12 amounts nor by lattices with a few thousand points per decade.
	// Round trip, ToBCH and String for each (the 25 unit exponents are left to the families above).
	{
		run := mc.Pick[int64](c, 1<<20, 1<<23)
		var starts []int64
		p10 := int64(1_000_000_000)
		for e := 9; e <= 15; e++ {
			for _, m := range []int64{1, 3} {
				if st := m*p10 + 12345; st+run <= c17Cap {
					starts = append(starts, st)
				}
			}
			p10 *= 10
		}
		c.Space("runs of consecutive amounts just above 10^e and 3*10^e, e = 9..15 (both signs): round trip, ToBCH, String", 2*run*int64(len(starts)))
		c.ParFor(2*run*int64(len(starts)), func(w *mc.W, i int64) {
			a := starts[(i/2)/run] + (i/2)%run
			if i%2 == 1 {
				a = -a
			}
			w.State()
			c17EvalAmt(w, c17Amt{A: a})
		})
	}
	c.Sample("amt", c17Amt{A: c17Cap - 1})
	c.Sample("unit", c17Unit{A: 123456789, Unit: -3})
	c.Sample("unit", c17Unit{A: -c17Cap + 1, Unit: 12})

	// (C) float side: for every k, targets t in {k-1/2, k, k+1/2}; for each of the 9 floats p'
	// within 4 steps of t, the float p'/1e8 and its 2 neighbours on each side; both signs.
	prod := c17Products(mc.Pick[int64](c, 1<<16, 1<<20), mc.Pick[int64](c, 1<<6, 1<<8), mc.Pick[int64](c, 1<<10, 1<<14), mc.Pick[int64](c, 1<<8, 1<<10))
	const perK = 3 * 9 * 5 * 2
	var nFloat int64
	for i := int64(0); i < prod.n; i++ {
		if prod.at(i) >= 1<<52 {
			nFloat += perK / 3
		} else {
			nFloat += perK
		}
	}
	c.Space("floats: k x {k-1/2,k,k+1/2} x 9 neighbouring products x 5 neighbouring quotients x sign (k >= 2^52: target k only)", nFloat)
	c.ParFor(prod.n*perK, func(w *mc.W, i int64) {
		k := prod.at(i / perK)
		j := int(i % perK)
		sign, fo, po, ti := j%2, (j/2)%5-2, (j/10)%9-4, j/90
		if k >= 1<<52 && ti != 1 {
			return // k ± 1/2 is not a float64 there: the three targets coincide
		}
		t := float64(k) + []float64{-0.5, 0, 0.5}[ti]
		pt := nextN(t, po)
		f := nextN(pt/1e8, fo)
		if fo == 0 {
			// does any of the five quotients land on the intended product?
			hit := false
			for d := -2; d <= 2; d++ {
				if nextN(pt/1e8, d)*1e8 == pt {
					hit = true
				}
			}
			if sign == 0 {
				if hit {
					w.Outcome("enumerator: intended product reached by some f")
				} else {
					w.Outcome("enumerator: intended product not the image of any f")
				}
			}
		}
		if sign == 1 {
			f = -f
		}
		w.State()
		c17FloatCore(w, f)
	})
	// the same float neighbourhoods around mid-range targets k on a lattice (dense digits)
	{
		nk, sk := mc.Pick[int64](c, 1<<15, 1<<18), mc.Pick[int64](c, 64087999991, 8010999997)
		c.Space("floats: lattice of mid-range k x {k-1/2,k,k+1/2} x 9 neighbouring products x 5 neighbouring quotients x sign", nk*perK)
		c.ParFor(nk*perK, func(w *mc.W, i int64) {
			k := (i/perK)*sk + 12345
			if k > c17Cap {
				return
			}
			j := int(i % perK)
			sign, fo, po, ti := j%2, (j/2)%5-2, (j/10)%9-4, j/90
			t := float64(k) + []float64{-0.5, 0, 0.5}[ti]
			f := nextN(nextN(t, po)/1e8, fo)
			if sign == 1 {
				f = -f
			}
			w.State()
			c17FloatCore(w, f)
		})
	}
	c.Space("special floats (NaNs, infinities, zeros, subnormals, extremes)", int64(len(c17SpecialBits)))
	w := c.Worker()
	for _, b := range c17SpecialBits {
		w.State()
		c17EvalFloat(w, c17FloatCase(math.Float64frombits(b)))
	}
	c.Sample("float", c17FloatCase(1.5e-8))
	c.Sample("float", c17FloatCase(math.NaN()))

	// (D) MulF64: no-panic only
	amts := []int64{0, 1, -1, 3, c17Cap, -c17Cap, math.MaxInt64, math.MinInt64}
	c.Space("MulF64 (no-panic): amounts x special floats", int64(len(amts)*len(c17SpecialBits)))
	for _, a := range amts {
		for _, b := range c17SpecialBits {
			w.State()
			c17EvalMul(w, c17Mul{A: a, Bits: fmt.Sprintf("%#016x", b)})
		}
	}
	w.Done()
	c.Sample("mulf64", c17Mul{A: 3, Bits: "0x3ff8000000000000"})
}
