package props

import (
	"bytes"
	"fmt"

	"github.com/gcash/bchd/chaincfg/chainhash"
	"github.com/gcash/bchd/wire"
	"github.com/gcash/bchutil"
	"github.com/gcash/bchutil/bloom"
	"github.com/gcash/bchutil/merkleblock"

	"verif/mc"
	"verif/ref"
)

// C11, filter-induced subsets on blocks with spend relations.  "The two proof builders in the library
// produce identical messages and index lists for the same block and filter" - also when the filter
// updates itself while the block is scanned (outputs that match insert their outpoints, so a
// transaction can be relevant only because of another one, earlier or later in the block), for every
// update flag and every block order.  Both builders get a filter loaded from the same bytes; the
// messages must be byte-identical, the index lists equal, and extraction must return the block's
// merkle root with exactly those positions.
type c11Graph struct {
	Txs   []c10BTx `json:"txs"`
	Order []int    `json:"order"`
	Flags int      `json:"flags"`
}

func c11EvalGraph(w *mc.W, cas c11Graph) { c11EvalGraphBuilt(w, cas, c10BuildTxs(cas.Txs)) }

func c11EvalGraphBuilt(w *mc.W, cas c11Graph, built *c10Built) {
	c := w.Ctx()
	w.Eval()
	blk := wire.NewMsgBlock(fixedHeader(1, &chainhash.Hash{}, &chainhash.Hash{}, 0, 0))
	var ids []ref.Hash32
	for _, k := range cas.Order {
		blk.AddTransaction(built.txs[k])
		ids = append(ids, ref.Hash32(built.ids[k]))
	}
	root := ref.MerkleRoot(ids)
	blk.Header.MerkleRoot = chainhash.Hash(root)
	model := ref.NewBloom(make([]byte, 512), 10, 7, byte(cas.Flags))
	model.Insert(c10K1)
	model.Insert(c10H1)
	e1 := c10ExtOutPoint(1)
	model.Insert(ref.OutPointBytes(e1.Hash, e1.Index))
	type res struct {
		name string
		msg  *wire.MsgMerkleBlock
		idx  []uint32
	}
	var rs []res
	for _, name := range []string{"merkleblock.NewMerkleBlockWithFilter", "bloom.NewMerkleBlock"} {
		f := bloom.LoadFilter(wire.NewMsgFilterLoad(model.Bytes(), 10, 7, wire.BloomUpdateType(cas.Flags)))
		var msg *wire.MsgMerkleBlock
		var idx []uint32
		if m, p := mc.Guard(func() {
			if name == "bloom.NewMerkleBlock" {
				msg, idx = bloom.NewMerkleBlock(bchutil.NewBlock(blk), f)
			} else {
				msg, idx = merkleblock.NewMerkleBlockWithFilter(bchutil.NewBlock(blk), f)
			}
		}); p {
			c.Violate("builder-panics/"+name, "graph", cas, m)
			return
		}
		w.Trans()
		rs = append(rs, res{name, msg, idx})
		// the message is the canonical tree of the reported subset, and extraction returns it
		matched := make([]bool, len(ids))
		for _, i := range idx {
			if int(i) < len(matched) {
				matched[i] = true
			}
		}
		wantHashes, wantFlags := ref.PMTBuild(ids, matched)
		same := len(msg.Hashes) == len(wantHashes) && bytes.Equal(msg.Flags, wantFlags) && msg.Transactions == uint32(len(ids))
		for i := 0; same && i < len(wantHashes); i++ {
			same = msg.Hashes[i] != nil && ref.Hash32(*msg.Hashes[i]) == wantHashes[i]
		}
		if !same {
			c.Violate("message-is-not-the-canonical-tree-of-the-reported-subset/"+name, "graph", cas, fmt.Sprintf("indices %v", idx))
		}
		pb := merkleblock.NewMerkleBlockFromMsg(*msg)
		if r := pb.ExtractMatches(); r == nil || ref.Hash32(*r) != root || fmt.Sprint(pb.GetItems()) != fmt.Sprint(idx) {
			c.Violate("extraction-does-not-return-root-and-reported-positions/"+name, "graph", cas, fmt.Sprintf("items %v, reported %v", pb.GetItems(), idx))
		}
	}
	var b0, b1 bytes.Buffer
	rs[0].msg.BchEncode(&b0, wire.ProtocolVersion, wire.BaseEncoding)
	rs[1].msg.BchEncode(&b1, wire.ProtocolVersion, wire.BaseEncoding)
	if !bytes.Equal(b0.Bytes(), b1.Bytes()) || fmt.Sprint(rs[0].idx) != fmt.Sprint(rs[1].idx) {
		c.Violate("the-two-proof-builders-disagree", "graph", cas, fmt.Sprintf("%s: %v, %s: %v", rs[0].name, rs[0].idx, rs[1].name, rs[1].idx))
	}
	if len(rs[0].idx) > 0 && len(rs[0].idx) < len(ids) {
		w.Outcome("spend graph: proper filter-induced subset")
		w.Nontrivial(mc.HashString(fmt.Sprint(cas)))
	} else {
		w.Outcome("spend graph: empty or full filter-induced subset")
	}
}

func runC11Graphs(c *mc.Ctx) {
	type fam struct {
		n, maxIns int
		alpha     []string
	}
	fams := []fam{{1, 2, []string{"W", "H", "U", "WU", "M"}}, {2, 2, []string{"W", "H", "U", "WU", "M"}}, {3, 1, []string{"W", "U", "M"}}}
	if c.Thorough() {
		fams = append(fams, fam{3, 2, []string{"W", "H", "U", "M"}})
	}
	for _, fm := range fams {
		graphs := c10Graphs(fm.n, fm.alpha, fm.maxIns)
		perms := permutations(fm.n)
		c.Space(fmt.Sprintf("spend graphs on %d transactions (<= %d inputs) x %d block orders x 3 update flags, both proof builders", fm.n, fm.maxIns, len(perms)), int64(len(graphs)*len(perms)*3))
		c.ParFor(int64(len(graphs)), func(w *mc.W, gi int64) {
			built := c10BuildTxs(graphs[gi])
			for _, perm := range perms {
				for fl := 0; fl < 3; fl++ {
					w.State()
					c11EvalGraphBuilt(w, c11Graph{Txs: graphs[gi], Order: perm, Flags: fl}, built)
				}
			}
		})
	}
	c.Sample("graph", c11Graph{Txs: []c10BTx{{Ins: []string{"E0"}, Outs: "W"}, {Ins: []string{"0.0"}, Outs: "U"}}, Order: []int{1, 0}, Flags: 2})
}
