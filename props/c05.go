package props

import (
	"bytes"
	"encoding/json"
	"fmt"
	"math/big"

	"github.com/gcash/bchutil/hdkeychain"

	"verif/mc"
	"verif/ref"
)

// C05 — extended-key strings round-trip and are strictly validated.

func init() {
	register(&Prop{ID: "C05", Run: runC05, Replay: map[string]func(*mc.Ctx, json.RawMessage){
		"twins": replayer(c05EvalTwins),
		"rt":    replayer(c05EvalRoundTrip),
		"raw":   replayer(c05EvalRaw),
	}})
}

// round trip of a key reachable by derivation
type c05RT struct {
	Net    string   `json:"net"`
	Seed   string   `json:"seed_hex"`
	Path   []uint32 `json:"path"`
	Public bool     `json:"public"`
	// Earlier: a string parsed in the same process BEFORE the key's own string is parsed back: "twin"
	// = the same key material under another identity (public: the other Y parity; private: another
	// network's version bytes), "self" = the very same string.  What a parse returns must not depend
	// on what was parsed before.
	Earlier string `json:"parsed_first,omitempty"`
}

func c05EvalRoundTrip(w *mc.W, cas c05RT) {
	c := w.Ctx()
	w.Eval()
	fail := func(class, detail string) { c.Violate(class, "rt", cas, detail) }
	msg, p := mc.Guard(func() {
		k, err := hdkeychain.NewMaster(mc.UnHex(cas.Seed), netParams[cas.Net])
		if err != nil {
			panic("harness: master failed: " + err.Error())
		}
		for _, i := range cas.Path {
			k, err = k.Child(i)
			if err != nil {
				panic("harness: child failed: " + err.Error())
			}
			w.Trans()
		}
		if cas.Public {
			k, _ = k.Neuter()
		}
		s := k.String()
		// the string must be what the reference derives (binds this check to C04's model)
		x, _ := c04RefDerive(mc.UnHex(cas.Seed), cas.Path, -1)
		if cas.Public {
			x = x.Neuter()
		}
		if want := x.String(refNet(cas.Net)); s != want {
			fail("produced-string-differs-from-bip32", fmt.Sprintf("got %s want %s", s, want))
		}
		if cas.Earlier != "" {
			es := s
			if cas.Earlier == "twin" {
				rn := refNet(cas.Net)
				v := rn.HDPriv
				if cas.Public {
					v = rn.HDPub
				}
				pl := x.Payload(v)
				if cas.Public {
					pl[45] ^= 0x01 // 02 <-> 03: the negated point, a valid key of its own
				} else {
					other := refNet("testnet3").HDPriv
					if cas.Net == "testnet3" {
						other = refNet("mainnet").HDPriv
					}
					copy(pl[:4], other[:])
				}
				ck := ref.DoubleSHA256(pl)
				es = ref.B58Encode(append(pl, ck[:4]...))
			}
			if ek, err := hdkeychain.NewKeyFromString(es); err == nil && ek != nil {
				ek.Child(0) // use it, so that whatever it memoises is filled in
				defer ek.IsPrivate()
			}
		}
		k2, err := hdkeychain.NewKeyFromString(s)
		if err != nil {
			fail("own-string-rejected", err.Error())
			return
		}
		if k2.String() != s {
			fail("roundtrip-serialisation-differs", k2.String())
		}
		if k2.IsPrivate() != k.IsPrivate() || k2.Depth() != k.Depth() || k2.ParentFingerprint() != k.ParentFingerprint() {
			fail("roundtrip-fields-differ", fmt.Sprintf("private %v/%v depth %d/%d fp %x/%x", k2.IsPrivate(), k.IsPrivate(), k2.Depth(), k.Depth(), k2.ParentFingerprint(), k.ParentFingerprint()))
		}
		if !k2.IsForNet(netParams[cas.Net]) {
			fail("roundtrip-network-lost", "")
		}
		for _, i := range []uint32{0, 1 << 31} {
			c1, e1 := k.Child(i)
			c2, e2 := k2.Child(i)
			w.Trans()
			if (e1 == nil) != (e2 == nil) || (e1 == nil && c1.String() != c2.String()) || (e1 != nil && e1 != e2) {
				fail("roundtrip-derivation-behaviour-differs", fmt.Sprintf("Child(%d): %v / %v", i, e1, e2))
			}
		}
		// zeroing a parsed key must not reach into what a later parse of the same string returns
		k2.Zero()
		if k3, err := hdkeychain.NewKeyFromString(s); err != nil {
			fail("own-string-rejected-after-an-earlier-parse-was-zeroed", err.Error())
		} else {
			if k3.String() != s {
				fail("roundtrip-serialisation-differs-after-an-earlier-parse-was-zeroed", k3.String())
			}
			c1, e1 := k.Child(0)
			c3, e3 := k3.Child(0)
			if (e1 == nil) != (e3 == nil) || e1 == nil && c1.String() != c3.String() {
				fail("roundtrip-derivation-behaviour-differs-after-an-earlier-parse-was-zeroed", fmt.Sprintf("Child(0): %v / %v", e1, e3))
			}
		}
		if x.Private && x.K.BitLen() <= 248 {
			w.Outcome("round trip: leading-zero scalar")
			w.Nontrivial(mc.HashString(s))
		} else if cas.Public {
			w.Outcome("round trip: public key")
		} else {
			w.Outcome("round trip: private key")
		}
	})
	if p {
		fail("panic", msg)
	}
}

// raw: an arbitrary decoded byte string (any length), optionally with the last 4 bytes replaced by
// the correct checksum; the string is its Base58 encoding (by the reference), optionally prefixed by
// '1' characters.
type c05Raw struct {
	Hex    string `json:"decoded_hex"`
	FixSum bool   `json:"recompute_checksum"`
	Ones   int    `json:"leading_ones"`
	Why    string `json:"what"`
	// StrHex, when set, is the string itself (hex of its bytes): characters are substituted at the
	// string level, including bytes outside the Base58 alphabet
	StrHex string `json:"string_hex,omitempty"`
}

func (cas c05Raw) build() (string, []byte) {
	if cas.StrHex != "" {
		s := string(mc.UnHex(cas.StrHex))
		b, good := ref.B58Decode(s)
		if !good {
			b = nil
		}
		return s, b
	}
	b := mc.UnHex(cas.Hex)
	if cas.FixSum && len(b) >= 4 {
		ck := ref.DoubleSHA256(b[:len(b)-4])
		copy(b[len(b)-4:], ck[:4])
	}
	s := ref.B58Encode(b)
	for i := 0; i < cas.Ones; i++ {
		s = "1" + s
		b = append([]byte{0}, b...)
	}
	return s, b
}

func c05EvalRaw(w *mc.W, cas c05Raw) {
	c := w.Ctx()
	w.Eval()
	s, b := cas.build()
	var k *hdkeychain.ExtendedKey
	var err error
	if msg, p := mc.Guard(func() { k, err = hdkeychain.NewKeyFromString(s) }); p {
		c.Violate("parser-panics", "raw", cas, msg)
		return
	}
	valid := len(b) == 82
	if valid {
		ck := ref.DoubleSHA256(b[:78])
		for i := 0; i < 4; i++ {
			if ck[i] != b[78+i] {
				valid = false
			}
		}
	}
	if valid && !ref.XValidPayload(b[:78]) {
		valid = false
	}
	if err != nil {
		w.Outcome("rejected: " + cas.Why)
		if valid {
			// The statement demands acceptance only of keys the library itself produces (the round-trip
			// family); for arbitrary well-formed payloads a refusal is allowed.  Counted, not reported.
			w.Outcome("rejected although well-formed (allowed): " + cas.Why)
		}
		return
	}
	w.Outcome("accepted: " + cas.Why)
	w.Nontrivial(mc.HashString(s))
	if !valid {
		c.Violate("accepts-invalid-extended-key/"+cas.Why, "raw", cas, s)
		return
	}
	var re string
	if msg, p := mc.Guard(func() { re = k.String() }); p {
		c.Violate("accepted-key-string-panics", "raw", cas, msg)
		return
	}
	if re != s {
		c.Violate("accepted-key-does-not-reserialise-to-itself/"+cas.Why, "raw", cas, fmt.Sprintf("%s -> %s", s, re))
	}
}

// twins: two different valid extended private keys whose string checksums are equal, parsed alternately
type c05Twins struct {
	A string `json:"key_a"`
	B string `json:"key_b"`
}

// c05TwinPayload: the 78-byte payload of a depth-1 private key whose scalar carries the counter
func c05TwinPayload(i uint32) []byte {
	p := append([]byte{}, ref.Nets[0].HDPriv[:]...)
	p = append(p, 1, 1, 2, 3, 4, 0, 0, 0, 5)
	p = append(p, bytes.Repeat([]byte{0x77}, 32)...)
	p = append(p, 0x00, 0x01, 0x42, byte(i>>24), byte(i>>16), byte(i>>8), byte(i))
	return append(p, bytes.Repeat([]byte{0x5c}, 26)...)
}

func c05EvalTwins(w *mc.W, cas c05Twins) {
	c := w.Ctx()
	for round, s := range []string{cas.A, cas.B, cas.A, cas.B} {
		w.Eval()
		k, err := hdkeychain.NewKeyFromString(s)
		if err != nil {
			continue // a refusal is allowed
		}
		if re := k.String(); re != s {
			c.Violate("accepted-key-does-not-reserialise-to-itself/checksum twins", "twins", cas, fmt.Sprintf("parse %d: %s -> %s", round, s, re))
			return
		}
		// derivation behaviour must be that of THIS string's key material
		b, _ := ref.B58Decode(s)
		x := &ref.XKey{Private: true, K: new(big.Int).SetBytes(b[46:78]), ChainCode: b[13:45], Depth: int(b[4]), ParentFP: b[5:9], ChildNum: uint32(b[9])<<24 | uint32(b[10])<<16 | uint32(b[11])<<8 | uint32(b[12])}
		x.P = ref.SecBaseMulFast(x.K)
		for _, i := range []uint32{0, 1 << 31} {
			cx, st := x.Child(i)
			ck, err := k.Child(i)
			if st != "ok" || err != nil {
				continue
			}
			if ck.String() != cx.String(ref.Nets[0]) {
				c.Violate("parsed-key-derives-like-another-string's-key", "twins", cas, fmt.Sprintf("parse %d of %s: Child(%d) = %s, BIP32 says %s", round, s, i, ck.String(), cx.String(ref.Nets[0])))
				return
			}
		}
	}
	w.Outcome("checksum twins parsed alternately: each its own key")
}

func runC05(c *mc.Ctx) {
	c04SelfTest()
	// first, sequentially: two different valid xprv strings with EQUAL checksums, parsed alternately
	{
		enc := func(p []byte) string {
			ck := ref.DoubleSHA256(p)
			return ref.B58Encode(append(append([]byte{}, p...), ck[:4]...))
		}
		a, b, ok := checksumTwins(c05TwinPayload, 1<<20)
		if ok {
			cas := c05Twins{A: enc(a), B: enc(b)}
			w := c.Worker()
			w.State()
			c05EvalTwins(w, cas)
			w.Done()
			c.Sample("twins", cas)
			c.Space("pairs of valid extended keys with equal string checksums, parsed alternately", 1)
		} else {
			c.NotExhaustive("no checksum twins found within 2^20 candidates")
		}
	}
	c.Rule("round trip of every key of a derivation tree; for 6 base keys every single-bit flip and every single-byte substitution of the 82 decoded bytes (checksum not fixed => must be rejected), every single-bit flip with recomputed checksum, boundary scalars, every key-type byte x {on-curve, off-curve, >=p} X, lengths 77..79/81..83, leading-'1' variants; acceptance must equal the reference validity predicate and accepted strings must re-serialise to themselves; non-trivial = accepted mutated strings and leading-zero scalars")
	c.Assume("reference secp256k1 / Base58 / double-SHA256 models are correct")

	// ---- round trips of keys that nothing else in this run parses, each after its twin / itself was
	// parsed first; run first and sequentially, so that a process-wide cache inside the parser is in
	// the state these cases are about
	{
		var first []c05RT
		for i, idx := range []uint32{0, 1, 2, 3, 1 << 31, 1<<31 + 1, 1<<31 + 2, 1<<31 + 3} {
			for _, pub := range []bool{true, false} {
				e := "twin"
				if i%4 == 3 {
					e = "self"
				}
				first = append(first, c05RT{Net: []string{"mainnet", "testnet3"}[i%2], Seed: bip32Vectors[1].seed, Path: []uint32{idx}, Public: pub, Earlier: e})
			}
		}
		c.Space("round trips after a twin (other Y parity / other network) or the same string was parsed first", int64(len(first)))
		w := c.Worker()
		for _, rt := range first {
			w.State()
			c05EvalRoundTrip(w, rt)
		}
		w.Done()
		c.Sample("rt", first[0])
	}
	// ---- round trips
	var rts []c05RT
	seeds := []string{bip32Vectors[0].seed, bip32Vectors[2].seed}
	nets := []string{"mainnet", "testnet3", "simnet", "regtest"}
	for si, s := range seeds {
		var rec func(path []uint32)
		rec = func(path []uint32) {
			for _, pub := range []bool{false, true} {
				rts = append(rts, c05RT{Net: nets[(si+len(path))%len(nets)], Seed: s, Path: append([]uint32{}, path...), Public: pub})
			}
			if len(path) == 2 {
				return
			}
			for _, i := range c04Indices {
				rec(append(path, i))
			}
		}
		rec(nil)
	}
	// leading-zero scalars from a wide scan (reference side, cached with C04)
	found := 0
	N := mc.Pick(c, 2048, 16384)
	for i := 0; i < N && found < 24; i++ {
		idx := uint32(i) | 1<<31
		x, st := c04RefDerive(mc.UnHex(seeds[0]), []uint32{idx}, -1)
		if st == "ok" && (x.K.BitLen() <= 248 || x.P.X.BitLen() <= 248) {
			found++
			rts = append(rts, c05RT{Net: "mainnet", Seed: seeds[0], Path: []uint32{idx}}, c05RT{Net: "mainnet", Seed: seeds[0], Path: []uint32{idx}, Public: true})
		}
	}
	// scalars with two or more leading zero bytes (reference-only scan of hardened children, see C04)
	{
		m, _, _ := c04RefMaster(mc.UnHex(seeds[0]))
		n2 := 0
		for i := int64(0); i < int64(mc.Pick(c, 1<<19, 1<<21)) && n2 < 8; i++ {
			idx := uint32(i) | 1<<31
			if k, _, ok := ref.HardenedChildScalar(m.K, m.ChainCode, idx); ok && k.BitLen() <= 240 {
				n2++
				rts = append(rts, c05RT{Net: "mainnet", Seed: seeds[0], Path: []uint32{idx}}, c05RT{Net: "mainnet", Seed: seeds[0], Path: []uint32{idx, 1 << 31}})
			}
		}
		c.Note("double_zero_scalars_round_tripped", n2)
	}
	// depth 255
	{
		var path []uint32
		for d := 0; d < 255; d++ {
			path = append(path, c04Indices[d%3])
		}
		rts = append(rts, c05RT{Net: "mainnet", Seed: seeds[0], Path: path}, c05RT{Net: "mainnet", Seed: seeds[0], Path: path, Public: true})
	}
	c.Space("round trips of derived keys", int64(len(rts)))
	c.ParFor(int64(len(rts)), func(w *mc.W, i int64) {
		w.State()
		c05EvalRoundTrip(w, rts[i])
	})
	c.Sample("rt", rts[3])

	// ---- corruptions of base keys
	type baseKey struct {
		payload []byte
	}
	var bases [][]byte
	for _, rt := range []c05RT{{Net: "mainnet", Seed: seeds[0]}, {Net: "mainnet", Seed: seeds[0], Public: true},
		{Net: "testnet3", Seed: seeds[1], Path: []uint32{1 << 31, 1}}, {Net: "testnet3", Seed: seeds[1], Path: []uint32{1 << 31, 1}, Public: true},
		{Net: "simnet", Seed: seeds[0], Path: []uint32{0}}, {Net: "simnet", Seed: seeds[0], Path: []uint32{0}, Public: true}} {
		x, _ := c04RefDerive(mc.UnHex(rt.Seed), rt.Path, -1)
		if rt.Public {
			x = x.Neuter()
		}
		rn := refNet(rt.Net)
		v := rn.HDPriv
		if rt.Public {
			v = rn.HDPub
		}
		bases = append(bases, x.Payload(v))
	}
	if c.Quick() {
		bases = bases[:4]
	}
	var raws []c05Raw
	full := func(p []byte) []byte {
		ck := ref.DoubleSHA256(p)
		return append(append([]byte{}, p...), ck[:4]...)
	}
	for _, p := range bases {
		f := full(p)
		raws = append(raws, c05Raw{Hex: mc.Hex(f), Why: "unmodified"})
		// every byte value at every position of the string itself
		str := ref.B58Encode(f)
		for pos := 0; pos < len(str); pos++ {
			for v := 0; v < 256; v++ {
				if byte(v) == str[pos] {
					continue
				}
				m := []byte(str)
				m[pos] = byte(v)
				raws = append(raws, c05Raw{StrHex: mc.Hex(m), Why: "one character of the string replaced by another byte value"})
				raws = append(raws, c05Raw{StrHex: mc.Hex([]byte(str[:pos] + string([]byte{byte(v)}) + str[pos:])), Why: "one byte inserted into the string"})
				if pos == len(str)-1 { // ... and appended behind the last character
					raws = append(raws, c05Raw{StrHex: mc.Hex([]byte(str + string([]byte{byte(v)}))), Why: "one byte appended to the string"})
				}
			}
		}
		for _, fr := range []string{" ", "\t", "\n", "\r", "\r\n", "\x00", "\n\n", "\ufeff"} { // framing a line-oriented reader might strip
			raws = append(raws, c05Raw{StrHex: mc.Hex([]byte(str + fr)), Why: "valid string followed by white space / a terminator"},
				c05Raw{StrHex: mc.Hex([]byte(fr + str)), Why: "valid string preceded by white space / a terminator"},
				c05Raw{StrHex: mc.Hex([]byte(fr + str + fr)), Why: "valid string framed by white space / terminators"})
		}
		for _, m := range runeSubstitutions(str) {
			raws = append(raws, c05Raw{StrHex: mc.Hex([]byte(m)), Why: "one character of the string replaced by a multi-byte character a rune-wise decoder may take for it"})
		}
		// (a) no checksum fix: single-bit flips, single-byte substitutions
		for bit := 0; bit < 82*8; bit++ {
			m := append([]byte{}, f...)
			m[bit/8] ^= 1 << uint(bit%8)
			raws = append(raws, c05Raw{Hex: mc.Hex(m), Why: "bit flip, checksum not recomputed"})
		}
		for pos := 0; pos < 82; pos++ {
			for v := 0; v < 256; v++ {
				if byte(v) == f[pos] {
					continue
				}
				m := append([]byte{}, f...)
				m[pos] = byte(v)
				raws = append(raws, c05Raw{Hex: mc.Hex(m), Why: "byte substitution, checksum not recomputed"})
			}
		}
		for _, m := range checksumPatterns() { // checksum corruptions of weight <= 2 bits, byte values, cancelling pairs
			mm := append([]byte{}, f...)
			for i := 0; i < 4; i++ {
				mm[78+i] ^= m[i]
			}
			raws = append(raws, c05Raw{Hex: mc.Hex(mm), Why: "checksum corrupted (pattern)"})
		}
		// (b) recomputed checksum
		for bit := 0; bit < 78*8; bit++ {
			m := append([]byte{}, f...)
			m[bit/8] ^= 1 << uint(bit%8)
			raws = append(raws, c05Raw{Hex: mc.Hex(m), FixSum: true, Why: "payload bit flip, checksum recomputed"})
		}
		// scalars
		n := ref.SecN
		scal := []*big.Int{big.NewInt(0), big.NewInt(1), new(big.Int).Sub(n, big.NewInt(1)), n, new(big.Int).Add(n, big.NewInt(1)),
			new(big.Int).Sub(new(big.Int).Lsh(big.NewInt(1), 256), big.NewInt(1))}
		// the comparison with n done limb by limb: scalars that differ from n in ONE limb only (that limb
		// zero, all ones, one less, one more) for limb widths of 8, 16, 32 and 64 bits, n +- 2^k and
		// 2^256 - 2^k for every k - above n in some limbs and below it in others
		{
			two256 := new(big.Int).Lsh(big.NewInt(1), 256)
			seen := map[string]bool{}
			addS := func(v *big.Int) {
				if v.Sign() >= 0 && v.Cmp(two256) < 0 && !seen[v.String()] {
					seen[v.String()] = true
					scal = append(scal, v)
				}
			}
			for k := uint(0); k < 256; k++ {
				pk := new(big.Int).Lsh(big.NewInt(1), k)
				addS(new(big.Int).Add(n, pk))
				addS(new(big.Int).Sub(n, pk))
				addS(new(big.Int).Sub(two256, pk))
			}
			for _, wd := range []uint{8, 16, 32, 64} {
				mask := new(big.Int).Sub(new(big.Int).Lsh(big.NewInt(1), wd), big.NewInt(1))
				for pos := uint(0); pos < 256; pos += wd {
					m := new(big.Int).Lsh(mask, pos)
					cleared := new(big.Int).AndNot(n, m)
					limb := new(big.Int).Rsh(new(big.Int).And(n, m), pos)
					addS(cleared)
					addS(new(big.Int).Or(cleared, m))
					for _, d := range []int64{-1, 1} {
						l2 := new(big.Int).Add(limb, big.NewInt(d))
						if l2.Sign() >= 0 && l2.Cmp(mask) <= 0 {
							addS(new(big.Int).Or(cleared, new(big.Int).Lsh(l2, pos)))
						}
					}
				}
			}
		}
		for _, k := range scal {
			m := append([]byte{}, f...)
			m[45] = 0
			kb := k.Bytes()
			for i := 46; i < 78; i++ {
				m[i] = 0
			}
			copy(m[78-len(kb):78], kb)
			raws = append(raws, c05Raw{Hex: mc.Hex(m), FixSum: true, Why: "boundary scalar"})
		}
		// key-type byte x X shapes
		g := ref.SecG()
		xOn := g.X
		xOff := new(big.Int).Set(g.X)
		for {
			xOff.Add(xOff, big.NewInt(1))
			if _, ok := ref.SecLiftX(xOff, false); !ok {
				break
			}
		}
		xGe := new(big.Int).Add(ref.SecP, big.NewInt(1))
		for t := 0; t < 256; t++ {
			for _, xv := range []*big.Int{xOn, xOff, xGe} {
				m := append([]byte{}, f...)
				m[45] = byte(t)
				xb := xv.Bytes()
				for i := 46; i < 78; i++ {
					m[i] = 0
				}
				copy(m[78-len(xb):78], xb)
				raws = append(raws, c05Raw{Hex: mc.Hex(m), FixSum: true, Why: "key type byte x X shape"})
			}
		}
		// lengths
		lensP := []int{0, 4, 77, 79, 80, 81}
		if p[0] == bases[0][0] && string(p) == string(bases[0]) { // every payload length 0..700 for the first base key (78 + 256 and 78 + 512 lie inside)
			lensP = lensP[:0]
			for L := 0; L <= 700; L++ {
				if L != 78 {
					lensP = append(lensP, L)
				}
			}
		}
		for _, L := range lensP {
			// payload of L bytes + checksum
			var pl []byte
			if L <= 78 {
				pl = append([]byte{}, p[:L]...)
			} else {
				pl = append(append([]byte{}, p...), make([]byte, L-78)...)
			}
			raws = append(raws, c05Raw{Hex: mc.Hex(append(pl, 0, 0, 0, 0)), FixSum: true, Why: "wrong length"})
			if L > 78 { // ... and with the checksum of the first 78 bytes at the end
				ck := ref.DoubleSHA256(pl[:78])
				raws = append(raws, c05Raw{Hex: mc.Hex(append(append([]byte{}, pl...), ck[:4]...)), Why: "wrong length, checksum over the first 78 bytes"})
			}
		}
		// leading ones
		raws = append(raws, c05Raw{Hex: mc.Hex(f), Ones: 1, Why: "extra leading 1"})
		raws = append(raws, c05Raw{Hex: mc.Hex(f[1:]), FixSum: false, Ones: 1, Why: "first byte replaced by a leading 1"})
		// version bytes zero (so the string has leading '1's) with fixed checksum: valid by the statement
		m := append([]byte{}, f...)
		m[0], m[1] = 0, 0
		raws = append(raws, c05Raw{Hex: mc.Hex(m), FixSum: true, Why: "zero version bytes"})
	}
	c.Space("mutations of base keys", int64(len(raws)))
	c.ParFor(int64(len(raws)), func(w *mc.W, i int64) {
		w.State()
		c05EvalRaw(w, raws[i])
	})
	c.Sample("raw", raws[1])
	c.Sample("raw", raws[len(raws)-1])
}
