package props

import (
	"bytes"
	"encoding/json"
	"fmt"
	"github.com/gcash/bchd/chaincfg"
	"math/big"
	"strings"

	"github.com/gcash/bchd/bchec"
	"github.com/gcash/bchutil"

	"verif/mc"
	"verif/ref"
)

// C06 — WIF strings round-trip, are canonical and checksum-guarded.

func init() {
	register(&Prop{ID: "C06", Run: runC06, Replay: map[string]func(*mc.Ctx, json.RawMessage){
		"key":   replayer(c06EvalKey),
		"raw":   replayer(c06EvalRaw),
		"twins": replayer(c06EvalTwins),
	}})
}

type c06Key struct {
	// Net: a built-in network, or "wif:<id>" = a network of the caller's own (a chaincfg.Params value
	// with that PrivateKeyID; NewWIF / IsForNet take the parameter set as given)
	Net        string `json:"net"`
	Scalar     string `json:"scalar_hex"` // 32 bytes
	Compressed bool   `json:"compressed"`
}

func c06EvalKey(w *mc.W, cas c06Key) {
	c := w.Ctx()
	w.Eval()
	fail := func(class, detail string) { c.Violate(class, "key", cas, detail) }
	kb := mc.UnHex(cas.Scalar)
	var rn ref.Net
	params := netParams[cas.Net]
	if strings.HasPrefix(cas.Net, "wif:") {
		var id int
		fmt.Sscanf(cas.Net[4:], "%d", &id)
		p := chaincfg.SimNetParams
		p.Name, p.PrivateKeyID = cas.Net, byte(id)
		params, rn = &p, ref.Net{Name: cas.Net, WIFID: byte(id)}
	} else {
		rn = refNet(cas.Net)
	}
	msg, p := mc.Guard(func() {
		priv, _ := bchec.PrivKeyFromBytes(bchec.S256(), kb)
		wif, err := bchutil.NewWIF(priv, params, cas.Compressed)
		if err != nil {
			fail("newwif-fails", err.Error())
			return
		}
		s := wif.String()
		if want := ref.WIFEncode(rn.WIFID, kb, cas.Compressed); s != want {
			fail("wif-string-differs-from-spec", fmt.Sprintf("got %s want %s", s, want))
		}
		pt := ref.SecBaseMulFast(new(big.Int).SetBytes(kb))
		wantPub := pt.Uncompressed()
		if cas.Compressed {
			wantPub = pt.Compressed()
		}
		if got := wif.SerializePubKey(); !bytes.Equal(got, wantPub) {
			fail("public-key-serialisation-wrong", fmt.Sprintf("got %x want %x", got, wantPub))
		}
		d, err := bchutil.DecodeWIF(s)
		if err != nil {
			fail("own-wif-rejected", err.Error())
			return
		}
		got := d.PrivKey.D.Bytes()
		if !bytes.Equal(append(make([]byte, 32-len(got)), got...), kb) {
			fail("roundtrip-key-bytes-differ", fmt.Sprintf("%x", got))
		}
		if d.CompressPubKey != cas.Compressed {
			fail("roundtrip-compression-flag-differs", "")
		}
		for _, n := range ref.Nets {
			if d.IsForNet(netParams[n.Name]) != (n.WIFID == rn.WIFID) {
				fail("roundtrip-network-identity-wrong", n.Name)
			}
		}
		if d.String() != s {
			fail("roundtrip-reencode-differs", d.String())
		}
		if !bytes.Equal(d.SerializePubKey(), wantPub) {
			fail("decoded-public-key-serialisation-wrong", "")
		}
		// the owner of a decoded WIF wipes it (big.Int fields set in place, as wallets do); an independent
		// decode of the same string afterwards returns the key again
		{
			d1, err1 := bchutil.DecodeWIF(s)
			if err1 == nil && d1 != nil && d1.PrivKey != nil && d1.PrivKey.D != nil {
				d1.PrivKey.D.SetInt64(0)
				if d1.PrivKey.X != nil && d1.PrivKey.Y != nil {
					d1.PrivKey.X.SetInt64(7)
					d1.PrivKey.Y.SetInt64(0)
				}
				sp := d1.SerializePubKey()
				for i := range sp {
					sp[i] = 0xee
				}
			}
			d2, err2 := bchutil.DecodeWIF(s)
			if err2 != nil {
				fail("second-decode-fails-after-the-first-result-was-wiped", err2.Error())
			} else {
				g2 := d2.PrivKey.D.Bytes()
				if len(g2) > 32 || !bytes.Equal(append(make([]byte, 32-len(g2)), g2...), kb) {
					fail("second-decode-returns-the-wiped-key-of-the-first", fmt.Sprintf("%x", g2))
				} else if d2.String() != s || !bytes.Equal(d2.SerializePubKey(), wantPub) {
					fail("second-decode-differs-after-the-first-result-was-wiped", d2.String())
				}
			}
		}
		// WIF is a plain struct with exported fields: the string is a function of the fields AS THEY
		// ARE when String is called (a caller re-exporting an imported legacy key as compressed sets
		// the flag; one rotating a key sets PrivKey).  Anything remembered from the decoded string or
		// from an earlier String call must not survive a field assignment.
		otherKey := make([]byte, 32)
		copy(otherKey, kb)
		otherKey[31] ^= 0x5a
		otherKey[7] ^= 0x01
		if new(big.Int).SetBytes(otherKey).Sign() == 0 {
			otherKey[31] = 1
		}
		oPriv, _ := bchec.PrivKeyFromBytes(bchec.S256(), otherKey)
		oPt := ref.SecBaseMulFast(new(big.Int).SetBytes(otherKey))
		for wi, x := range []*bchutil.WIF{wif, d} {
			who := []string{"NewWIF", "DecodeWIF"}[wi]
			x.CompressPubKey = !cas.Compressed
			if got, want := x.String(), ref.WIFEncode(rn.WIFID, kb, !cas.Compressed); got != want {
				fail("string-ignores-the-compression-flag-assigned-after-"+who, fmt.Sprintf("got %s want %s", got, want))
			}
			wp := pt.Compressed()
			if cas.Compressed {
				wp = pt.Uncompressed()
			}
			if !bytes.Equal(x.SerializePubKey(), wp) {
				fail("public-key-ignores-the-compression-flag-assigned-after-"+who, "")
			}
			x.CompressPubKey = cas.Compressed
			if got := x.String(); got != s {
				fail("string-wrong-after-flag-assigned-back-after-"+who, got)
			}
			x.PrivKey = oPriv
			if got, want := x.String(), ref.WIFEncode(rn.WIFID, otherKey, cas.Compressed); got != want {
				fail("string-ignores-the-key-assigned-after-"+who, fmt.Sprintf("got %s want %s", got, want))
			}
			wp = oPt.Uncompressed()
			if cas.Compressed {
				wp = oPt.Compressed()
			}
			if !bytes.Equal(x.SerializePubKey(), wp) {
				fail("public-key-ignores-the-key-assigned-after-"+who, "")
			}
		}
		if kb[0] == 0 {
			w.Outcome("round trip: scalar with leading zero bytes")
			w.Nontrivial(mc.HashString(cas.Scalar, cas.Net))
		} else {
			w.Outcome("round trip: full-width scalar")
		}
	})
	if p {
		fail("panic", msg)
	}
}

type c06Raw struct {
	Hex    string `json:"decoded_hex"`
	FixSum bool   `json:"recompute_checksum"`
	Why    string `json:"what"`
	// StrHex, when set, is the string itself (hex of its bytes), for substitutions at the string level
	StrHex string `json:"string_hex,omitempty"`
}

func c06EvalRaw(w *mc.W, cas c06Raw) {
	c := w.Ctx()
	w.Eval()
	b := mc.UnHex(cas.Hex)
	if cas.FixSum && len(b) >= 4 {
		ck := ref.DoubleSHA256(b[:len(b)-4])
		copy(b[len(b)-4:], ck[:4])
	}
	s := ref.B58Encode(b)
	if cas.StrHex != "" {
		s = string(mc.UnHex(cas.StrHex))
	}
	var d *bchutil.WIF
	var err error
	if msg, p := mc.Guard(func() { d, err = bchutil.DecodeWIF(s) }); p {
		c.Violate("decodewif-panics", "raw", cas, msg)
		return
	}
	netID, key, comp, valid := ref.WIFValid(s)
	if err != nil {
		w.Outcome("rejected: " + cas.Why)
		if valid {
			// "A string is accepted ONLY IF ...": a refusal of a well-formed payload is allowed (the strings
			// NewWIF produces are demanded back by the key family).  Counted, not reported.
			w.Outcome("rejected although well-formed (allowed): " + cas.Why)
		}
		return
	}
	w.Outcome("accepted: " + cas.Why)
	w.Nontrivial(mc.HashString(s))
	if !valid {
		c.Violate("accepts-invalid-wif/"+cas.Why, "raw", cas, s)
		return
	}
	var re string
	if msg, p := mc.Guard(func() { re = d.String() }); p {
		c.Violate("accepted-wif-string-panics", "raw", cas, msg)
		return
	}
	if re != s {
		c.Violate("accepted-wif-does-not-reencode-to-itself/"+cas.Why, "raw", cas, fmt.Sprintf("%s -> %s", s, re))
	}
	got := d.PrivKey.D.Bytes()
	if len(got) <= 32 && !bytes.Equal(append(make([]byte, 32-len(got)), got...), key) || d.CompressPubKey != comp {
		c.Violate("accepted-wif-decodes-to-wrong-key", "raw", cas, "")
	}
	for _, n := range ref.Nets {
		if d.IsForNet(netParams[n.Name]) != (n.WIFID == netID) {
			c.Violate("accepted-wif-network-identity-wrong", "raw", cas, n.Name)
		}
	}
}

// twins: two different valid WIF strings whose checksums are equal, decoded alternately in one process
type c06Twins struct {
	A string `json:"wif_a"`
	B string `json:"wif_b"`
}

func c06EvalTwins(w *mc.W, cas c06Twins) {
	c := w.Ctx()
	for round, s := range []string{cas.A, cas.B, cas.A, cas.B} {
		w.Eval()
		_, key, comp, valid := ref.WIFValid(s)
		if !valid {
			panic("harness: twin is not a valid WIF")
		}
		var d *bchutil.WIF
		var err error
		if msg, p := mc.Guard(func() { d, err = bchutil.DecodeWIF(s) }); p {
			c.Violate("decodewif-panics", "twins", cas, msg)
			return
		}
		if err != nil {
			continue // a refusal is allowed
		}
		got := d.PrivKey.D.Bytes()
		if len(got) > 32 || !bytes.Equal(append(make([]byte, 32-len(got)), got...), key) || d.CompressPubKey != comp {
			c.Violate("decoded-wif-is-another-string's-key", "twins", cas, fmt.Sprintf("decode %d (%s) returned key %x", round, s, got))
			return
		}
		if re := d.String(); re != s {
			c.Violate("accepted-wif-does-not-reencode-to-itself/checksum twins", "twins", cas, fmt.Sprintf("%s -> %s", s, re))
			return
		}
		pt := ref.SecBaseMulFast(new(big.Int).SetBytes(key))
		want := pt.Uncompressed()
		if comp {
			want = pt.Compressed()
		}
		if !bytes.Equal(d.SerializePubKey(), want) {
			c.Violate("decoded-public-key-serialisation-wrong", "twins", cas, fmt.Sprintf("decode %d", round))
			return
		}
	}
	w.Outcome("checksum twins decoded alternately: each its own key")
}

func runC06(c *mc.Ctx) {
	// first, sequentially: pairs of different valid strings with EQUAL checksums (birthday search), decoded
	// alternately - what a decoder keeps from one call must not answer for another string
	for _, v := range []struct {
		id   byte
		comp bool
	}{{0x80, true}, {0x80, false}, {0xef, true}} {
		a, b, ok := checksumTwins(func(i uint32) []byte {
			p := make([]byte, 0, 34)
			p = append(p, v.id, 0x01, 0x42)
			p = append(p, byte(i>>24), byte(i>>16), byte(i>>8), byte(i))
			p = append(p, bytes.Repeat([]byte{0x5c}, 26)...)
			if v.comp {
				p = append(p, 0x01)
			}
			return p
		}, 1<<20)
		if !ok {
			c.NotExhaustive("no checksum twins found within 2^20 candidates")
			continue
		}
		enc := func(p []byte) string {
			ck := ref.DoubleSHA256(p)
			return ref.B58Encode(append(append([]byte{}, p...), ck[:4]...))
		}
		w := c.Worker()
		w.State()
		cas := c06Twins{A: enc(a), B: enc(b)}
		c06EvalTwins(w, cas)
		w.Done()
		c.Sample("twins", cas)
	}
	c.Space("pairs of valid WIF strings with equal checksums, decoded alternately", 3)

	c.Rule("scalars {1,2,n-1,n-2,2^255, one with k leading zero bytes for k=1..31, walking bits} x {compressed,uncompressed} x 6 nets round-tripped and compared with the reference WIF encoder and secp256k1 serialisation; decoded payloads of every length 0..45 with a correct checksum, every compression-marker byte, every single-bit flip with and without recomputed checksum: acceptance must equal the statement's rule and accepted strings re-encode to themselves; non-trivial = accepted raw strings and leading-zero scalars")
	c.Assume("reference secp256k1 / Base58 / double-SHA256 models are correct")

	var scalars [][]byte
	n := ref.SecN
	for _, k := range []*big.Int{big.NewInt(1), big.NewInt(2), new(big.Int).Sub(n, big.NewInt(1)), new(big.Int).Sub(n, big.NewInt(2)), new(big.Int).Lsh(big.NewInt(1), 255)} {
		b := k.Bytes()
		scalars = append(scalars, append(make([]byte, 32-len(b)), b...))
	}
	scalars = append(scalars, bytes.Repeat([]byte{0xff}, 32), append(bytes.Repeat([]byte{0x77}, 31), 0x01))
	for _, k := range shortCoordScalars() { // public points with two leading zero bytes in X or Y, both Y parities
		b := k.Bytes()
		scalars = append(scalars, append(make([]byte, 32-len(b)), b...))
	}
	for _, tp := range testPoints() { // incl. points with one leading zero byte in a coordinate
		b := tp.K.Bytes()
		scalars = append(scalars, append(make([]byte, 32-len(b)), b...))
	}
	for z := 1; z <= 31; z++ {
		b := make([]byte, 32)
		for i := z; i < 32; i++ {
			b[i] = byte(0x80 + i)
		}
		scalars = append(scalars, b)
	}
	if c.Thorough() {
		for bit := 0; bit < 256; bit++ {
			b := make([]byte, 32)
			b[bit/8] = 0x80 >> uint(bit%8)
			scalars = append(scalars, b)
		}
	}
	var keys []c06Key
	for _, net := range ref.Nets {
		for _, s := range scalars {
			for _, comp := range []bool{false, true} {
				keys = append(keys, c06Key{Net: net.Name, Scalar: mc.Hex(s), Compressed: comp})
			}
		}
	}
	// networks of the caller's own with private-key identifiers at the ends of the byte range (0x00
	// makes the strings start with '1' characters and shorter than usual; 0xff longer)
	for _, id := range []int{0x00, 0x01, 0x7f, 0xfe, 0xff} {
		for _, s := range scalars {
			for _, comp := range []bool{false, true} {
				keys = append(keys, c06Key{Net: fmt.Sprintf("wif:%d", id), Scalar: mc.Hex(s), Compressed: comp})
			}
		}
	}
	c.Space("net x scalar x compression", int64(len(keys)))
	c.ParFor(int64(len(keys)), func(w *mc.W, i int64) {
		w.State()
		c06EvalKey(w, keys[i])
	})
	c.Sample("key", keys[11])

	var raws []c06Raw
	mk := func(L int, f byte) []byte {
		b := make([]byte, L)
		for i := range b {
			b[i] = f + byte(i)
		}
		return b
	}
	for L := 0; L <= 600; L++ { // beyond 37 + 256 and 38 + 512: a length kept in a narrow type wraps back into the accepted values
		for _, f := range []byte{0x80, 0x00, 0xef} {
			raws = append(raws, c06Raw{Hex: mc.Hex(mk(L, f)), FixSum: true, Why: fmt.Sprintf("length %d, checksum over all but the last 4 bytes", L)})
		}
		// checksum computed under the other convention: over the first 33 (or 34) bytes regardless of length
		if L >= 37 {
			b := mk(L, 0x80)
			ck := ref.DoubleSHA256(b[:33])
			copy(b[L-4:], ck[:4])
			raws = append(raws, c06Raw{Hex: mc.Hex(b), Why: fmt.Sprintf("length %d, checksum over the first 33 bytes", L)})
			b2 := mk(L, 0x80)
			if L >= 38 {
				b2[33] = 1
				ck := ref.DoubleSHA256(b2[:34])
				copy(b2[L-4:], ck[:4])
				raws = append(raws, c06Raw{Hex: mc.Hex(b2), Why: fmt.Sprintf("length %d, checksum over the first 34 bytes", L)})
			}
		}
	}
	for L := 38; L <= 600; L++ { // byte 33 is the compression marker 0x01 but the payload is longer than 38 bytes
		b := mk(L, 0x80)
		b[33] = 1
		raws = append(raws, c06Raw{Hex: mc.Hex(b), FixSum: true, Why: fmt.Sprintf("length %d with 0x01 at the marker position", L)})
	}
	for _, comp := range []bool{false, true} {
		base := append([]byte{0x80}, scalars[8]...)
		if comp {
			base = append(base, 1)
		}
		ck := ref.DoubleSHA256(base)
		full := append(append([]byte{}, base...), ck[:4]...)
		for m := 0; m < 256; m++ { // compression marker byte
			if comp {
				b := append([]byte{}, full...)
				b[33] = byte(m)
				raws = append(raws, c06Raw{Hex: mc.Hex(b), FixSum: true, Why: "compression marker byte value"})
			}
		}
		for bit := 0; bit < len(full)*8; bit++ {
			b := append([]byte{}, full...)
			b[bit/8] ^= 1 << uint(bit%8)
			raws = append(raws, c06Raw{Hex: mc.Hex(b), Why: "bit flip, checksum not recomputed"})
			if bit < len(base)*8 {
				raws = append(raws, c06Raw{Hex: mc.Hex(b), FixSum: true, Why: "bit flip, checksum recomputed"})
			}
		}
		for _, m := range checksumPatterns() { // checksum corruptions of weight <= 2 bits, byte values, cancelling pairs
			b := append([]byte{}, full...)
			for i := 0; i < 4; i++ {
				b[len(b)-4+i] ^= m[i]
			}
			raws = append(raws, c06Raw{Hex: mc.Hex(b), Why: "checksum corrupted (pattern)"})
		}
		str := ref.B58Encode(full) // every byte value at every position of the string itself
		for pos := 0; pos < len(str); pos++ {
			for v := 0; v < 256; v++ {
				if byte(v) != str[pos] {
					m := []byte(str)
					m[pos] = byte(v)
					raws = append(raws, c06Raw{StrHex: mc.Hex(m), Why: "one character of the string replaced by another byte value"})
					raws = append(raws, c06Raw{StrHex: mc.Hex([]byte(str[:pos] + string([]byte{byte(v)}) + str[pos:])), Why: "one byte inserted into the string"})
					if pos == len(str)-1 { // ... and appended behind the last character
						raws = append(raws, c06Raw{StrHex: mc.Hex([]byte(str + string([]byte{byte(v)}))), Why: "one byte appended to the string"})
					}
				}
			}
		}
		for _, fr := range []string{" ", "\t", "\n", "\r", "\r\n", "\x00", "\n\n", "\ufeff"} { // framing a line-oriented reader might strip
			raws = append(raws, c06Raw{StrHex: mc.Hex([]byte(str + fr)), Why: "valid string followed by white space / a terminator"},
				c06Raw{StrHex: mc.Hex([]byte(fr + str)), Why: "valid string preceded by white space / a terminator"},
				c06Raw{StrHex: mc.Hex([]byte(fr + str + fr)), Why: "valid string framed by white space / terminators"})
		}
		for _, m := range runeSubstitutions(str) {
			raws = append(raws, c06Raw{StrHex: mc.Hex([]byte(m)), Why: "one character of the string replaced by a multi-byte character a rune-wise decoder may take for it"})
		}
		for v := 0; v < 256; v++ { // every network byte
			b := append([]byte{}, full...)
			b[0] = byte(v)
			raws = append(raws, c06Raw{Hex: mc.Hex(b), FixSum: true, Why: "network byte value"})
		}
	}
	// key bytes at and around the ends of the scalar range (the statement puts no range condition on
	// the 32 key bytes: such strings are accepted and must re-encode to themselves byte for byte)
	for _, k := range []*big.Int{big.NewInt(0), big.NewInt(1), new(big.Int).Sub(n, big.NewInt(1)), n, new(big.Int).Add(n, big.NewInt(1)),
		new(big.Int).Sub(new(big.Int).Lsh(big.NewInt(1), 256), big.NewInt(1)), new(big.Int).Lsh(big.NewInt(1), 248), new(big.Int).Lsh(n, 0).Rsh(n, 8)} {
		kb := k.Bytes()
		kb = append(make([]byte, 32-len(kb)), kb...)
		for _, id := range []byte{0x80, 0xef} {
			for _, tail := range [][]byte{{}, {0x01}} {
				b := append(append(append([]byte{id}, kb...), tail...), 0, 0, 0, 0)
				raws = append(raws, c06Raw{Hex: mc.Hex(b), FixSum: true, Why: "key bytes at the ends of the scalar range"})
			}
		}
	}
	c.Space("raw decoded payload variants", int64(len(raws)))
	c.ParFor(int64(len(raws)), func(w *mc.W, i int64) {
		w.State()
		c06EvalRaw(w, raws[i])
	})
	c.Sample("raw", raws[120])
}
