package props

import (
	"encoding/binary"
	"fmt"
	"math/big"
	"sync"

	"github.com/gcash/bchutil/hdkeychain"

	"verif/mc"
	"verif/ref"
)

// C04, fingerprint twins.  BIP32 identifies a parent in its children's serialisation by the first
// four bytes of Hash160(public key) - an identifier, not a key: two different parents share it with
// probability 2^-32.  Code that keys anything (a cache of parsed points, a memo of derived children)
// by the fingerprint confuses such parents, and no family of "natural" keys contains a pair.  A
// pair is CONSTRUCTED: the points G, 2G, 3G, ... are walked (one point addition each) until two of
// them have the same fingerprint (birthday: about 2^17 points); both are made public extended keys
// with the same chain code, and children are derived from them alternately - each must be the
// BIP32 child of its own parent.

type c04Twin struct {
	K1    uint64   `json:"first_parent_is_k_times_G"`
	K2    uint64   `json:"second_parent_is_k_times_G"`
	Order []string `json:"derivations"` // "a:<index>" / "b:<index>": which parent derives which child, in this order
}

var (
	c04TwinOnce sync.Once
	c04TwinKs   [][2]uint64
)

func c04FindTwins(want int) [][2]uint64 {
	c04TwinOnce.Do(func() {
		seen := make(map[uint32]uint64, 1<<18)
		g := ref.SecG()
		p := ref.SecG()
		for k := uint64(1); k <= 600000 && len(c04TwinKs) < want; k++ {
			if k > 1 {
				p = ref.SecAdd(p, g)
			}
			fp := binary.BigEndian.Uint32(ref.Hash160(p.Compressed())[:4])
			if k0, ok := seen[fp]; ok {
				c04TwinKs = append(c04TwinKs, [2]uint64{k0, k})
				continue
			}
			seen[fp] = k
		}
	})
	return c04TwinKs
}

func c04TwinKey(k uint64) (*hdkeychain.ExtendedKey, *ref.XKey) {
	p := ref.SecBaseMulFast(new(big.Int).SetUint64(k))
	cc := make([]byte, 32)
	for i := range cc {
		cc[i] = byte(0x40 + i)
	}
	x := &ref.XKey{Private: false, P: p, ChainCode: cc, Depth: 1, ParentFP: []byte{1, 2, 3, 4}, ChildNum: 7}
	ek := hdkeychain.NewExtendedKey(append([]byte{}, ref.Nets[0].HDPub[:]...), p.Compressed(), append([]byte{}, cc...), []byte{1, 2, 3, 4}, 1, 7, false)
	return ek, x
}

func c04EvalTwin(w *mc.W, cas c04Twin) {
	c := w.Ctx()
	w.Eval()
	ka, xa := c04TwinKey(cas.K1)
	kb, xb := c04TwinKey(cas.K2)
	if fmt.Sprintf("%x", ref.Hash160(xa.P.Compressed())[:4]) != fmt.Sprintf("%x", ref.Hash160(xb.P.Compressed())[:4]) || xa.P.X.Cmp(xb.P.X) == 0 {
		panic("c04: not a fingerprint twin pair")
	}
	msg, p := mc.Guard(func() {
		for step, d := range cas.Order {
			var idx uint32
			fmt.Sscanf(d[2:], "%d", &idx)
			par, xp, who := ka, xa, "first"
			if d[0] == 'b' {
				par, xp, who = kb, xb, "second"
			}
			want, st := xp.Child(idx)
			got, err := par.Child(idx)
			if st != "ok" {
				continue
			}
			if err != nil {
				c.Violate("public-derivation-fails/fingerprint-twins", "twin", cas, fmt.Sprintf("step %d (%s): %v", step, d, err))
				return
			}
			if gs, ws := got.String(), want.String(ref.Nets[0]); gs != ws {
				c.Violate("child-of-the-wrong-parent/fingerprint-twins", "twin", cas, fmt.Sprintf("step %d: child %d of the %s parent is %s, BIP32 says %s (the two parents share the fingerprint %x)", step, idx, who, gs, ws, ref.Hash160(xa.P.Compressed())[:4]))
				return
			}
		}
	})
	if p {
		c.Violate("panic/fingerprint-twins", "twin", cas, msg)
		return
	}
	w.Outcome("fingerprint twins: every child belongs to its own parent")
	w.Nontrivial(mc.HashString(fmt.Sprint(cas)))
}

func runC04Twins(c *mc.Ctx) {
	tw := c04FindTwins(mc.Pick(c, 1, 2)) // the first pair is (463 G, 14200 G); the second takes some 10 s to reach
	if len(tw) == 0 {
		c.NotExhaustive("no pair of points with equal BIP32 fingerprints found among the first 600000 multiples of G")
		return
	}
	var cases []c04Twin
	for _, t := range tw {
		for _, ord := range [][]string{{"a:0", "b:0"}, {"b:0", "a:0"}, {"a:0", "b:0", "a:1", "b:1"}, {"a:5", "a:5", "b:5"}, {"b:2147483647", "a:2147483647", "b:0"}, {"a:0", "b:1", "a:1", "b:0", "a:0"}} {
			cases = append(cases, c04Twin{K1: t[0], K2: t[1], Order: ord})
		}
	}
	c.Space("pairs of public parents with EQUAL fingerprints (constructed by a birthday walk over multiples of G) x derivation orders", int64(len(cases)))
	// one after the other: what matters is what one parent's derivation leaves behind for the other
	w := c.Worker()
	for _, cs := range cases {
		w.State()
		c04EvalTwin(w, cs)
	}
	w.Done()
	c.Sample("twin", cases[0])
}
