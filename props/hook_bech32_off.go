//go:build nohook_bech32

package props

var hookBechPolymod func([]int) int
var hookBechHrpExpand func(string) []int
var hookBechVerify func(string, []byte) bool
