package props

import (
	"bytes"
	"fmt"

	"github.com/gcash/bchutil/base58"
	"github.com/gcash/bchutil/bech32"

	"verif/mc"
	"verif/ref"
)

// C07, retained results.  "Mutually inverse" is a statement about values: what Decode returned for
// one input must still be that value after the functions were called on other inputs.  An
// implementation that hands out slices of a reused scratch area (a package-level buffer, a pool
// entry released on an error path and handed out twice) returns the right bytes and silently
// changes them later.  Every sequence of <= 4 calls over a small input alphabet (three valid
// inputs of different lengths, one with a wrong checksum, one with a foreign character) is
// executed; every result is kept, and after the whole sequence each kept result is compared with
// the reference value of its input once more.

type c07Retain struct {
	Fn  string `json:"fn"` // bech32.Decode | base58.Decode | base58.CheckDecode | bech32.ConvertBits | encoders
	Seq []int  `json:"input_sequence"`
}

type c07RetIn struct {
	s    string // string input (decoders) / hex payload (encoders)
	want []byte // expected bytes (nil = must be rejected / empty)
	str  string // expected string (encoders)
}

func c07RetainInputs(fn string) []c07RetIn {
	mk := func(n int, f byte) []byte {
		b := make([]byte, n)
		for i := range b {
			b[i] = f + byte(i*7)
		}
		return b
	}
	var out []c07RetIn
	switch fn {
	case "bech32.Decode":
		for _, n := range []int{20, 8, 33} {
			d := mk(n, 3)
			for i := range d {
				d[i] &= 31
			}
			s, _ := ref.Bech32Encode("ab", d)
			out = append(out, c07RetIn{s: s, want: d})
		}
		bad := []byte(out[0].s)
		if bad[len(bad)-1] == 'q' {
			bad[len(bad)-1] = 'p'
		} else {
			bad[len(bad)-1] = 'q'
		}
		out = append(out, c07RetIn{s: string(bad)}, c07RetIn{s: out[1].s[:5] + "b" + out[1].s[6:]})
	case "base58.Decode":
		for _, n := range []int{21, 5, 40} {
			b := mk(n, 0x41)
			out = append(out, c07RetIn{s: ref.B58Encode(b), want: b})
		}
		out = append(out, c07RetIn{s: "0OIl"}, c07RetIn{s: ref.B58Encode(mk(21, 9))[:10] + "_"})
	case "base58.Decode/long": // strings of about 950 .. 4100 characters (tables or scratch space sized for "any address" end below that)
		for _, n := range []int{700, 749, 751, 800, 1500, 3000} {
			b := mk(n, 0x41)
			out = append(out, c07RetIn{s: ref.B58Encode(b), want: b})
		}
	case "base58.CheckDecode":
		for _, n := range []int{20, 4, 32} {
			b := mk(n, 0x11)
			out = append(out, c07RetIn{s: ref.B58CheckEncode(5, b), want: b})
		}
		good := []byte(out[0].s)
		if good[len(good)-1] == '2' {
			good[len(good)-1] = '3'
		} else {
			good[len(good)-1] = '2'
		}
		out = append(out, c07RetIn{s: string(good)}, c07RetIn{s: "l" + out[1].s[1:]})
	case "bech32.ConvertBits":
		for _, n := range []int{20, 5, 33} {
			b := mk(n, 0x80)
			r, _, _ := ref.Regroup(b, 8, 5, true)
			out = append(out, c07RetIn{s: mc.Hex(b), want: r})
		}
		out = append(out, c07RetIn{s: mc.Hex([]byte{})}, c07RetIn{s: mc.Hex(mk(1, 0xff)), want: func() []byte { r, _, _ := ref.Regroup(mk(1, 0xff), 8, 5, true); return r }()})
	}
	return out
}

func c07EvalRetain(w *mc.W, cas c07Retain) {
	c := w.Ctx()
	w.Eval()
	ins := c07RetainInputs(cas.Fn)
	type kept struct {
		in  int
		got []byte
		ok  bool
	}
	var keep []kept
	msg, p := mc.Guard(func() {
		for _, k := range cas.Seq {
			in := ins[k]
			switch cas.Fn {
			case "bech32.Decode":
				_, d, err := bech32.Decode(in.s)
				keep = append(keep, kept{k, d, err == nil})
			case "base58.Decode", "base58.Decode/long":
				d := base58.Decode(in.s)
				keep = append(keep, kept{k, d, len(d) > 0})
			case "base58.CheckDecode":
				d, _, err := base58.CheckDecode(in.s)
				keep = append(keep, kept{k, d, err == nil})
			case "bech32.ConvertBits":
				d, err := bech32.ConvertBits(mc.UnHex(in.s), 8, 5, true)
				keep = append(keep, kept{k, d, err == nil})
			}
		}
	})
	if p {
		c.Violate("panic-in-call-sequence/"+cas.Fn, "retain", cas, msg)
		return
	}
	for i, kp := range keep {
		in := ins[kp.in]
		switch {
		case in.want == nil && cas.Fn != "bech32.ConvertBits":
			if kp.ok {
				c.Violate("invalid-input-accepted-inside-a-call-sequence/"+cas.Fn, "retain", cas, fmt.Sprintf("call %d (%q)", i, in.s))
			}
		case !kp.ok:
			c.Violate("valid-input-rejected-inside-a-call-sequence/"+cas.Fn, "retain", cas, fmt.Sprintf("call %d (%q)", i, in.s))
		case !bytes.Equal(kp.got, in.want):
			c.Violate("result-kept-from-an-earlier-call-changed/"+cas.Fn, "retain", cas, fmt.Sprintf("call %d (%q): now %x, was and should be %x", i, in.s, kp.got, in.want))
		}
	}
	w.Outcome("call sequence: every kept result still equals the reference value")
}

func runC07Retain(c *mc.Ctx) {
	var cases []c07Retain
	for _, fn := range []string{"bech32.Decode", "base58.Decode", "base58.CheckDecode", "bech32.ConvertBits", "base58.Decode/long"} {
		n := len(c07RetainInputs(fn))
		maxLen := mc.Pick(c, 4, 5)
		if fn == "base58.Decode/long" {
			maxLen = mc.Pick(c, 3, 4)
		}
		for l := 2; l <= maxLen; l++ {
			for i := int64(0); i < ipow(n, l); i++ {
				seq := make([]int, l)
				x := i
				for j := l - 1; j >= 0; j-- {
					seq[j] = int(x % int64(n))
					x /= int64(n)
				}
				cases = append(cases, c07Retain{Fn: fn, Seq: seq})
			}
		}
	}
	c.Space("call sequences of length 2..4(5) over 5 inputs x 4 functions (and of length 2..3(4) over six base58 strings of 950..4100 characters), every result kept and re-examined at the end", int64(len(cases)))
	// sequentially: the point is what one call leaves behind for the next
	w := c.Worker()
	for _, cs := range cases {
		w.State()
		c07EvalRetain(w, cs)
	}
	w.Done()
	c.Sample("retain", cases[len(cases)/2])
}
