//go:build !steps

package props

var hookStepReset func(budget int64)
var hookStepRead func() int64
