package props

import (
	"bytes"
	"encoding/json"
	"fmt"
	"sort"

	"github.com/gcash/bchd/chaincfg/chainhash"
	"github.com/gcash/bchd/wire"
	"github.com/gcash/bchutil"
	"github.com/gcash/bchutil/bloom"
	"github.com/gcash/bchutil/merkleblock"

	"verif/mc"
	"verif/ref"
)

// C10 — transaction filtering finds every relevant transaction, in any block order.

func init() {
	register(&Prop{ID: "C10", Run: runC10, Procs: true, Replay: map[string]func(*mc.Ctx, json.RawMessage){
		"tx":    replayer(c10EvalTx),
		"block": replayer(c10EvalBlock),
		"hist":  replayer(c10EvalHist),
	}})
}

// ---- alphabet

var (
	c10K1 = append([]byte{0x02}, bytes.Repeat([]byte{0x11}, 32)...) // watched 33-byte key
	c10K2 = append([]byte{0x03}, bytes.Repeat([]byte{0x22}, 32)...)
	c10H1 = bytes.Repeat([]byte{0x33}, 20) // watched hash
	c10H2 = bytes.Repeat([]byte{0x44}, 20)
)

// c10Big: a 65536-byte element (c10Big[:65535] is watched separately)
var c10Big = func() []byte {
	b := make([]byte, 65536)
	for i := range b {
		b[i] = byte(i*13+i>>8) ^ 0x3d
	}
	return b
}()

func c10ExtOutPoint(k int) wire.OutPoint {
	var h chainhash.Hash
	for i := range h {
		h[i] = byte(0xe0 + k)
	}
	return wire.OutPoint{Hash: h, Index: uint32(k)}
}

func push(d []byte) []byte { return append([]byte{byte(len(d))}, d...) }

// output kinds
var c10OutKinds = []string{"p2pk-K1", "p2pkh-H1", "multisig-K1K2", "p2pkh-H2", "opreturn-H1", "truncated-K1", "op0", "nonstd-K1",
	// the watched element is the SECOND push of the script
	"multisig-K2K1", "nonstd-H2-K1"}

func c10OutScript(kind string) []byte {
	switch kind {
	case "p2pk-K1":
		return append(push(c10K1), 0xac)
	case "p2pkh-H1":
		return append(append([]byte{0x76, 0xa9}, push(c10H1)...), 0x88, 0xac)
	case "multisig-K1K2":
		s := []byte{0x51}
		s = append(s, push(c10K1)...)
		s = append(s, push(c10K2)...)
		return append(s, 0x52, 0xae)
	case "multisig-K2K1":
		s := []byte{0x51}
		s = append(s, push(c10K2)...)
		s = append(s, push(c10K1)...)
		return append(s, 0x52, 0xae)
	case "nonstd-H2-K1":
		return append(append(push(c10H2), push(c10K1)...), 0x87)
	case "p2pkh-H2":
		return append(append([]byte{0x76, 0xa9}, push(c10H2)...), 0x88, 0xac)
	case "opreturn-H1":
		return append([]byte{0x6a}, push(c10H1)...)
	case "truncated-K1": // a push that claims 34 bytes but carries K1 (33): unparsable
		return append([]byte{0x22}, c10K1...)
	case "op0":
		return []byte{0x00}
	case "nonstd-K1":
		return append(append([]byte{0x75}, push(c10K1)...), 0x51)
	case "multisig-1of1-K1":
		return append(append([]byte{0x51}, push(c10K1)...), 0x51, 0xae)
	case "multisig-2of3-K2K2K1":
		s := []byte{0x52}
		s = append(s, push(c10K2)...)
		s = append(s, push(c10K2)...)
		s = append(s, push(c10K1)...)
		return append(s, 0x53, 0xae)
	case "multisig-15-K1", "multisig-16-K1", "multisig-16-K1last", "multisig-17-K1":
		n := map[string]int{"multisig-15-K1": 15, "multisig-16-K1": 16, "multisig-16-K1last": 16, "multisig-17-K1": 17}[kind]
		s := []byte{0x51}
		for i := 0; i < n; i++ {
			k := c10K2
			if i == 0 && kind != "multisig-16-K1last" || i == n-1 && kind == "multisig-16-K1last" {
				k = c10K1
			}
			s = append(s, push(k)...)
		}
		cnt := byte(0x50 + n)
		if n == 17 {
			cnt = 0x60 // 17 keys but OP_16: the key count does not agree, not a multisig
		}
		return append(s, cnt, 0xae)
	case "p2pk-65-then-K1": // an uncompressed-size key push followed by OP_CHECKSIG is pay-to-pubkey; K1 is pushed and dropped in front
		return append(append(append(push(c10K1), 0x75), push(append([]byte{0x04}, bytes.Repeat([]byte{0x66}, 64)...))...), 0xac)
	case "pd1-K1": // the watched key pushed with the non-minimal opcodes
		return append([]byte{0x4c, byte(len(c10K1))}, c10K1...)
	case "pd2-K1":
		return append([]byte{0x4d, byte(len(c10K1)), 0}, c10K1...)
	case "pd4-K1":
		return append([]byte{0x4e, byte(len(c10K1)), 0, 0, 0}, c10K1...)
	case "K1-then-truncated-pd4": // a push of K1, then OP_PUSHDATA4 announcing 65536 bytes that are not there: unparsable
		return append(push(c10K1), 0x4e, 0x00, 0x00, 0x01, 0x00)
	case "K1-then-truncated-pd2":
		return append(push(c10K1), 0x4d, 0xff, 0xff)
	case "pd4-BIG": // a 65536-byte watched element: only OP_PUSHDATA4 can carry it
		return append([]byte{0x4e, 0x00, 0x00, 0x01, 0x00}, c10Big...)
	case "pd2-BIG1": // 65535 bytes: the longest OP_PUSHDATA2 push
		return append([]byte{0x4d, 0xff, 0xff}, c10Big[:65535]...)
	case "p2pkh-U":
		return append(append([]byte{0x76, 0xa9}, push(bytes.Repeat([]byte{0x55}, 20))...), 0x88, 0xac)
	}
	panic("unknown output kind " + kind)
}

var c10InKinds = []string{"spend-E0", "spend-E1", "sig-K1", "sig-unparsable", "sig-op0"}

func c10In(kind string, seq int) *wire.TxIn {
	switch kind {
	case "spend-E0":
		o := c10ExtOutPoint(0)
		return wire.NewTxIn(&o, []byte{0x51})
	case "spend-E1":
		o := c10ExtOutPoint(1)
		return wire.NewTxIn(&o, []byte{0x51})
	case "sig-K1":
		o := c10ExtOutPoint(2 + seq)
		return wire.NewTxIn(&o, append(push([]byte{0x30, 0x01}), push(c10K1)...))
	case "sig-unparsable":
		o := c10ExtOutPoint(4 + seq)
		return wire.NewTxIn(&o, append([]byte{0x4c, 0x40}, c10K1...))
	case "sig-op0":
		o := c10ExtOutPoint(6 + seq)
		return wire.NewTxIn(&o, []byte{0x00, 0x51})
	case "null-sig-K1": // shaped like a coinbase input (all-zero hash, index 0xffffffff) whose script pushes the watched key
		return wire.NewTxIn(&wire.OutPoint{Index: 0xffffffff}, append(push([]byte{0x30, 0x01}), push(c10K1)...))
	case "null-plain": // the null outpoint with an unrelated script
		return wire.NewTxIn(&wire.OutPoint{Index: 0xffffffff}, []byte{0x51})
	case "sig-pd4-BIG":
		o := c10ExtOutPoint(8 + seq)
		return wire.NewTxIn(&o, append([]byte{0x4e, 0x00, 0x00, 0x01, 0x00}, c10Big...))
	case "sig-pd1-K1":
		o := c10ExtOutPoint(10 + seq)
		return wire.NewTxIn(&o, append([]byte{0x4c, byte(len(c10K1))}, c10K1...))
	}
	panic("unknown input kind " + kind)
}

func c10RefTx(tx *wire.MsgTx) *ref.RefTx { return c10RefTxID(tx, tx.TxHash()) }

func c10RefTxID(tx *wire.MsgTx, id chainhash.Hash) *ref.RefTx {
	r := &ref.RefTx{TxID: id}
	for _, o := range tx.TxOut {
		r.Outputs = append(r.Outputs, o.PkScript)
	}
	for _, in := range tx.TxIn {
		r.Inputs = append(r.Inputs, ref.RefTxIn{PrevHash: in.PreviousOutPoint.Hash, PrevIndex: in.PreviousOutPoint.Index, SigScript: in.SignatureScript})
	}
	return r
}

// ---- single transaction

type c10Tx struct {
	Content string   `json:"filter_content"` // none, K1, H1, txid, E1, K1+E1
	Outs    []string `json:"outputs"`
	Ins     []string `json:"inputs"`
	Flags   int      `json:"flags"`
	Geom    string   `json:"geometry"` // big (36000 bytes x 10), tiny (1 byte x 1), two (2 bytes x 2)
	// Route: how the filter object comes to hold the message.  "" = LoadFilter(msg); "nil+reload" =
	// LoadFilter(nil) then Reload(msg) (how a node installs a peer's filterload); "other+reload" =
	// LoadFilter of ANOTHER message (other flags, other contents, other geometry) then Reload(msg);
	// "new+reload" = NewFilter(...) with other flags then Reload(msg).  What the object does is a
	// function of the message it holds now.
	Route string `json:"route,omitempty"`
}

var c10Routes = []string{"", "nil+reload", "other+reload", "new+reload"}

func c10Geom(g string) (int, uint32) {
	switch g {
	case "big":
		return 36000, 10
	case "mid": // 4096 bits x 10 functions: collision-free for the <= 12 items ever inserted
		return 512, 10
	case "tiny":
		return 1, 1
	}
	return 2, 2
}

func c10EvalTx(w *mc.W, cas c10Tx) {
	c := w.Ctx()
	w.Eval()
	tx := wire.NewMsgTx(1)
	for i, k := range cas.Ins {
		tx.AddTxIn(c10In(k, i))
	}
	for _, k := range cas.Outs {
		tx.AddTxOut(wire.NewTxOut(1000, c10OutScript(k), wire.TokenData{}))
	}
	rtx := c10RefTx(tx)
	nbytes, k := c10Geom(cas.Geom)
	model := ref.NewBloom(make([]byte, nbytes), k, 0x5eed, byte(cas.Flags))
	switch cas.Content {
	case "K1":
		model.Insert(c10K1)
	case "H1":
		model.Insert(c10H1)
	case "txid":
		model.Insert(rtx.TxID[:])
	case "E1":
		e := c10ExtOutPoint(1)
		model.Insert(ref.OutPointBytes(e.Hash, e.Index))
	case "K1+E1":
		model.Insert(c10K1)
		e := c10ExtOutPoint(1)
		model.Insert(ref.OutPointBytes(e.Hash, e.Index))
	case "txid+K1":
		model.Insert(rtx.TxID[:])
		model.Insert(c10K1)
	case "BIG":
		model.Insert(c10Big)
	case "BIG1":
		model.Insert(c10Big[:65535])
	case "K1+BIG":
		model.Insert(c10K1)
		model.Insert(c10Big)
	case "NULLOP": // the null outpoint itself is watched
		model.Insert(ref.OutPointBytes(chainhash.Hash{}, 0xffffffff))
	}
	msg := wire.NewMsgFilterLoad(model.Bytes(), k, 0x5eed, wire.BloomUpdateType(cas.Flags))
	var f *bloom.Filter
	otherFlags := wire.BloomUpdateType((cas.Flags + 1) % 3)
	switch cas.Route {
	case "":
		f = bloom.LoadFilter(msg)
	case "nil+reload":
		f = bloom.LoadFilter(nil)
		f.Reload(msg)
	case "other+reload":
		f = bloom.LoadFilter(wire.NewMsgFilterLoad([]byte{0xff, 0x0f, 0xf0}, 3, 99, otherFlags))
		f.Reload(msg)
	case "new+reload":
		f = bloom.NewFilter(10, 1, 0.01, otherFlags)
		f.Add(c10K1)
		f.Reload(msg)
	default:
		panic("c10: unknown route " + cas.Route)
	}
	var got bool
	if m, p := mc.Guard(func() { got = f.MatchTxAndUpdate(bchutil.NewTx(tx)) }); p {
		c.Violate("matchtxandupdate-panics", "tx", cas, m)
		return
	}
	w.Trans()
	if cas.Flags == 3 {
		w.Outcome("undefined flag value: no-panic oracle only")
		return
	}
	// evaluate the reference under both readings of "empty push"
	mA, mB := model.Clone(), model.Clone()
	wantA := mA.MatchTx(rtx, true, true)
	wantB := mB.MatchTx(rtx, true, false)
	if wantA != wantB || !bytes.Equal(mA.Bytes(), mB.Bytes()) {
		w.Outcome("ambiguous-empty-push (not asserted)")
		return
	}
	if got != wantA {
		c.Violate("match-result-differs-from-bip37", "tx", cas, fmt.Sprintf("got %v want %v", got, wantA))
	}
	if !bytes.Equal(msg.Filter, mA.Bytes()) {
		c.Violate("filter-update-differs-from-bip37", "tx", cas, fmt.Sprintf("flags=%d: filter after the call differs from the reference", cas.Flags))
	}
	if wantA {
		if bytes.Equal(mA.Bytes(), model.Bytes()) {
			w.Outcome("matched, no update")
		} else {
			w.Outcome("matched, outpoint inserted")
		}
		w.Nontrivial(mc.HashString(fmt.Sprint(cas)))
	} else {
		w.Outcome("not matched")
	}
}

// ---- block scan

// c10BTx describes one transaction of a block in topological numbering.
type c10BTx struct {
	Ins  []string `json:"ins"`  // "E0", "E1" or "k.j" = output j of transaction k (k earlier in topological order)
	Outs string   `json:"outs"` // W, H, U, UW, WU, M  (W: p2pk(K1) watched; H: p2pkh(H1) watched; U: unwatched; M: multisig(K1,K2))
}

type c10Block struct {
	Txs   []c10BTx `json:"txs"`
	Order []int    `json:"order"` // block position p holds topological transaction Order[p]
	Flags int      `json:"flags"`
	Geom  string   `json:"geometry"`
}

func c10OutsOf(code string) []string {
	var out []string
	for _, ch := range code {
		switch ch {
		case 'W':
			out = append(out, "p2pk-K1")
		case 'H':
			out = append(out, "p2pkh-H1")
		case 'U':
			out = append(out, "p2pkh-U")
		case 'M':
			out = append(out, "multisig-K1K2")
		case 'P': // a script that pushes the 36-byte serialisation of the outpoint (transaction 0, output 0):
			// it matches only once that outpoint has been inserted by an update, resolved in c10BuildTxs
			out = append(out, "push-outpoint-0.0")
		}
	}
	return out
}

type c10Built struct {
	txs  []*wire.MsgTx
	ids  []chainhash.Hash
	refs []*ref.RefTx
}

func c10BuildTxs(descr []c10BTx) *c10Built {
	b := &c10Built{}
	txs := make([]*wire.MsgTx, len(descr))
	b.ids = make([]chainhash.Hash, len(descr))
	for i, t := range descr {
		tx := wire.NewMsgTx(1)
		tx.LockTime = uint32(1000 + i) // distinct ids
		for _, in := range t.Ins {
			var o wire.OutPoint
			switch in {
			case "E0":
				o = c10ExtOutPoint(0)
			case "E1":
				o = c10ExtOutPoint(1)
			default:
				var k, j int
				fmt.Sscanf(in, "%d.%d", &k, &j)
				o = wire.OutPoint{Hash: b.ids[k], Index: uint32(j)}
			}
			tx.AddTxIn(wire.NewTxIn(&o, []byte{0x51}))
		}
		for _, k := range c10OutsOf(t.Outs) {
			if k == "push-outpoint-0.0" {
				sc := []byte{0x51} // in transaction 0 itself: an unrelated script
				if i > 0 {
					sc = append(append([]byte{36}, ref.OutPointBytes(b.ids[0], 0)...), 0x75) // <outpoint 0.0> OP_DROP
				}
				tx.AddTxOut(wire.NewTxOut(1000, sc, wire.TokenData{}))
				continue
			}
			tx.AddTxOut(wire.NewTxOut(1000, c10OutScript(k), wire.TokenData{}))
		}
		txs[i] = tx
		b.ids[i] = tx.TxHash()
		b.refs = append(b.refs, c10RefTxID(tx, b.ids[i]))
	}
	b.txs = txs
	return b
}

// c10DirectS0: does the transaction match the initial filter contents through one of its own scripts?
func c10DirectS0(tx *wire.MsgTx, inS0 func([]byte) bool) bool {
	for _, o := range tx.TxOut {
		if pushes, _, ok := ref.Pushes(o.PkScript); ok {
			for _, d := range pushes {
				if inS0(d) {
					return true
				}
			}
		}
	}
	for _, in := range tx.TxIn {
		if pushes, _, ok := ref.Pushes(in.SignatureScript); ok {
			for _, d := range pushes {
				if inS0(d) {
					return true
				}
			}
		}
	}
	return false
}

func c10EvalBlock(w *mc.W, cas c10Block) { c10EvalBlockBuilt(w, cas, c10BuildTxs(cas.Txs)) }

func c10EvalBlockBuilt(w *mc.W, cas c10Block, built *c10Built) {
	c := w.Ctx()
	w.Eval()
	txs := built.txs
	blk := wire.NewMsgBlock(fixedHeader(1, &chainhash.Hash{}, &chainhash.Hash{}, 0, 0))
	for _, k := range cas.Order {
		blk.AddTransaction(txs[k])
	}
	nbytes, k := c10Geom(cas.Geom)
	// S0 = {K1, H1, outpoint E1}
	model := ref.NewBloom(make([]byte, nbytes), k, 7, byte(cas.Flags))
	model.Insert(c10K1)
	model.Insert(c10H1)
	e1 := c10ExtOutPoint(1)
	model.Insert(ref.OutPointBytes(e1.Hash, e1.Index))
	inS0 := func(d []byte) bool {
		return bytes.Equal(d, c10K1) || bytes.Equal(d, c10H1)
	}
	// A = outpoints of outputs with a push in S0 admitted by the flag
	type op struct {
		h [32]byte
		i uint32
	}
	A := map[op]bool{{e1.Hash, e1.Index}: true}
	direct := make([]bool, len(txs))
	// least fixed point: an output matches if one of its pushes is in S0 or is the serialisation of an
	// outpoint in A that the same transaction spends; a matching output's outpoint joins A as the flag
	// admits.  Whatever the block order, the scan with re-checks must reach this set.
	for changed := true; changed; {
		changed = false
		for ti, tx := range txs {
			for oi, o := range tx.TxOut {
				pushes, _, ok := ref.Pushes(o.PkScript)
				if !ok {
					continue
				}
				hit := false
				for _, d := range pushes {
					if inS0(d) {
						hit = true
					}
					if len(d) == 36 {
						// ... counted for the LOWER bound only when this transaction also spends that very
						// outpoint: then it is (re-)examined at a moment at which the outpoint is in the
						// filter, whatever the block order.  (An output that merely mentions an outpoint
						// inserted later in the block is matched or not depending on the order; the
						// statement promises order independence for spenders, and the upper bound below
						// is taken from the final filter state.)  It is not counted either when the
						// transaction matches the initial filter contents anyway: the library examines a
						// transaction it has already reported only once, so whether such an output is
						// seen with the outpoint in the filter depends on the order (observed on the
						// unchanged tree, DESIGN 9.3; not claimed as a defect).
						var h [32]byte
						copy(h[:], d[:32])
						a := op{h, uint32(d[32]) | uint32(d[33])<<8 | uint32(d[34])<<16 | uint32(d[35])<<24}
						if A[a] && !c10DirectS0(tx, inS0) {
							for _, in := range tx.TxIn {
								if in.PreviousOutPoint.Hash == chainhash.Hash(a.h) && in.PreviousOutPoint.Index == a.i {
									hit = true
								}
							}
						}
					}
				}
				if hit {
					if !direct[ti] {
						direct[ti], changed = true, true
					}
					if cas.Flags == 1 || cas.Flags == 2 && ref.IsP2PKOrMultisig(o.PkScript) {
						if k := (op{built.ids[ti], uint32(oi)}); !A[k] {
							A[k], changed = true, true
						}
					}
				}
			}
		}
	}
	R := map[int]bool{} // by block position
	for p, k := range cas.Order {
		tx := txs[k]
		rel := direct[k]
		for _, in := range tx.TxIn {
			if A[op{in.PreviousOutPoint.Hash, in.PreviousOutPoint.Index}] {
				rel = true
			}
		}
		if rel {
			R[p] = true
		}
	}

	type result struct {
		name    string
		indices []int
		final   []byte
	}
	var results []result
	run := func(name string, f func(b *bchutil.Block, flt *bloom.Filter) []int) bool {
		msg := wire.NewMsgFilterLoad(model.Bytes(), k, 7, wire.BloomUpdateType(cas.Flags))
		flt := bloom.LoadFilter(msg)
		var idx []int
		if m, p := mc.Guard(func() { idx = f(bchutil.NewBlock(blk), flt) }); p {
			c.Violate("block-scan-panics/"+name, "block", cas, m)
			return false
		}
		w.Trans()
		results = append(results, result{name, idx, msg.Filter})
		return true
	}
	ok := run("GetMatchedIndices", func(b *bchutil.Block, flt *bloom.Filter) []int {
		m := bloom.GetMatchedIndices(b, flt)
		var idx []int
		for i, v := range m {
			if v {
				idx = append(idx, i)
			}
		}
		sort.Ints(idx)
		return idx
	}) && run("bloom.NewMerkleBlock", func(b *bchutil.Block, flt *bloom.Filter) []int {
		_, ix := bloom.NewMerkleBlock(b, flt)
		var idx []int
		for i, v := range ix {
			idx = append(idx, int(v))
			if i > 0 && ix[i-1] >= v {
				c.Violate("merkle-block-index-list-not-ascending/bloom.NewMerkleBlock", "block", cas, fmt.Sprint(ix))
			}
		}
		return idx
	}) && run("merkleblock.NewMerkleBlockWithFilter", func(b *bchutil.Block, flt *bloom.Filter) []int {
		_, ix := merkleblock.NewMerkleBlockWithFilter(b, flt)
		var idx []int
		for i, v := range ix {
			idx = append(idx, int(v))
			if i > 0 && ix[i-1] >= v {
				c.Violate("merkle-block-index-list-not-ascending/merkleblock.NewMerkleBlockWithFilter", "block", cas, fmt.Sprint(ix))
			}
		}
		return idx
	})
	if !ok {
		return
	}
	exact := true
	for _, r := range results {
		rep := map[int]bool{}
		for _, i := range r.indices {
			rep[i] = true
		}
		// lower bound: every relevant transaction is reported
		for p := range R {
			if !rep[p] {
				c.Violate("relevant-transaction-not-reported/"+r.name, "block", cas, fmt.Sprintf("block position %d (topological tx %d) is relevant; reported %v", p, cas.Order[p], r.indices))
			}
		}
		// upper bound: everything reported matches the final filter state (reference, no update)
		final := ref.NewBloom(r.final, k, 7, byte(cas.Flags))
		for _, i := range r.indices {
			if i < 0 || i >= len(cas.Order) {
				c.Violate("reported-index-out-of-range/"+r.name, "block", cas, fmt.Sprint(r.indices))
				continue
			}
			if !final.MatchTx(built.refs[cas.Order[i]], false, true) {
				c.Violate("reported-transaction-not-matched-by-final-filter/"+r.name, "block", cas, fmt.Sprintf("block position %d", i))
			}
			if !R[i] {
				exact = false
			}
		}
		// The two PROOF builders must report identical index lists (C11 states it for the same block and
		// filter).  GetMatchedIndices is only held to the two bounds above: the statement allows entry
		// points to differ inside them.
		if len(results) == 3 && r.name == results[2].name && fmt.Sprint(r.indices) != fmt.Sprint(results[1].indices) {
			c.Violate("block-scan-builders-disagree", "block", cas, fmt.Sprintf("%s: %v vs %s: %v", results[1].name, results[1].indices, r.name, r.indices))
		}
	}
	switch {
	case cas.Geom != "tiny" && exact:
		w.Outcome(fmt.Sprintf("reported set == relevant set (size %d)", len(R)))
		if len(R) > 0 {
			w.Nontrivial(mc.HashString(fmt.Sprint(cas.Txs), fmt.Sprint(cas.Order), fmt.Sprint(cas.Flags)))
		}
	case cas.Geom != "tiny":
		// allowed by the statement (a bloom false positive); never seen on the sparse geometry
		w.Outcome("reported a superset of the relevant set (false positive of the final filter)")
	default:
		w.Outcome("colliding geometry: bounds only")
	}
}

func keysOf(m map[int]bool) []int {
	var k []int
	for i := range m {
		k = append(k, i)
	}
	sort.Ints(k)
	return k
}

// all spend graphs on n transactions (topological numbering)
func c10Graphs(n int, outsAlpha []string, maxIns int) [][]c10BTx {
	var res [][]c10BTx
	var rec func(cur []c10BTx)
	rec = func(cur []c10BTx) {
		i := len(cur)
		if i == n {
			res = append(res, append([]c10BTx{}, cur...))
			return
		}
		opts := []string{"E0", "E1"}
		for k := 0; k < i; k++ {
			for j := range c10OutsOf(cur[k].Outs) {
				opts = append(opts, fmt.Sprintf("%d.%d", k, j))
			}
		}
		var insets [][]string
		for a := range opts {
			insets = append(insets, []string{opts[a]})
			if maxIns >= 2 {
				for b := a + 1; b < len(opts); b++ {
					insets = append(insets, []string{opts[a], opts[b]})
				}
			}
		}
		for _, ins := range insets {
			for _, o := range outsAlpha {
				rec(append(cur, c10BTx{Ins: ins, Outs: o}))
			}
		}
	}
	rec(nil)
	return res
}

func permutations(n int) [][]int {
	var res [][]int
	var rec func(cur []int, used []bool)
	rec = func(cur []int, used []bool) {
		if len(cur) == n {
			res = append(res, append([]int{}, cur...))
			return
		}
		for i := 0; i < n; i++ {
			if !used[i] {
				used[i] = true
				rec(append(cur, i), used)
				used[i] = false
			}
		}
	}
	rec(nil, make([]bool, n))
	return res
}

func runC10(c *mc.Ctx) {
	c.Rule("single transactions: filter content x <=2 outputs over 8 script kinds x <=2 inputs over 5 kinds x flags x geometry, compared (result and final filter bytes) with a literal BIP37 scan on a []bool filter under both readings of an empty push; blocks: every spend graph on n<=3 transactions (<=2 inputs from {external unwatched, external watched, any output of an earlier tx}, outputs from {W,H,U,UW,WU,M}) plus restricted alphabets for n=3 two-input and n=4 single-input graphs (full n=3, n=4 two-input and n=5 single-input on thorough) x all n! block orders x 3 flags, two-sided oracle (relevant set is a subset of the reported set; every reported tx matches the final filter) on all three block-scan entry points; non-trivial = cases with a non-empty relevant set / a match")
	c.Assume("wire.MsgTx.TxHash and the wire serialisation are trusted; scripts pushing a 36-byte outpoint serialisation are outside the alphabet (so the relevant set is order-independent)")

	// ---- single transactions
	var outsets [][]string
	outsets = append(outsets, []string{})
	for _, a := range c10OutKinds {
		outsets = append(outsets, []string{a})
		for _, b := range c10OutKinds {
			outsets = append(outsets, []string{a, b})
		}
	}
	var insets [][]string
	for _, a := range c10InKinds {
		insets = append(insets, []string{a})
		for _, b := range c10InKinds {
			insets = append(insets, []string{a, b})
		}
	}
	contents := []string{"none", "K1", "H1", "txid", "E1", "K1+E1", "txid+K1"}
	geoms := []string{"mid", "tiny", "two"}
	if c.Thorough() {
		geoms = append(geoms, "big")
	}
	dims := []int{len(contents), len(outsets), len(insets), 4, len(geoms), len(c10Routes)}
	total := int64(1)
	for _, d := range dims {
		total *= int64(d)
	}
	c.Space("single transactions: content x outputs x inputs x flags x geometry x route by which the filter object received the message (the three Reload routes on the first geometry)", total/int64(len(geoms)*len(c10Routes))*int64(len(geoms)+len(c10Routes)-1))
	c.ParFor(total, func(w *mc.W, i int64) {
		idx := make([]int, len(dims))
		for k := len(dims) - 1; k >= 0; k-- {
			idx[k] = int(i % int64(dims[k]))
			i /= int64(dims[k])
		}
		if idx[5] != 0 && idx[4] != 0 {
			return // the other routes on the first geometry only
		}
		w.State()
		c10EvalTx(w, c10Tx{Content: contents[idx[0]], Outs: outsets[idx[1]], Ins: insets[idx[2]], Flags: idx[3], Geom: geoms[idx[4]], Route: c10Routes[idx[5]]})
	})
	// wide transactions: n outputs of which only one (at an index beyond 8 / 16 bits) pays the watched
	// key; result and final filter (the inserted outpoint carries the output index) against the reference
	{
		var wide []c10Tx
		for _, n := range []int{257, 300, 65537} {
			for _, at := range []int{n - 1, 256, n / 2} {
				outs := make([]string, n)
				for i := range outs {
					outs[i] = "p2pkh-H2"
				}
				outs[at] = "p2pk-K1"
				for fl := 1; fl <= 2; fl++ {
					wide = append(wide, c10Tx{Content: "K1", Outs: outs, Ins: []string{"spend-E0"}, Flags: fl, Geom: "mid"})
				}
			}
		}
		// the input side: n inputs of which only one (at a high index) spends the watched outpoint or
		// pushes the watched key in its signature script
		for _, n := range []int{257, 300, 65537} {
			for _, at := range []int{n - 1, 256, n / 2} {
				for _, kind := range []string{"spend-E1", "sig-K1"} {
					ins := make([]string, n)
					for i := range ins {
						ins[i] = "spend-E0"
					}
					ins[at] = kind
					content := "E1"
					if kind == "sig-K1" {
						content = "K1"
					}
					wide = append(wide, c10Tx{Content: content, Outs: []string{"p2pkh-H2"}, Ins: ins, Flags: 1, Geom: "mid"})
				}
			}
		}
		c.Space("wide transactions (257, 300, 65537 outputs or inputs, one watched)", int64(len(wide)))
		c.ParFor(int64(len(wide)), func(w *mc.W, i int64) {
			w.State()
			c10EvalTx(w, wide[i])
		})
	}
	// further script shapes around the "pay-to-pubkey or multisig" classification that decides the
	// update under BloomUpdateP2PubkeyOnly: 1-of-1, 2-of-3 with the watched key last, 15 / 16 keys
	// (OP_15 / OP_16 key counts), 17 keys under OP_16 (not a multisig)
	{
		extra := []string{"multisig-1of1-K1", "multisig-2of3-K2K2K1", "multisig-15-K1", "multisig-16-K1", "multisig-16-K1last", "multisig-17-K1", "p2pk-65-then-K1"}
		var xs []c10Tx
		for _, a := range extra {
			for _, second := range []string{"", "p2pkh-H2", "p2pk-K1", "multisig-16-K1"} {
				outs := []string{a}
				if second != "" {
					outs = []string{a, second}
				}
				for _, content := range []string{"none", "K1", "txid", "K1+E1"} {
					for _, ins := range [][]string{{"spend-E0"}, {"spend-E1"}, {"sig-K1"}} {
						for fl := 0; fl < 4; fl++ {
							for _, g := range []string{"mid", "two"} {
								xs = append(xs, c10Tx{Content: content, Outs: outs, Ins: ins, Flags: fl, Geom: g})
								if second != "" {
									xs = append(xs, c10Tx{Content: content, Outs: []string{second, a}, Ins: ins, Flags: fl, Geom: g})
								}
							}
						}
					}
				}
			}
		}
		// pushes made with OP_PUSHDATA1/2/4 (non-minimal pushes of the watched key, elements of 65535
		// and 65536 bytes, truncated OP_PUSHDATA headers after a watched push), in outputs and inputs
		pd := []string{"pd1-K1", "pd2-K1", "pd4-K1", "K1-then-truncated-pd4", "K1-then-truncated-pd2", "pd4-BIG", "pd2-BIG1"}
		for _, a := range pd {
			for _, content := range []string{"none", "K1", "BIG", "BIG1", "K1+BIG"} {
				for _, ins := range [][]string{{"spend-E0"}, {"sig-pd4-BIG"}, {"sig-pd1-K1"}} {
					for fl := 0; fl < 3; fl++ {
						xs = append(xs, c10Tx{Content: content, Outs: []string{a}, Ins: ins, Flags: fl, Geom: "mid"},
							c10Tx{Content: content, Outs: []string{"p2pkh-H2", a}, Ins: ins, Flags: fl, Geom: "mid"})
					}
				}
			}
		}
		// transactions shaped like a coinbase (one input, null outpoint): matched like any other
		for _, ins := range [][]string{{"null-sig-K1"}, {"null-plain"}, {"null-sig-K1", "spend-E0"}, {"spend-E0", "null-plain"}} {
			for _, content := range []string{"none", "K1", "NULLOP", "txid", "E1"} {
				for _, outs := range [][]string{{"p2pkh-H2"}, {"p2pk-K1"}, {}} {
					for fl := 0; fl < 3; fl++ {
						xs = append(xs, c10Tx{Content: content, Outs: outs, Ins: ins, Flags: fl, Geom: "mid"})
					}
				}
			}
		}
		c.Space("single transactions with multisig outputs of 1, 3, 15, 16, 17 keys, OP_PUSHDATA1/2/4 pushes (incl. 65535/65536-byte elements) and coinbase-shaped inputs", int64(len(xs)))
		c.ParFor(int64(len(xs)), func(w *mc.W, i int64) {
			w.State()
			c10EvalTx(w, xs[i])
		})
	}
	c.Sample("tx", c10Tx{Content: "K1", Outs: []string{"p2pk-K1"}, Ins: []string{"spend-E0"}, Flags: 2, Geom: "mid"})
	runC10Hist(c)

	// ---- blocks
	outsAlpha := []string{"W", "H", "U", "UW", "WU", "M"}
	type fam struct {
		n, maxIns int
		alpha     []string
	}
	fams := []fam{{1, 2, outsAlpha}, {2, 2, outsAlpha}, {3, 2, []string{"W", "H", "U", "WU"}}, {3, 1, outsAlpha}, {4, 1, []string{"W", "U"}}}
	if c.Thorough() {
		fams = []fam{{1, 2, outsAlpha}, {2, 2, outsAlpha}, {3, 2, outsAlpha}, {4, 1, []string{"W", "H", "U", "WU"}}, {4, 2, []string{"W", "U"}}, {5, 1, []string{"W", "U"}}}
	}
	for _, fm := range fams {
		graphs := c10Graphs(fm.n, fm.alpha, fm.maxIns)
		perms := permutations(fm.n)
		bgeoms := []string{"mid", "tiny"}
		if fm.n >= 4 {
			bgeoms = []string{"mid"}
		}
		size := int64(len(graphs)) * int64(len(perms)) * 3 * int64(len(bgeoms))
		c.Space(fmt.Sprintf("blocks: n=%d, <=%d inputs: %d graphs x %d orders x 3 flags x %d geometries", fm.n, fm.maxIns, len(graphs), len(perms), len(bgeoms)), size)
		c.ParFor(int64(len(graphs)), func(w *mc.W, gi int64) {
			built := c10BuildTxs(graphs[gi])
			for _, perm := range perms {
				for fl := 0; fl < 3; fl++ {
					for _, g := range bgeoms {
						w.State()
						c10EvalBlockBuilt(w, c10Block{Txs: graphs[gi], Order: perm, Flags: fl, Geom: g}, built)
					}
				}
			}
		})
	}
	// graphs in which an OUTPUT matches because of an update: scripts pushing the serialisation of the
	// outpoint (transaction 0, output 0).  Every graph of 3 transactions (<= 1 input each) over
	// {W, U, P, PW, UP} in every order under every flag: a re-check must go on through transactions
	// that became relevant only during a re-check.
	{
		graphs := c10Graphs(3, []string{"W", "U", "P", "PW", "UP"}, 1)
		if c.Thorough() {
			graphs = append(graphs, c10Graphs(4, []string{"W", "U", "P"}, 1)...)
		}
		c.Space("blocks: graphs of 3 (4) transactions with outputs that push the outpoint 0.0, every order x 3 flags", int64(len(graphs))*6*3)
		c.ParFor(int64(len(graphs)), func(w *mc.W, gi int64) {
			built := c10BuildTxs(graphs[gi])
			for _, perm := range permutations(len(graphs[gi])) {
				for fl := 0; fl < 3; fl++ {
					w.State()
					c10EvalBlockBuilt(w, c10Block{Txs: graphs[gi], Order: perm, Flags: fl, Geom: "mid"}, built)
				}
			}
		})
	}
	// large blocks (index arithmetic beyond one byte, long dependency chains): 300 transactions in
	// structured spend graphs, in topological, reversed and interleaved block order
	{
		n := 300
		mk := func(shape string) []c10BTx {
			txs := make([]c10BTx, n)
			for i := range txs {
				switch shape {
				case "chain": // tx i spends output 0 of tx i-1; every third one pays the watched key
					txs[i] = c10BTx{Ins: []string{"E0"}, Outs: "U"}
					if i > 0 {
						txs[i].Ins = []string{fmt.Sprintf("%d.0", i-1)}
					}
					if i%3 == 0 {
						txs[i].Outs = "W"
					}
				case "fan": // tx 0 pays the watched key twice; everything else spends tx 0 or an external output
					txs[i] = c10BTx{Ins: []string{"E0"}, Outs: "U"}
					if i == 0 {
						txs[i].Outs = "WW"
					} else if i%2 == 1 {
						txs[i].Ins = []string{fmt.Sprintf("0.%d", i%4/2)}
					}
				case "late": // only the LAST transaction (topologically) is watched, spenders listed elsewhere
					txs[i] = c10BTx{Ins: []string{"E0"}, Outs: "U"}
					if i == n-2 {
						txs[i].Outs = "UW"
					}
					if i == n-1 {
						txs[i].Ins = []string{fmt.Sprintf("%d.1", n-2), "E1"}
					}
				}
			}
			return txs
		}
		orders := map[string][]int{}
		topo, rev, inter := make([]int, n), make([]int, n), make([]int, n)
		for i := 0; i < n; i++ {
			topo[i], rev[i] = i, n-1-i
			if i%2 == 0 {
				inter[i] = i / 2
			} else {
				inter[i] = n - 1 - i/2
			}
		}
		orders["topological"], orders["reversed"], orders["interleaved"] = topo, rev, inter
		var big []c10Block
		for _, shape := range []string{"chain", "fan", "late"} {
			for _, on := range []string{"topological", "reversed", "interleaved"} {
				for fl := 0; fl < 3; fl++ {
					big = append(big, c10Block{Txs: mk(shape), Order: orders[on], Flags: fl, Geom: "mid"})
				}
			}
		}
		// 70000 transactions (positions beyond 16 bits): the parent is the LAST transaction of the block,
		// its spender the one before it, fillers in front; and the mirror image (parent first)
		{
			hn := 70000
			txs := make([]c10BTx, hn)
			txs[0] = c10BTx{Ins: []string{"E0"}, Outs: "UW"}
			txs[1] = c10BTx{Ins: []string{"0.1"}, Outs: "U"}
			for i := 2; i < hn; i++ {
				txs[i] = c10BTx{Ins: []string{"E0"}, Outs: "U"}
			}
			tail := make([]int, 0, hn)
			for i := 2; i < hn; i++ {
				tail = append(tail, i)
			}
			tail = append(tail, 1, 0)
			head := make([]int, hn)
			for i := range head {
				head[i] = i
			}
			for fl := 1; fl <= 2; fl++ {
				big = append(big, c10Block{Txs: txs, Order: tail, Flags: fl, Geom: "mid"}, c10Block{Txs: txs, Order: head, Flags: fl, Geom: "mid"})
			}
		}
		c.Space("blocks: 300 transactions x {chain, fan, late} x {topological, reversed, interleaved} x 3 flags, and 70000-transaction blocks with the parent last / first", int64(len(big)))
		c.ParFor(int64(len(big)), func(w *mc.W, i int64) {
			w.State()
			c10EvalBlock(w, big[i])
		})
	}
	c.Sample("block", c10Block{Txs: []c10BTx{{Ins: []string{"E0"}, Outs: "W"}, {Ins: []string{"0.0"}, Outs: "U"}}, Order: []int{1, 0}, Flags: 1, Geom: "mid"})
}
