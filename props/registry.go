// Package props holds one file per property: the enumerated spaces, the oracles and
// the replayers.
package props

import (
	"encoding/json"
	"verif/mc"
)

// Prop is one registered check.
type Prop struct {
	ID  string
	Run func(c *mc.Ctx)
	// Replay re-executes one recorded case (kind selects the evaluator) and records a
	// violation in c if it fails again.
	Replay map[string]func(c *mc.Ctx, raw json.RawMessage)
	// Procs: run as single-threaded shard processes instead of goroutines (for checks that go
	// through bchd/wire serialisation, which serialises all goroutines on one global channel).
	// All enumeration of such a check must go through ParFor or be guarded by mc.Shard0().
	Procs bool
	// Lookup returns the case with the given (ParFor sequence number, index) of a sharded run, so that
	// a worker process killed by the runtime can be attributed to the input it was running.
	Lookup func(c *mc.Ctx, seq, idx int64) (family string, cas any)
}

var Registry = map[string]*Prop{}

func register(p *Prop) { Registry[p.ID] = p }

// replayer adapts a typed case evaluator.
func replayer[T any](eval func(w *mc.W, cas T)) func(c *mc.Ctx, raw json.RawMessage) {
	return func(c *mc.Ctx, raw json.RawMessage) {
		var cas T
		if err := json.Unmarshal(raw, &cas); err != nil {
			panic("replay: cannot decode case: " + err.Error())
		}
		w := c.Worker()
		eval(w, cas)
		w.Done()
	}
}
