package props

import (
	"bytes"
	"encoding/binary"
	"encoding/json"
	"fmt"
	"io"
	"math"
	"reflect"
	"strconv"
	"strings"
	"sync"
	"sync/atomic"
	"testing/iotest"
	"time"

	"github.com/gcash/bchd/chaincfg/chainhash"
	"github.com/gcash/bchd/wire"
	"github.com/gcash/bchutil"

	"verif/mc"
)

// C16 — Block and Tx wrappers agree with the wire message they wrap (E-SEQ).
//
// A case is (fixture, constructor, history of accessor calls).  The history is executed on a
// FRESH real object; after every call the returned value is compared with a fresh computation
// from MsgBlock() / MsgTx() (bchd's wire package is the reference the statement names), with
// the objects returned earlier in the same history (identity), and the pure observers
// (Height / Index, every field of the wire message) are re-read.  Observers that fill a cache
// are operations of the menu, so "observe everything after every step" is the set of
// successors of the history; a fixed sweep of every accessor on the same (then disposable)
// object is added where no successors are explored (histories of maximal length) and on replay.
//
// Two searches use that one evaluator: (1) breadth-first search to a fixpoint on the state key
// = private cache fields of the implementation (read by reflection) + the oracle's own memory,
// successors obtained by replaying the shortest history plus one call on a fresh object;
// (2) every call sequence up to a depth bound (does not depend on the key).
//
// Clauses and classes (block/..., tx/... likewise): cached-hash-differs-from-fresh,
// cached-bytes-differ-from-fresh-serialisation, cached-tx-hash-differs-from-fresh,
// tx-wraps-wrong-message, tx-index-wrong, repeated-call-returns-different-object/<accessor>,
// transactions-wrong-length / -nil-element, out-of-range-panics / -returns-no-error /
// -error-not-OutOfRangeError, txloc-does-not-delimit-serialisation / txloc-position-wrong,
// reparsed-block-not-equivalent/<what>, constructed-wire-message-differs-from-input,
// accessor-changes-wire-message, height-differs-from-last-set, accessor-panics/<accessor>.
// Not demanded (the statement does not): that Bytes() is the slice given to the constructor,
// that Transactions() returns the same slice header twice (its elements must be the same
// objects), that TxLoc() returns the same slice twice, pointer identity of MsgTx() with
// MsgBlock().Transactions[i] (field equality is).

func init() {
	register(&Prop{ID: "C16", Run: runC16, Replay: map[string]func(*mc.Ctx, json.RawMessage){
		"block": replayer(c16EvalBlock),
		"tx":    replayer(c16EvalTx),
		"twin":  replayer(c16EvalTwin),
	}})
}

// ---------------------------------------------------------------------------------------
// Fixtures: hand-built, well-formed wire messages.

func c16Bytes(tag byte, n int) []byte {
	b := make([]byte, n)
	for i := range b {
		b[i] = tag + byte(3*i) // never 0xef in position 0 for the tags used (token prefix byte)
	}
	return b
}

func c16Hash(tag byte) (h chainhash.Hash) {
	for i := range h {
		h[i] = tag ^ byte(17*i+1)
	}
	return
}

func c16P2PKH(tag byte) []byte {
	s := []byte{0x76, 0xa9, 0x14}
	s = append(s, c16Bytes(tag, 20)...)
	return append(s, 0x88, 0xac)
}

var c16TxNames = []string{"coinbase", "plain", "minimal", "token", "zerotok"}

// c16BuildTx returns a new, unshared message on every call.
func c16BuildTx(name string) *wire.MsgTx {
	switch name {
	case "coinbase":
		tx := wire.NewMsgTx(1)
		tx.AddTxIn(&wire.TxIn{PreviousOutPoint: wire.OutPoint{Index: math.MaxUint32},
			SignatureScript: []byte{0x04, 0xff, 0xff, 0x00, 0x1d, 0x01, 0x04}, Sequence: math.MaxUint32})
		tx.AddTxOut(&wire.TxOut{Value: 50_0000_0000, PkScript: c16P2PKH(0x11)})
		return tx
	case "plain":
		tx := wire.NewMsgTx(2)
		tx.AddTxIn(&wire.TxIn{PreviousOutPoint: wire.OutPoint{Hash: c16Hash(0xa1), Index: 0},
			SignatureScript: c16Bytes(0x30, 107), Sequence: 0xfffffffe})
		tx.AddTxIn(&wire.TxIn{PreviousOutPoint: wire.OutPoint{Hash: c16Hash(0xa2), Index: 7},
			SignatureScript: c16Bytes(0x47, 72), Sequence: math.MaxUint32})
		tx.AddTxOut(&wire.TxOut{Value: 12345678, PkScript: c16P2PKH(0x22)})
		tx.AddTxOut(&wire.TxOut{Value: 0, PkScript: []byte{0x6a, 0x04, 'v', 'r', 'f', 'y'}})
		tx.LockTime = 500000
		return tx
	case "minimal":
		tx := wire.NewMsgTx(1)
		tx.AddTxIn(&wire.TxIn{PreviousOutPoint: wire.OutPoint{Hash: c16Hash(0xb3), Index: 1}})
		tx.AddTxOut(&wire.TxOut{Value: 1})
		return tx
	case "token":
		// CashTokens: output 0 carries a mutable NFT with a 3-byte commitment and a fungible
		// amount that needs a 3-byte varint, output 1 a fungible-only token, output 2 nothing.
		tx := wire.NewMsgTx(2)
		tx.AddTxIn(&wire.TxIn{PreviousOutPoint: wire.OutPoint{Hash: c16Hash(0xc4), Index: 0},
			SignatureScript: c16Bytes(0x48, 100), Sequence: 0})
		tx.AddTxOut(&wire.TxOut{Value: 1000, PkScript: c16P2PKH(0x33), TokenData: wire.TokenData{
			CategoryID: c16Hash(0xc4), Commitment: []byte{0x01, 0x02, 0x03}, Amount: 1000,
			BitField: wire.HAS_AMOUNT | wire.HAS_NFT | wire.HAS_COMMITMENT_LENGTH | wire.MUTABLE}})
		tx.AddTxOut(&wire.TxOut{Value: 546, PkScript: c16P2PKH(0x44), TokenData: wire.TokenData{
			CategoryID: c16Hash(0xc4), Amount: 1, BitField: wire.HAS_AMOUNT}})
		tx.AddTxOut(&wire.TxOut{Value: 777, PkScript: c16P2PKH(0x55)})
		tx.LockTime = 1
		return tx
	}
	if raw := c16RawTx(name); raw != nil { // the message wire reads from the byte-level fixture
		var tx wire.MsgTx
		if err := tx.Deserialize(bytes.NewReader(raw)); err != nil {
			panic("C16: wire cannot parse the raw fixture " + name + ": " + err.Error())
		}
		return &tx
	}
	if name == "wide" {
		tx := wire.NewMsgTx(2)
		for k := 0; k < 253; k++ {
			tx.AddTxIn(&wire.TxIn{PreviousOutPoint: wire.OutPoint{Hash: c16Hash(0xd7), Index: uint32(k)}, SignatureScript: c16Bytes(byte(k), 1+k%3), Sequence: uint32(k)})
			tx.AddTxOut(&wire.TxOut{Value: int64(k), PkScript: c16P2PKH(byte(k))})
		}
		tx.TxOut[7].PkScript = c16Bytes(0x6a, 253)
		tx.TxIn[9].SignatureScript = c16Bytes(0x51, 65536)
		return tx
	}
	if strings.HasPrefix(name, "var#") { // distinct small transactions for the large block fixture
		var k int
		fmt.Sscanf(name[4:], "%d", &k)
		tx := wire.NewMsgTx(1)
		tx.AddTxIn(&wire.TxIn{PreviousOutPoint: wire.OutPoint{Hash: c16Hash(0xd0), Index: uint32(k)}, SignatureScript: []byte{0x51}})
		tx.AddTxOut(&wire.TxOut{Value: int64(k) + 1, PkScript: c16P2PKH(byte(k))})
		tx.LockTime = uint32(k)
		return tx
	}
	panic("C16: unknown transaction fixture " + name)
}

// c16RawTx: fixtures that exist as bytes first.  "zerotok": output 0's script field spells a
// CashToken prefix (0xef, 32-byte category, bitfield, amount) whose category id is all zero.  wire
// parses it as token data, but decides "has token data" by the category id when writing, so the
// message serialises WITHOUT the prefix: these bytes are accepted, and are not the serialisation
// of the message they produce.  Output 1 is an ordinary token output (round-trips).
func c16RawTx(name string) []byte {
	if name != "zerotok" {
		return nil
	}
	var w bytes.Buffer
	w.Write([]byte{2, 0, 0, 0, 1})
	h := c16Hash(0xe5)
	w.Write(h[:])
	w.Write([]byte{3, 0, 0, 0, 1, 0x51, 0xff, 0xff, 0xff, 0xff, 2})
	zero := append(append([]byte{wire.PREFIX_BYTE}, make([]byte, 32)...), wire.HAS_AMOUNT, 5)
	zero = append(zero, c16P2PKH(0x66)...)
	w.Write([]byte{0xe8, 3, 0, 0, 0, 0, 0, 0, byte(len(zero))})
	w.Write(zero)
	cat := c16Hash(0xc9)
	tok := append(append([]byte{wire.PREFIX_BYTE}, cat[:]...), wire.HAS_AMOUNT, 7)
	tok = append(tok, c16P2PKH(0x67)...)
	w.Write([]byte{0x22, 2, 0, 0, 0, 0, 0, 0, byte(len(tok))})
	w.Write(tok)
	w.Write([]byte{9, 0, 0, 0})
	return w.Bytes()
}

var c16BlockNames = []string{"b0", "b1", "b2", "b3", "b3tok", "b3dup", "b3zerotok"}

var c16BlockTxs = map[string][]string{
	"b0":    {},
	"b1":    {"coinbase"},
	"b2":    {"coinbase", "plain"},
	"b3":    {"coinbase", "plain", "minimal"},
	"b3tok": {"coinbase", "token", "plain"},
	"b3dup": {"coinbase", "plain", "plain"}, // two distinct messages with equal content
	// a transaction given at byte level whose bytes are NOT what wire writes back (see c16RawTx)
	"b3zerotok": {"coinbase", "zerotok", "minimal"},
	// 300 transactions (index arithmetic beyond one byte); fixed call sequences only, see runC16
	// 65540 transactions: the CompactSize transaction count needs its 5-byte form and the last four
	// indices do not fit 16 bits
	"b65540": func() []string {
		out := []string{"coinbase"}
		for k := 1; k < 65540; k++ {
			out = append(out, fmt.Sprintf("var#%d", k))
		}
		return out
	}(),
	// 252 / 253 transactions: the CompactSize transaction count changes from one byte to three
	"b252": func() []string {
		out := []string{"coinbase"}
		for k := 1; k < 252; k++ {
			out = append(out, fmt.Sprintf("var#%d", k))
		}
		return out
	}(),
	"b253": func() []string {
		out := []string{"coinbase"}
		for k := 1; k < 253; k++ {
			out = append(out, fmt.Sprintf("var#%d", k))
		}
		return out
	}(),
	// a transaction with 253 inputs, 253 outputs and a 253-byte script inside a block (three-byte counts
	// and lengths inside a transaction)
	"b3wide": {"coinbase", "wide", "minimal"},
	"b1100": func() []string { // more than a thousand transactions
		out := []string{"coinbase"}
		for k := 1; k < 1100; k++ {
			out = append(out, fmt.Sprintf("var#%d", k))
		}
		return out
	}(),
	// the blocks of the Other operation: transactions no fixture under test has
	"b1200": func() []string {
		out := []string{"coinbase"}
		for k := 1; k < 1200; k++ {
			out = append(out, fmt.Sprintf("var#%d", 5000+k))
		}
		return out
	}(),
	"b1000o": func() []string {
		out := []string{"coinbase"}
		for k := 1; k < 1000; k++ {
			out = append(out, fmt.Sprintf("var#%d", 9000+k))
		}
		return out
	}(),
	"b300o": func() []string {
		out := []string{"coinbase"}
		for k := 1; k < 300; k++ {
			out = append(out, fmt.Sprintf("var#%d", 7000+k))
		}
		return out
	}(),
	"b300": func() []string {
		out := []string{"coinbase"}
		for k := 1; k < 300; k++ {
			out = append(out, fmt.Sprintf("var#%d", k))
		}
		return out
	}(),
}

// c16BuildBlock returns a new, unshared message on every call.
func c16BuildBlock(name string) *wire.MsgBlock {
	txs, ok := c16BlockTxs[name]
	if !ok {
		panic("C16: unknown block fixture " + name)
	}
	m := wire.NewMsgBlock(&wire.BlockHeader{Version: 0x20000000, PrevBlock: c16Hash(0x01),
		MerkleRoot: c16Hash(byte(0x40 + len(txs))), Timestamp: time.Unix(1700000000+int64(len(name)), 0),
		Bits: 0x1d00ffff, Nonce: 0x9962e301 + uint32(len(txs))})
	for _, t := range txs {
		m.AddTransaction(c16BuildTx(t))
	}
	return m
}

func c16SerTx(tx *wire.MsgTx) []byte {
	var buf bytes.Buffer
	buf.Grow(tx.SerializeSize())
	if err := tx.Serialize(&buf); err != nil {
		panic("C16: wire cannot serialise a transaction: " + err.Error())
	}
	return buf.Bytes()
}

func c16SerBlock(m *wire.MsgBlock) []byte {
	var buf bytes.Buffer
	buf.Grow(m.SerializeSize())
	if err := m.Serialize(&buf); err != nil {
		panic("C16: wire cannot serialise a block: " + err.Error())
	}
	return buf.Bytes()
}

// Field print of a wire message: an injective encoding of every field the wire package reads
// (c16SelfTest pins the field lists).  wire's Serialize / BlockHash / TxHash are pure functions
// of these fields, so while the print of MsgBlock() equals the print of the fixture the fresh
// computation from MsgBlock() IS the fixture's, which is computed once.  (Calling wire after
// every step instead is correct but serialises all workers on wire's two global free-list
// channels.)  When a print differs the oracle recomputes everything from MsgBlock() with wire.

func c16PutBytes(b, s []byte) []byte {
	b = binary.LittleEndian.AppendUint32(b, uint32(len(s)))
	return append(b, s...)
}

func c16PrintTx(b []byte, tx *wire.MsgTx) []byte {
	if tx == nil {
		return append(b, 0xff)
	}
	b = append(b, 0x01)
	b = binary.LittleEndian.AppendUint32(b, uint32(tx.Version))
	b = binary.LittleEndian.AppendUint32(b, uint32(len(tx.TxIn)))
	for _, in := range tx.TxIn {
		if in == nil {
			b = append(b, 0xff)
			continue
		}
		b = append(b, 0x01)
		b = append(b, in.PreviousOutPoint.Hash[:]...)
		b = binary.LittleEndian.AppendUint32(b, in.PreviousOutPoint.Index)
		b = c16PutBytes(b, in.SignatureScript)
		b = binary.LittleEndian.AppendUint32(b, in.Sequence)
	}
	b = binary.LittleEndian.AppendUint32(b, uint32(len(tx.TxOut)))
	for _, out := range tx.TxOut {
		if out == nil {
			b = append(b, 0xff)
			continue
		}
		b = append(b, 0x01)
		b = binary.LittleEndian.AppendUint64(b, uint64(out.Value))
		b = c16PutBytes(b, out.PkScript)
		b = append(b, out.TokenData.CategoryID[:]...)
		b = c16PutBytes(b, out.TokenData.Commitment)
		b = binary.LittleEndian.AppendUint64(b, out.TokenData.Amount)
		b = append(b, out.TokenData.BitField)
	}
	return binary.LittleEndian.AppendUint32(b, tx.LockTime)
}

func c16PrintBlock(m *wire.MsgBlock) []byte {
	if m == nil {
		return []byte{0xff}
	}
	b := make([]byte, 0, 1024)
	h := &m.Header
	b = binary.LittleEndian.AppendUint32(b, uint32(h.Version))
	b = append(b, h.PrevBlock[:]...)
	b = append(b, h.MerkleRoot[:]...)
	b = binary.LittleEndian.AppendUint64(b, uint64(h.Timestamp.Unix()))
	b = binary.LittleEndian.AppendUint32(b, uint32(h.Timestamp.Nanosecond()))
	b = binary.LittleEndian.AppendUint32(b, h.Bits)
	b = binary.LittleEndian.AppendUint32(b, h.Nonce)
	b = binary.LittleEndian.AppendUint32(b, uint32(len(m.Transactions)))
	for _, tx := range m.Transactions {
		b = c16PrintTx(b, tx)
	}
	return b
}

// c16Ref: everything the oracle needs of one wire message, computed with the wire package.
type c16Ref struct {
	n      int
	print  []byte
	ser    []byte
	hash   chainhash.Hash
	txSer  [][]byte
	txHash []chainhash.Hash
	// raw: the bytes handed to the from-bytes / from-reader constructors when they are not ser
	// (byte-level fixtures); nil otherwise
	raw []byte
}

// input: what the byte constructors are given; trailing: the same followed by bytes that are not
// part of the block / transaction
func (r *c16Ref) input(ctor string) []byte {
	in := r.ser
	if r.raw != nil {
		in = r.raw
	}
	out := append([]byte{}, in...)
	if strings.HasSuffix(ctor, "+trailing") {
		out = append(out, 0xde, 0xad, 0xbe, 0xef, 0x01)
	}
	return out
}

func c16BlockRefOf(m *wire.MsgBlock) *c16Ref {
	r := &c16Ref{n: len(m.Transactions), print: c16PrintBlock(m), ser: c16SerBlock(m), hash: m.BlockHash()}
	for _, tx := range m.Transactions {
		r.txSer = append(r.txSer, c16SerTx(tx))
		r.txHash = append(r.txHash, tx.TxHash())
	}
	return r
}

func c16TxRefOf(tx *wire.MsgTx) *c16Ref {
	return &c16Ref{print: c16PrintTx(nil, tx), ser: c16SerTx(tx), hash: tx.TxHash()}
}

var (
	c16Once      sync.Once
	c16BlockRefs map[string]*c16Ref
	c16TxRefs    map[string]*c16Ref
)

func c16Refs() {
	c16Once.Do(func() {
		c16BlockRefs = map[string]*c16Ref{}
		c16TxRefs = map[string]*c16Ref{}
		for _, n := range append(append([]string{}, c16BlockNames...), "b252", "b253", "b3wide", "b300", "b1100", "b65540", "b1200", "b1000o", "b300o") {
			c16BlockRefs[n] = c16BlockRefOf(c16BuildBlock(n))
		}
		for _, n := range c16TxNames {
			c16TxRefs[n] = c16TxRefOf(c16BuildTx(n))
			c16TxRefs[n].raw = c16RawTx(n)
		}
		for n, txs := range c16BlockTxs { // blocks containing a byte-level transaction: header, count, the transactions' input bytes
			r, isRaw := c16BlockRefs[n], false
			if r == nil {
				continue
			}
			raw := append([]byte{}, r.ser[:80]...)
			var cnt bytes.Buffer
			wire.WriteVarInt(&cnt, 0, uint64(len(txs)))
			raw = append(raw, cnt.Bytes()...)
			for i, t := range txs {
				if rt := c16RawTx(t); rt != nil {
					raw, isRaw = append(raw, rt...), true
				} else {
					raw = append(raw, r.txSer[i]...)
				}
			}
			if isRaw {
				r.raw = raw
			}
		}
	})
}

func c16Fields(t reflect.Type) string {
	var names []string
	for i := 0; i < t.NumField(); i++ {
		names = append(names, t.Field(i).Name)
	}
	return strings.Join(names, ",")
}

// c16SelfTest: the fixtures are well-formed for the dependency (decode . encode = identity and
// the decoded message has the fixture's field print), and the field print covers every field
// of the wire structs; otherwise the harness, not the library, is at fault.
func c16SelfTest() {
	c16Refs()
	for typ, want := range map[reflect.Type]string{
		reflect.TypeOf(wire.MsgBlock{}):    "Header,Transactions",
		reflect.TypeOf(wire.BlockHeader{}): "Version,PrevBlock,MerkleRoot,Timestamp,Bits,Nonce",
		reflect.TypeOf(wire.MsgTx{}):       "Version,TxIn,TxOut,LockTime",
		reflect.TypeOf(wire.TxIn{}):        "PreviousOutPoint,SignatureScript,Sequence",
		reflect.TypeOf(wire.OutPoint{}):    "Hash,Index",
		reflect.TypeOf(wire.TxOut{}):       "Value,PkScript,TokenData",
		reflect.TypeOf(wire.TokenData{}):   "CategoryID,Commitment,Amount,BitField",
	} {
		if got := c16Fields(typ); got != want {
			panic("C16 self-test: " + typ.String() + " has fields " + got + ", the field print covers " + want)
		}
	}
	for n, r := range c16BlockRefs {
		var m wire.MsgBlock
		if err := m.Deserialize(bytes.NewReader(r.input(""))); err != nil {
			panic("C16 self-test: wire rejects block fixture " + n + ": " + err.Error())
		}
		if !bytes.Equal(c16SerBlock(&m), r.ser) || !bytes.Equal(c16PrintBlock(&m), r.print) {
			panic("C16 self-test: block fixture " + n + " does not survive wire decode/encode")
		}
	}
	for n, r := range c16TxRefs {
		var m wire.MsgTx
		if err := m.Deserialize(bytes.NewReader(r.input(""))); err != nil {
			panic("C16 self-test: wire rejects transaction fixture " + n + ": " + err.Error())
		}
		if !bytes.Equal(c16SerTx(&m), r.ser) || !bytes.Equal(c16PrintTx(nil, &m), r.print) {
			panic("C16 self-test: transaction fixture " + n + " does not survive wire decode/encode")
		}
	}
	if zr := c16TxRefs["zerotok"]; bytes.Equal(zr.raw, zr.ser) {
		panic("C16 self-test: the byte-level fixture round-trips through wire; it no longer exercises non-canonical input")
	}
	tok := c16BuildTx("token")
	if tok.TxOut[0].TokenData.IsEmpty() || !tok.TxOut[0].TokenData.IsValidBitfield() || !tok.TxOut[1].TokenData.IsValidBitfield() {
		panic("C16 self-test: token fixture carries no valid token data")
	}
	// the print separates the fixtures from each other and from a one-field change
	m := c16BuildBlock("b3tok")
	m.Transactions[1].TxOut[0].TokenData.Commitment[2] ^= 1
	if bytes.Equal(c16PrintBlock(m), c16BlockRefs["b3tok"].print) {
		panic("C16 self-test: field print misses a token commitment change")
	}
}

// ---------------------------------------------------------------------------------------
// Operations

const (
	c16OpTx = iota
	c16OpTxHash
	c16OpTransactions
	c16OpHash
	c16OpBytes
	c16OpTxLoc
	c16OpSetHeight
	c16OpOther // not an accessor of the block under test: ANOTHER, large block is wrapped and serialised now
	// transaction wrapper
	c16OpTHash
	c16OpTMsgTx
	c16OpTIndex
	c16OpTSetIndex
)

type c16Op struct {
	kind int
	arg  int
}

var c16OpNames = map[int]string{c16OpTx: "Tx", c16OpTxHash: "TxHash", c16OpTransactions: "Transactions",
	c16OpHash: "Hash", c16OpBytes: "Bytes", c16OpTxLoc: "TxLoc", c16OpSetHeight: "SetHeight", c16OpOther: "Other",
	c16OpTHash: "Hash", c16OpTMsgTx: "MsgTx", c16OpTIndex: "Index", c16OpTSetIndex: "SetIndex"}

func (o c16Op) hasArg() bool {
	switch o.kind {
	case c16OpTx, c16OpTxHash, c16OpSetHeight, c16OpTSetIndex:
		return true
	}
	return false
}

func (o c16Op) String() string {
	if o.hasArg() {
		return c16OpNames[o.kind] + "(" + strconv.Itoa(o.arg) + ")"
	}
	return c16OpNames[o.kind]
}

func c16ParseOp(s string, tx bool) c16Op {
	name, arg, has := s, 0, false
	if i := strings.IndexByte(s, '('); i >= 0 && strings.HasSuffix(s, ")") {
		v, err := strconv.Atoi(s[i+1 : len(s)-1])
		if err != nil {
			panic("C16: bad operation " + s)
		}
		name, arg, has = s[:i], v, true
	}
	var kinds []int
	if tx {
		kinds = []int{c16OpTHash, c16OpTMsgTx, c16OpTIndex, c16OpTSetIndex}
	} else {
		kinds = []int{c16OpTx, c16OpTxHash, c16OpTransactions, c16OpHash, c16OpBytes, c16OpTxLoc, c16OpSetHeight, c16OpOther}
	}
	for _, k := range kinds {
		o := c16Op{kind: k, arg: arg}
		if c16OpNames[k] == name && o.hasArg() == has {
			return o
		}
	}
	panic("C16: unknown operation " + s)
}

func c16OpStrings(ops []c16Op) []string {
	out := make([]string, len(ops))
	for i, o := range ops {
		out[i] = o.String()
	}
	return out
}

func c16FirstDiff(a, b []byte) int {
	for i := 0; i < len(a) && i < len(b); i++ {
		if a[i] != b[i] {
			return i
		}
	}
	return min(len(a), len(b))
}

// c16Indices: -1, 0..n-1, n, MaxInt
func c16Indices(n int) []int {
	idx := []int{-1}
	for i := 0; i <= n; i++ {
		idx = append(idx, i)
	}
	return append(idx, math.MaxInt)
}

const c16HeightArg = 7

// c16BlockMenu is the operation alphabet of a block with n transactions.
// c16FarIndices: out-of-range indices that look in range after narrowing
func c16FarIndices(n int) []int {
	out := []int{1 << 16, 1 << 32, 1<<32 - 1, 1 << 40, math.MinInt, -1 << 32, -1<<32 + 1, math.MaxInt32, math.MaxInt32 + 1}
	if n > 0 {
		out = append(out, 1<<32+(n-1), 1<<16+(n-1), -(1<<32)+(n-1))
	}
	var keep []int
	for _, i := range out {
		if i < 0 || i >= n {
			keep = append(keep, i)
		}
	}
	return keep
}

func c16BlockMenu(n int) []c16Op {
	var m []c16Op
	for _, i := range c16Indices(n) {
		m = append(m, c16Op{c16OpTx, i})
	}
	for _, i := range c16Indices(n) {
		m = append(m, c16Op{c16OpTxHash, i})
	}
	m = append(m, c16Op{kind: c16OpTransactions}, c16Op{kind: c16OpHash}, c16Op{kind: c16OpBytes},
		c16Op{kind: c16OpTxLoc}, c16Op{c16OpSetHeight, c16HeightArg})
	return m
}

var c16TxMenu = []c16Op{{kind: c16OpTHash}, {kind: c16OpTMsgTx}, {kind: c16OpTIndex},
	{c16OpTSetIndex, 0}, {c16OpTSetIndex, 2}, {c16OpTSetIndex, bchutil.TxIndexUnknown}}

var c16BlockCtors = []string{"NewBlock", "NewBlockFromBytes", "NewBlockFromReader", "NewBlockFromBlockAndBytes", "NewBlockFromBytes+trailing", "NewBlockFromReader+trailing",
	"NewBlockFromReader+onebyte", "NewBlockFromReader+half", // readers that deliver less than asked for (a network connection)
	"NewBlockFromReader+offset", "NewBlockFromReader+second", "NewBlockFromReader+buffer"} // a *bytes.Reader that does not stand at its beginning: after an 8-byte record header / after another block read from the same reader
var c16TxCtors = []string{"NewTx", "NewTxFromBytes", "NewTxFromReader", "NewTxFromBytes+trailing", "NewTxFromReader+trailing", "NewTxFromReader+onebyte", "NewTxFromReader+half", "NewTxFromReader+offset", "NewTxFromReader+buffer"}

// c16Reader: the reader handed to a from-reader constructor
func c16Reader(ctor string, b []byte) io.Reader {
	switch {
	case strings.HasSuffix(ctor, "+onebyte"):
		return iotest.OneByteReader(bytes.NewReader(b))
	case strings.HasSuffix(ctor, "+half"):
		return iotest.HalfReader(bytes.NewReader(b))
	case strings.HasSuffix(ctor, "+offset"): // magic + length in front, already consumed; a few bytes behind
		r := bytes.NewReader(append(append([]byte{0xe3, 0xe1, 0xf3, 0xe8, 1, 2, 3, 4}, b...), 0xaa, 0xbb))
		r.Seek(8, io.SeekStart)
		return r
	case strings.HasSuffix(ctor, "+second"): // another block (the two-transaction fixture) read from the same reader first
		first := c16BlockRefs["b2"].ser
		r := bytes.NewReader(append(append([]byte{}, first...), b...))
		if ob, err := bchutil.NewBlockFromReader(r); err != nil || ob == nil {
			panic("C16: first block of a two-block reader does not parse")
		}
		return r
	}
	return bytes.NewReader(b)
}

// ---------------------------------------------------------------------------------------
// Implementation state key (private fields, read-only reflection).  A field that no longer
// exists contributes "?" and the search degrades to the oracle-memory key plus the depth bound.

func c16TxImplKey(sb *strings.Builder, tv reflect.Value) {
	if h := tv.FieldByName("txHash"); h.IsValid() && h.Kind() == reflect.Ptr {
		if h.IsNil() {
			sb.WriteString("t")
		} else {
			sb.WriteString("H")
		}
	} else {
		sb.WriteString("?")
	}
	if ix := tv.FieldByName("txIndex"); ix.IsValid() && ix.CanInt() {
		sb.WriteString(strconv.FormatInt(ix.Int(), 10))
	} else {
		sb.WriteString("?")
	}
	c16UnknownFields(sb, tv, "msgTx", "txHash", "txIndex")
}

func c16BlockImplKey(b *bchutil.Block) string {
	v := reflect.ValueOf(b).Elem()
	var sb strings.Builder
	if f := v.FieldByName("transactions"); f.IsValid() && f.Kind() == reflect.Slice {
		if f.IsNil() {
			sb.WriteString("T-")
		} else {
			sb.WriteString("T[")
			for i := 0; i < f.Len(); i++ {
				e := f.Index(i)
				if e.Kind() != reflect.Ptr {
					sb.WriteString("?")
				} else if e.IsNil() {
					sb.WriteString(".")
				} else {
					c16TxImplKey(&sb, e.Elem())
				}
				sb.WriteString(",")
			}
			sb.WriteString("]")
		}
	} else {
		sb.WriteString("T?")
	}
	flag := func(name string, get func(reflect.Value) (bool, bool)) {
		f := v.FieldByName(name)
		if !f.IsValid() {
			sb.WriteString(" ?")
			return
		}
		on, ok := get(f)
		switch {
		case !ok:
			sb.WriteString(" ?")
		case on:
			sb.WriteString(" 1")
		default:
			sb.WriteString(" 0")
		}
	}
	flag("txnsGenerated", func(f reflect.Value) (bool, bool) {
		return f.Kind() == reflect.Bool && f.Bool(), f.Kind() == reflect.Bool
	})
	flag("blockHash", func(f reflect.Value) (bool, bool) {
		return f.Kind() == reflect.Ptr && !f.IsNil(), f.Kind() == reflect.Ptr
	})
	flag("serializedBlock", func(f reflect.Value) (bool, bool) {
		return f.Kind() == reflect.Slice && f.Len() != 0, f.Kind() == reflect.Slice
	})
	if f := v.FieldByName("blockHeight"); f.IsValid() && f.CanInt() {
		sb.WriteString(" h" + strconv.FormatInt(f.Int(), 10))
	} else {
		sb.WriteString(" h?")
	}
	c16UnknownFields(&sb, v, "msgBlock", "transactions", "txnsGenerated", "blockHash", "serializedBlock", "blockHeight")
	return sb.String()
}

// c16UnknownFields appends a summary of every struct field not named in known: a cache added by a
// change is implementation state too, and states that differ in it must not be merged.
func c16UnknownFields(sb *strings.Builder, v reflect.Value, known ...string) {
	for fi := 0; fi < v.NumField(); fi++ {
		name := v.Type().Field(fi).Name
		skip := false
		for _, k := range known {
			if k == name {
				skip = true
			}
		}
		if skip {
			continue
		}
		fv := v.Field(fi)
		switch fv.Kind() {
		case reflect.Slice, reflect.Map:
			fmt.Fprintf(sb, " %s=len%d", name, fv.Len())
		case reflect.Ptr, reflect.Interface, reflect.Func, reflect.Chan:
			fmt.Fprintf(sb, " %s=nil%v", name, fv.IsNil())
		case reflect.Bool:
			fmt.Fprintf(sb, " %s=%v", name, fv.Bool())
		case reflect.Int, reflect.Int8, reflect.Int16, reflect.Int32, reflect.Int64:
			fmt.Fprintf(sb, " %s=%d", name, fv.Int())
		case reflect.Uint, reflect.Uint8, reflect.Uint16, reflect.Uint32, reflect.Uint64:
			fmt.Fprintf(sb, " %s=%d", name, fv.Uint())
		default:
			fmt.Fprintf(sb, " %s=zero%v", name, fv.IsZero())
		}
	}
}

func c16MissingFields() []string {
	var missing []string
	bt := reflect.TypeOf(bchutil.Block{})
	for _, n := range []string{"transactions", "txnsGenerated", "blockHash", "serializedBlock", "blockHeight"} {
		if _, ok := bt.FieldByName(n); !ok {
			missing = append(missing, "Block."+n)
		}
	}
	tt := reflect.TypeOf(bchutil.Tx{})
	for _, n := range []string{"txHash", "txIndex"} {
		if _, ok := tt.FieldByName(n); !ok {
			missing = append(missing, "Tx."+n)
		}
	}
	return missing
}

// ---------------------------------------------------------------------------------------
// Block evaluator

type c16BlockCase struct {
	Fixture string   `json:"fixture"`
	Ctor    string   `json:"ctor"`
	Ops     []string `json:"ops"`
	// Other: a second block ("fixture|ctor") that is constructed AFTER the block under test and before
	// its accessors are called (wrappers must be independent of each other)
	Other string `json:"other,omitempty"`
}

// c16OtherFor passes the Other field to c16RunBlock (keyed by the worker).
var c16OtherFor sync.Map

type c16BlockRun struct {
	w       *mc.W
	fixture string
	ctor    string
	ops     []c16Op
	ref     *c16Ref
	b       *bchutil.Block

	// what the oracle remembers of this history
	height     int32
	hashSeen   *chainhash.Hash
	bytesSeen  []byte
	txSeen     []*bchutil.Tx
	txSeenBy   []string
	txHashSeen []*chainhash.Hash
	// expected cache contents (for outcome names and the non-triviality rule only)
	slot        []uint8 // 0 empty, 1 wrapped, 2 wrapped and hashed
	bytesCached bool
	allGen      bool
	nontrivial  bool

	// per step
	k     int
	op    c16Op
	sweep bool
	msg   *wire.MsgBlock
	cur   *c16Ref // fresh computation from msg (the fixture's while the field prints agree)
}

func (r *c16BlockRun) viol(class, detail string) {
	where := "constructor " + r.ctor
	if r.sweep {
		where = fmt.Sprintf("final sweep call %s after the history", r.op)
	} else if r.k >= 0 {
		where = fmt.Sprintf("ops[%d]=%s", r.k, r.op)
	}
	r.w.Ctx().Violate(class, "block", c16BlockCase{Fixture: r.fixture, Ctor: r.ctor, Ops: c16OpStrings(r.ops)}, where+": "+detail)
}

// observe re-reads the pure observers: the wire message and the height.
func (r *c16BlockRun) observe() bool {
	w := r.w
	w.Eval()
	var msg *wire.MsgBlock
	var h int32
	var print []byte
	if m, p := mc.Guard(func() { msg = r.b.MsgBlock(); h = r.b.Height(); print = c16PrintBlock(msg) }); p {
		r.viol("block/accessor-panics/MsgBlock-or-Height", m)
		return false
	}
	if msg == nil {
		r.viol("block/wire-message-unusable", "MsgBlock() is nil")
		return false
	}
	if len(msg.Transactions) != r.ref.n {
		r.viol("block/wire-message-transaction-count-differs-from-input", fmt.Sprintf("MsgBlock() has %d transactions, constructor was given %d", len(msg.Transactions), r.ref.n))
		return false
	}
	r.msg = msg
	switch {
	case bytes.Equal(print, r.ref.print):
		r.cur = r.ref
	case r.cur != nil && bytes.Equal(print, r.cur.print):
		// changed earlier and reported then
	default:
		var cur *c16Ref
		if m, p := mc.Guard(func() { cur = c16BlockRefOf(msg) }); p {
			r.viol("block/wire-message-unusable", "MsgBlock() cannot be serialised: "+m)
			return false
		}
		r.cur = cur
		if r.k < 0 {
			r.viol("block/constructed-wire-message-differs-from-input", fmt.Sprintf("MsgBlock() serialises to %x, constructor was given %x", cur.ser, r.ref.ser))
		} else {
			r.viol("block/accessor-changes-wire-message", fmt.Sprintf("MsgBlock() now serialises to %x", cur.ser))
		}
	}
	if h != r.height {
		r.viol("block/height-differs-from-last-set", fmt.Sprintf("Height()=%d want %d", h, r.height))
	}
	return true
}

func (r *c16BlockRun) inRange(i int) bool { return i >= 0 && i < len(r.msg.Transactions) }

// checkWrapped applies the per-index clauses to a wrapped transaction returned for index i.
func (r *c16BlockRun) checkWrapped(via string, i int, t *bchutil.Tx) {
	var ix int
	var m *wire.MsgTx
	if msg, p := mc.Guard(func() { ix = t.Index(); m = t.MsgTx() }); p {
		r.viol("block/accessor-panics/wrapped-tx", msg)
		return
	}
	if ix != i {
		r.viol("block/tx-index-wrong/"+via, fmt.Sprintf("wrapped transaction for index %d has Index()=%d", i, ix))
	}
	if m != r.msg.Transactions[i] && !bytes.Equal(c16PrintTx(nil, m), c16PrintTx(nil, r.msg.Transactions[i])) {
		r.viol("block/tx-wraps-wrong-message/"+via, fmt.Sprintf("MsgTx() of wrapped transaction %d differs from MsgBlock().Transactions[%d] (%x)", i, i, r.cur.txSer[i]))
	}
	if i < len(r.txSeen) {
		if r.txSeen[i] == nil {
			r.txSeen[i], r.txSeenBy[i] = t, via
		} else if r.txSeen[i] != t {
			r.viol("block/repeated-call-returns-different-object/"+via, fmt.Sprintf("wrapped transaction %d is not the object returned earlier by %s", i, r.txSeenBy[i]))
		}
	}
}

func (r *c16BlockRun) outOfRange(name string, i int, panicked bool, pmsg string, err error) {
	r.w.Outcome("block " + name + " out of range")
	switch {
	case panicked:
		r.viol("block/out-of-range-panics/"+name, fmt.Sprintf("%s(%d) on %d transactions: %s", name, i, len(r.msg.Transactions), pmsg))
	case err == nil:
		r.viol("block/out-of-range-returns-no-error/"+name, fmt.Sprintf("%s(%d) on %d transactions", name, i, len(r.msg.Transactions)))
	default:
		if _, ok := err.(bchutil.OutOfRangeError); !ok {
			r.viol("block/out-of-range-error-not-OutOfRangeError/"+name, fmt.Sprintf("%s(%d): %T %v", name, i, err, err))
		}
	}
}

func (r *c16BlockRun) checkBytes(raw []byte, err error, doReparse bool) bool {
	if err != nil {
		r.viol("block/bytes-returns-error", err.Error())
		return false
	}
	if !bytes.Equal(raw, r.cur.ser) {
		r.viol("block/cached-bytes-differ-from-fresh-serialisation", fmt.Sprintf("Bytes()=%x fresh=%x", raw, r.cur.ser))
	}
	if len(raw) > 0 {
		if r.bytesSeen == nil {
			r.bytesSeen = raw
		} else if len(raw) != len(r.bytesSeen) || &raw[0] != &r.bytesSeen[0] {
			r.viol("block/repeated-call-returns-different-object/Bytes", "Bytes() returned a different slice than an earlier call")
		}
	}
	r.bytesCached = true
	if doReparse {
		r.reparse(raw)
	}
	return true
}

// c16Reparsed remembers which byte strings have been through the re-parse clause: it is a
// statement about the bytes alone (a new object is built from them), so it is evaluated once
// per (fixture, constructor, distinct Bytes() content) and process, not once per call.
var c16Reparsed sync.Map

// reparse: NewBlockFromBytes(b.Bytes()) is equivalent to b (hash, transaction hashes, bytes).
func (r *c16BlockRun) reparse(raw []byte) {
	w := r.w
	if !w.Ctx().Replaying {
		if _, done := c16Reparsed.LoadOrStore(r.fixture+"/"+r.ctor+"/"+string(raw), true); done {
			return
		}
	}
	w.Eval()
	w.Outcome("block re-parsed from Bytes()")
	var b2 *bchutil.Block
	var err error
	if msg, p := mc.Guard(func() { b2, err = bchutil.NewBlockFromBytes(raw) }); p || err != nil || b2 == nil {
		r.viol("block/reparsed-block-not-equivalent/parse-fails", fmt.Sprintf("NewBlockFromBytes(b.Bytes()): panic=%q err=%v", msg, err))
		return
	}
	w.Trans()
	n := len(r.msg.Transactions)
	var h2 *chainhash.Hash
	var raw2 []byte
	var n2 int
	txh := make([]*chainhash.Hash, n)
	var terr error
	if msg, p := mc.Guard(func() {
		h2 = b2.Hash()
		raw2, err = b2.Bytes()
		n2 = len(b2.MsgBlock().Transactions)
		for i := 0; i < n && i < n2 && terr == nil; i++ {
			txh[i], terr = b2.TxHash(i)
		}
	}); p {
		r.viol("block/reparsed-block-not-equivalent/accessor-panics", msg)
		return
	}
	w.TransN(int64(2 + n))
	if h2 == nil || *h2 != r.cur.hash {
		r.viol("block/reparsed-block-not-equivalent/hash", fmt.Sprintf("got %v want %v", h2, r.cur.hash))
	}
	if err != nil || !bytes.Equal(raw2, raw) {
		r.viol("block/reparsed-block-not-equivalent/bytes", fmt.Sprintf("err=%v bytes=%x want %x", err, raw2, raw))
	}
	if n2 != n || terr != nil {
		r.viol("block/reparsed-block-not-equivalent/transaction-count", fmt.Sprintf("%d transactions (err %v), original has %d", n2, terr, n))
		return
	}
	for i := 0; i < n; i++ {
		if txh[i] == nil || *txh[i] != r.cur.txHash[i] {
			r.viol("block/reparsed-block-not-equivalent/tx-hash", fmt.Sprintf("transaction %d: got %v want %v", i, txh[i], r.cur.txHash[i]))
		}
	}
}

func (r *c16BlockRun) sparse() bool {
	filled := 0
	for _, s := range r.slot {
		if s > 0 {
			filled++
		}
	}
	return filled > 0 && filled < len(r.slot)
}

func (r *c16BlockRun) touch() { // a path that depends on earlier calls of the history
	if !r.sweep {
		r.nontrivial = true
	}
}

// step executes one call on the live object and applies the oracle.
func (r *c16BlockRun) step(k int, op c16Op, sweep bool) bool {
	w, b := r.w, r.b
	r.k, r.op, r.sweep = k, op, sweep
	w.Trans()
	w.Eval()
	n := len(r.msg.Transactions)
	switch op.kind {
	case c16OpHash:
		var h *chainhash.Hash
		if msg, p := mc.Guard(func() { h = b.Hash() }); p {
			r.viol("block/accessor-panics/Hash", msg)
			break
		}
		if r.hashSeen == nil {
			w.Outcome("block Hash: first call")
		} else {
			w.Outcome("block Hash: repeated call")
			r.touch()
		}
		if h == nil {
			r.viol("block/hash-nil", "Hash() returned nil")
			break
		}
		if *h != r.cur.hash {
			r.viol("block/cached-hash-differs-from-fresh", fmt.Sprintf("Hash()=%v MsgBlock().BlockHash()=%v", h, r.cur.hash))
		}
		if r.hashSeen == nil {
			r.hashSeen = h
		} else if r.hashSeen != h {
			r.viol("block/repeated-call-returns-different-object/Hash", "Hash() returned a different pointer than an earlier call")
		}

	case c16OpBytes:
		var raw []byte
		var err error
		if msg, p := mc.Guard(func() { raw, err = b.Bytes() }); p {
			r.viol("block/accessor-panics/Bytes", msg)
			break
		}
		switch {
		case r.bytesSeen != nil:
			w.Outcome("block Bytes: repeated call")
			r.touch()
		case r.bytesCached:
			w.Outcome("block Bytes: first call, bytes cached by constructor or TxLoc")
		default:
			w.Outcome("block Bytes: first call, serialised lazily")
		}
		r.checkBytes(raw, err, true)

	case c16OpTx:
		i := op.arg
		var t *bchutil.Tx
		var err error
		msg, p := mc.Guard(func() { t, err = b.Tx(i) })
		if !r.inRange(i) {
			if r.hashSeen != nil || r.bytesCached || r.allGen || r.sparse() {
				r.touch()
			}
			r.outOfRange("Tx", i, p, msg, err)
			break
		}
		if p {
			r.viol("block/accessor-panics/Tx", msg)
			break
		}
		if r.slot[i] == 0 {
			w.Outcome("block Tx in range: slot empty")
			r.slot[i] = 1
		} else {
			w.Outcome("block Tx in range: slot filled")
			r.touch()
		}
		if err != nil || t == nil {
			r.viol("block/tx-in-range-returns-error", fmt.Sprintf("Tx(%d) on %d transactions: tx=%v err=%v", i, n, t, err))
			break
		}
		r.checkWrapped("Tx", i, t)

	case c16OpTxHash:
		i := op.arg
		var h *chainhash.Hash
		var err error
		msg, p := mc.Guard(func() { h, err = b.TxHash(i) })
		if !r.inRange(i) {
			if r.hashSeen != nil || r.bytesCached || r.allGen || r.sparse() {
				r.touch()
			}
			r.outOfRange("TxHash", i, p, msg, err)
			break
		}
		if p {
			r.viol("block/accessor-panics/TxHash", msg)
			break
		}
		switch r.slot[i] {
		case 0:
			w.Outcome("block TxHash in range: slot empty")
		case 1:
			w.Outcome("block TxHash in range: slot filled, hash not cached")
			r.touch()
		default:
			w.Outcome("block TxHash in range: hash cached")
			r.touch()
		}
		r.slot[i] = 2
		if err != nil || h == nil {
			r.viol("block/txhash-in-range-returns-error", fmt.Sprintf("TxHash(%d) on %d transactions: hash=%v err=%v", i, n, h, err))
			break
		}
		if *h != r.cur.txHash[i] {
			r.viol("block/cached-tx-hash-differs-from-fresh", fmt.Sprintf("TxHash(%d)=%v MsgBlock().Transactions[%d].TxHash()=%v", i, h, i, r.cur.txHash[i]))
		}
		if r.txHashSeen[i] == nil {
			r.txHashSeen[i] = h
		} else if r.txHashSeen[i] != h {
			r.viol("block/repeated-call-returns-different-object/TxHash", fmt.Sprintf("TxHash(%d) returned a different pointer than an earlier call", i))
		}

	case c16OpTransactions:
		var ts []*bchutil.Tx
		if msg, p := mc.Guard(func() { ts = b.Transactions() }); p {
			r.viol("block/accessor-panics/Transactions", msg)
			break
		}
		switch {
		case n == 0:
			w.Outcome("block Transactions: empty block")
		case r.allGen:
			w.Outcome("block Transactions: repeated call")
			r.touch()
		case r.sparse():
			w.Outcome("block Transactions: completes a sparse cache")
			r.touch()
		case r.slot[0] > 0:
			w.Outcome("block Transactions: every slot already filled one by one")
			r.touch()
		default:
			w.Outcome("block Transactions: no slot filled")
		}
		r.allGen = true
		for i := range r.slot {
			if r.slot[i] == 0 {
				r.slot[i] = 1
			}
		}
		if len(ts) != n {
			r.viol("block/transactions-wrong-length", fmt.Sprintf("len(Transactions())=%d, MsgBlock() has %d", len(ts), n))
			break
		}
		for i, t := range ts {
			if t == nil {
				r.viol("block/transactions-nil-element", fmt.Sprintf("Transactions()[%d] is nil", i))
				continue
			}
			r.checkWrapped("Transactions", i, t)
		}

	case c16OpOther:
		// three other blocks (1200, 1000 and 300 transactions: larger than, a little smaller than and far
		// smaller than the 1100-transaction fixture, on both sides of any plausible size threshold,
		// different from every fixture under test) go through every route that serialises or parses;
		// what the block under test handed out earlier must still be what it was
		mc.Guard(func() {
			for _, name := range []string{"b1200", "b1000o", "b300o"} {
				ob := bchutil.NewBlock(c16BuildBlock(name))
				ob.Bytes()
				ob.TxLoc()
				ob.Hash()
				if ob2, _ := bchutil.NewBlockFromBytes(append([]byte{}, c16BlockRefs[name].ser...)); ob2 != nil {
					ob2.TxLoc()
					ob2.Transactions()
				}
				if ob3, _ := bchutil.NewBlockFromReader(bytes.NewReader(c16BlockRefs[name].ser)); ob3 != nil {
					ob3.Bytes()
				}
			}
		})
		w.Outcome("another block serialised in between")
		if r.bytesSeen != nil && !bytes.Equal(r.bytesSeen, r.cur.ser) {
			r.viol("block/bytes-handed-out-earlier-changed-when-another-block-was-serialised", fmt.Sprintf("%d bytes; first difference at offset %d", len(r.bytesSeen), c16FirstDiff(r.bytesSeen, r.cur.ser)))
		}
	case c16OpTxLoc:
		var locs []wire.TxLoc
		var err error
		if msg, p := mc.Guard(func() { locs, err = b.TxLoc() }); p {
			r.viol("block/accessor-panics/TxLoc", msg)
			break
		}
		w.Outcome("block TxLoc")
		if r.bytesCached {
			r.touch()
		}
		if err != nil {
			r.viol("block/txloc-returns-error", err.Error())
			break
		}
		if len(locs) != n {
			r.viol("block/txloc-wrong-count", fmt.Sprintf("%d locations for %d transactions", len(locs), n))
			break
		}
		// the statement speaks of Bytes(): take them from the object
		var raw []byte
		if msg, p := mc.Guard(func() { raw, err = b.Bytes() }); p {
			r.viol("block/accessor-panics/Bytes", msg)
			break
		}
		w.Trans()
		if !r.checkBytes(raw, err, false) {
			break
		}
		pos := 80 + wire.VarIntSerializeSize(uint64(n))
		for i, l := range locs {
			want := r.cur.txSer[i]
			if l.TxStart < 0 || l.TxLen < 0 || l.TxStart > len(raw) || l.TxLen > len(raw)-l.TxStart ||
				!bytes.Equal(raw[l.TxStart:l.TxStart+l.TxLen], want) {
				r.viol("block/txloc-does-not-delimit-serialisation", fmt.Sprintf("transaction %d: location {%d,%d} in %d block bytes is not its serialisation (%d bytes)", i, l.TxStart, l.TxLen, len(raw), len(want)))
			} else if l.TxStart != pos {
				r.viol("block/txloc-position-wrong", fmt.Sprintf("transaction %d starts at %d, location says %d", i, pos, l.TxStart))
			}
			pos += len(want)
		}
		// the slice belongs to the caller now (TxLoc computes its answer afresh; a caller may rebase the
		// offsets in place): what the next call returns must not depend on what is done to it
		for i := range locs {
			locs[i].TxStart += 8
			locs[i].TxLen = 0
		}

	case c16OpSetHeight:
		if msg, p := mc.Guard(func() { b.SetHeight(int32(op.arg)) }); p {
			r.viol("block/accessor-panics/SetHeight", msg)
			break
		}
		w.Outcome("block SetHeight")
		r.height = int32(op.arg)
	}
	return r.observe()
}

func (r *c16BlockRun) modelKey() string {
	var sb strings.Builder
	fmt.Fprintf(&sb, "|m h%d", r.height)
	if r.hashSeen != nil {
		sb.WriteString(" H")
	}
	if r.bytesSeen != nil {
		sb.WriteString(" B")
	}
	for i := range r.txSeen {
		c := byte('0')
		if r.txSeen[i] != nil {
			c++
		}
		if r.txHashSeen[i] != nil {
			c += 2
		}
		sb.WriteByte(' ')
		sb.WriteByte(c)
	}
	return sb.String()
}

// c16RunBlock executes one history.  key is the state reached by the history (before the sweep).
// sweep: also call every accessor once more afterwards (always on replay; the enumerator
// leaves it out where the same calls are explored as successors anyway).
func c16RunBlock(w *mc.W, fixture, ctor string, ops []c16Op, wantKey, sweep bool) (key string) {
	c16Refs()
	ref := c16BlockRefs[fixture]
	if ref == nil {
		panic("C16: unknown block fixture " + fixture)
	}
	r := &c16BlockRun{w: w, fixture: fixture, ctor: ctor, ops: ops, ref: ref, k: -1,
		height: bchutil.BlockHeightUnknown, txSeen: make([]*bchutil.Tx, ref.n), txSeenBy: make([]string, ref.n),
		txHashSeen: make([]*chainhash.Hash, ref.n), slot: make([]uint8, ref.n)}
	var b *bchutil.Block
	var err error
	ser := ref.input(ctor) // the object may keep the slice: it gets its own copy
	msg, p := mc.Guard(func() {
		switch ctor {
		case "NewBlock":
			b = bchutil.NewBlock(c16BuildBlock(fixture))
		case "NewBlockFromBytes", "NewBlockFromBytes+trailing":
			b, err = bchutil.NewBlockFromBytes(ser)
			r.bytesCached = true
		case "NewBlockFromReader+buffer":
			// a *bytes.Buffer that the caller goes on using (the next message is read into it)
			buf := bytes.NewBuffer(ser)
			b, err = bchutil.NewBlockFromReader(buf)
			buf.Reset()
			buf.Write(bytes.Repeat([]byte{0xa5}, len(ser)))
			for i := range ser {
				ser[i] = 0x5a
			}
		case "NewBlockFromReader", "NewBlockFromReader+trailing", "NewBlockFromReader+onebyte", "NewBlockFromReader+half", "NewBlockFromReader+offset", "NewBlockFromReader+second":
			b, err = bchutil.NewBlockFromReader(c16Reader(ctor, ser))
		case "NewBlockFromBlockAndBytes":
			b = bchutil.NewBlockFromBlockAndBytes(c16BuildBlock(fixture), append([]byte{}, ref.ser...))
			r.bytesCached = true
		default:
			panic("C16: unknown block constructor " + ctor)
		}
	})
	w.Trans()
	w.Eval()
	if p || err != nil || b == nil {
		if strings.HasPrefix(msg, "C16:") {
			panic(msg)
		}
		r.viol("block/constructor-fails", fmt.Sprintf("panic=%q err=%v", msg, err))
		return "constructor-fails"
	}
	r.b = b
	if v, ok := c16OtherFor.Load(w); ok {
		c16OtherFor.Delete(w)
		parts := strings.SplitN(v.(string), "|", 2)
		oser := c16BlockRefs[parts[0]].ser
		mc.Guard(func() {
			for rep := 0; rep < 2; rep++ { // twice, so that pooled scratch state is handed out again
				switch parts[1] {
				case "NewBlockFromReader":
					ob, _ := bchutil.NewBlockFromReader(bytes.NewReader(oser))
					if ob != nil {
						ob.Bytes()
						ob.Hash()
					}
				case "NewBlockFromBytes":
					ob, _ := bchutil.NewBlockFromBytes(append([]byte{}, oser...))
					if ob != nil {
						ob.Transactions()
						ob.TxLoc()
					}
				default:
					ob := bchutil.NewBlock(c16BuildBlock(parts[0]))
					ob.Bytes()
					ob.TxLoc()
				}
			}
		})
	}
	if !r.observe() {
		return "unusable"
	}
	for k, op := range ops {
		if !r.step(k, op, false) {
			return "unusable"
		}
	}
	if wantKey {
		key = c16BlockImplKey(b) + r.modelKey()
	}
	if r.nontrivial {
		w.Nontrivial(mc.HashString(append([]string{fixture, ctor}, c16OpStrings(ops)...)...))
	}
	if !sweep {
		return key
	}
	// final sweep: every accessor once more on the same object, same oracle
	for _, op := range c16BlockMenu(ref.n) {
		if op.kind != c16OpSetHeight && !r.step(len(ops), op, true) {
			return key
		}
	}
	// ... and the out-of-range indices whose low 16 / 32 bits are a valid position or -1 (an index
	// narrowed before the range check), and the most negative ones
	for _, i := range c16FarIndices(ref.n) {
		for _, kind := range []int{c16OpTx, c16OpTxHash} {
			if !r.step(len(ops), c16Op{kind, i}, true) {
				return key
			}
		}
	}
	// hashes through the wrapped transactions themselves
	for i, t := range r.txSeen {
		if t == nil || i >= len(r.msg.Transactions) {
			continue
		}
		r.op = c16Op{c16OpTxHash, i}
		var h *chainhash.Hash
		w.Trans()
		w.Eval()
		if msg, p := mc.Guard(func() { h = t.Hash() }); p || h == nil {
			r.viol("block/accessor-panics/wrapped-tx", "Hash() of the wrapped transaction: "+msg)
			continue
		}
		if *h != r.cur.txHash[i] {
			r.viol("block/wrapped-tx-hash-differs-from-fresh", fmt.Sprintf("Tx(%d).Hash()=%v fresh=%v", i, h, r.cur.txHash[i]))
		}
	}
	return key
}

func c16EvalBlock(w *mc.W, cas c16BlockCase) {
	ops := make([]c16Op, len(cas.Ops))
	for i, s := range cas.Ops {
		ops[i] = c16ParseOp(s, false)
	}
	if cas.Other != "" {
		c16OtherFor.Store(w, cas.Other)
	}
	c16RunBlock(w, cas.Fixture, cas.Ctor, ops, false, cas.Fixture != "b65540")
}

// ---------------------------------------------------------------------------------------
// Transaction evaluator

type c16TxCase struct {
	Tx   string   `json:"tx"`
	Ctor string   `json:"ctor"`
	Ops  []string `json:"ops"`
}

func c16RunTx(w *mc.W, name, ctor string, ops []c16Op, wantKey, sweep bool) (key string) {
	c16Refs()
	c := w.Ctx()
	ref := c16TxRefs[name]
	if ref == nil {
		panic("C16: unknown transaction fixture " + name)
	}
	k, cur := -1, c16Op{}
	viol := func(class, detail string) {
		where := "constructor " + ctor
		if k >= 0 {
			where = fmt.Sprintf("ops[%d]=%s", k, cur)
		}
		c.Violate(class, "tx", c16TxCase{Tx: name, Ctor: ctor, Ops: c16OpStrings(ops)}, where+": "+detail)
	}
	var t *bchutil.Tx
	var err error
	msg, p := mc.Guard(func() {
		switch ctor {
		case "NewTx":
			t = bchutil.NewTx(c16BuildTx(name))
		case "NewTxFromBytes", "NewTxFromBytes+trailing":
			t, err = bchutil.NewTxFromBytes(ref.input(ctor))
		case "NewTxFromReader+buffer":
			raw := ref.input(ctor)
			buf := bytes.NewBuffer(raw)
			t, err = bchutil.NewTxFromReader(buf)
			buf.Reset()
			buf.Write(bytes.Repeat([]byte{0xa5}, len(raw)))
			for i := range raw {
				raw[i] = 0x5a
			}
		case "NewTxFromReader", "NewTxFromReader+trailing", "NewTxFromReader+onebyte", "NewTxFromReader+half", "NewTxFromReader+offset":
			t, err = bchutil.NewTxFromReader(c16Reader(ctor, ref.input(ctor)))
		default:
			panic("C16: unknown transaction constructor " + ctor)
		}
	})
	w.Trans()
	w.Eval()
	if p || err != nil || t == nil {
		if strings.HasPrefix(msg, "C16:") {
			panic(msg)
		}
		viol("tx/constructor-fails", fmt.Sprintf("panic=%q err=%v", msg, err))
		return "constructor-fails"
	}
	index := bchutil.TxIndexUnknown
	var hashSeen *chainhash.Hash
	var msgSeen, m *wire.MsgTx
	var fresh *c16Ref
	nontrivial := false
	observe := func() bool {
		w.Eval()
		var ix int
		if pm, p := mc.Guard(func() { m = t.MsgTx(); ix = t.Index() }); p {
			viol("tx/accessor-panics/MsgTx-or-Index", pm)
			return false
		}
		if m == nil {
			viol("tx/wire-message-unusable", "MsgTx() is nil")
			return false
		}
		switch print := c16PrintTx(nil, m); {
		case bytes.Equal(print, ref.print):
			fresh = ref
		case fresh != nil && bytes.Equal(print, fresh.print):
			// changed earlier and reported then
		default:
			var nc *c16Ref
			if pm, p := mc.Guard(func() { nc = c16TxRefOf(m) }); p {
				viol("tx/wire-message-unusable", "MsgTx() cannot be serialised: "+pm)
				return false
			}
			fresh = nc
			if k < 0 {
				viol("tx/constructed-wire-message-differs-from-input", fmt.Sprintf("MsgTx() serialises to %x, constructor was given %x", fresh.ser, ref.ser))
			} else {
				viol("tx/accessor-changes-wire-message", fmt.Sprintf("MsgTx() now serialises to %x", fresh.ser))
			}
		}
		if ix != index {
			viol("tx/index-differs-from-last-set", fmt.Sprintf("Index()=%d want %d", ix, index))
		}
		return true
	}
	if !observe() {
		return "unusable"
	}
	step := func(op c16Op) bool {
		cur = op
		w.Trans()
		w.Eval()
		switch op.kind {
		case c16OpTHash:
			var h *chainhash.Hash
			if pm, p := mc.Guard(func() { h = t.Hash() }); p {
				viol("tx/accessor-panics/Hash", pm)
				break
			}
			if hashSeen == nil {
				w.Outcome("tx Hash: first call")
			} else {
				w.Outcome("tx Hash: repeated call")
				nontrivial = true
			}
			if h == nil {
				viol("tx/hash-nil", "Hash() returned nil")
				break
			}
			if *h != fresh.hash {
				viol("tx/cached-hash-differs-from-fresh", fmt.Sprintf("Hash()=%v MsgTx().TxHash()=%v", h, fresh.hash))
			}
			if hashSeen == nil {
				hashSeen = h
			} else if hashSeen != h {
				viol("tx/repeated-call-returns-different-object/Hash", "Hash() returned a different pointer than an earlier call")
			}
		case c16OpTMsgTx:
			var mm *wire.MsgTx
			if pm, p := mc.Guard(func() { mm = t.MsgTx() }); p {
				viol("tx/accessor-panics/MsgTx", pm)
				break
			}
			w.Outcome("tx MsgTx")
			if msgSeen == nil {
				msgSeen = mm
			} else if msgSeen != mm {
				viol("tx/repeated-call-returns-different-object/MsgTx", "MsgTx() returned a different pointer than an earlier call")
			}
		case c16OpTIndex:
			w.Outcome("tx Index") // value compared in observe()
		case c16OpTSetIndex:
			if pm, p := mc.Guard(func() { t.SetIndex(op.arg) }); p {
				viol("tx/accessor-panics/SetIndex", pm)
				break
			}
			w.Outcome("tx SetIndex")
			if hashSeen != nil {
				nontrivial = true
			}
			index = op.arg
		}
		return observe()
	}
	for k = 0; k < len(ops); k++ {
		if !step(ops[k]) {
			return "unusable"
		}
	}
	if wantKey {
		var sb strings.Builder
		c16TxImplKey(&sb, reflect.ValueOf(t).Elem())
		fmt.Fprintf(&sb, "|m i%d", index)
		if hashSeen != nil {
			sb.WriteString(" H")
		}
		if msgSeen != nil {
			sb.WriteString(" M")
		}
		key = sb.String()
	}
	if nontrivial {
		w.Nontrivial(mc.HashString(append([]string{"tx", name, ctor}, c16OpStrings(ops)...)...))
	}
	if !sweep {
		return key
	}
	// final sweep
	k = len(ops)
	for _, op := range []c16Op{{kind: c16OpTHash}, {kind: c16OpTMsgTx}, {kind: c16OpTIndex}, {kind: c16OpTHash}} {
		if !step(op) {
			break
		}
	}
	return key
}

func c16EvalTx(w *mc.W, cas c16TxCase) {
	ops := make([]c16Op, len(cas.Ops))
	for i, s := range cas.Ops {
		ops[i] = c16ParseOp(s, true)
	}
	c16RunTx(w, cas.Tx, cas.Ctor, ops, false, true)
}

// ---------------------------------------------------------------------------------------
// Searches

// c16BFS explores histories breadth first until no new state key appears.  run executes a
// history on a fresh object and returns the key of the state reached.
func c16BFS(w *mc.W, menu []c16Op, run func(ops []c16Op) string) (states, depth int) {
	seen := map[string]struct{}{run(nil): {}}
	w.State()
	frontier := [][]c16Op{nil}
	for len(frontier) > 0 {
		var next [][]c16Op
		for _, h := range frontier {
			for _, op := range menu {
				h2 := append(append(make([]c16Op, 0, len(h)+1), h...), op)
				key := run(h2)
				if _, ok := seen[key]; !ok {
					seen[key] = struct{}{}
					w.State()
					next = append(next, h2)
				}
			}
		}
		if len(next) > 0 {
			depth++
		}
		frontier = next
		// The unchanged library reaches its fixpoint at depth <= 8 with at most a few thousand states.  A library
		// whose object state keeps growing with the number of calls (a call counter, an appended log)
		// has no fixpoint: the search is abandoned there and the run is marked as not exhaustive - an
		// unbounded state is not itself a violation; what the counter breaks is found by the oracles
		// on the way and by the bounded families.
		if depth >= c16BFSMaxDepth || len(seen) >= c16BFSMaxStates {
			w.Ctx().NotExhaustive(fmt.Sprintf("a breadth-first search over object states did not reach a fixpoint within depth %d / %d states (the object's state grows with the number of calls); abandoned there", c16BFSMaxDepth, c16BFSMaxStates))
			break
		}
	}
	return len(seen), depth
}

const c16BFSMaxDepth, c16BFSMaxStates = 24, 20000

// c16ParFor visits every index of [0,n) exactly once like the kernel's parallel loop, but with
// at most two workers: every Block/Tx call that serialises, hashes or parses goes through two
// global free-list channels inside bchd/wire, and with more goroutines the run gets slower
// (measured on 16 cores, quick tier: 1 worker 8.4 s, 2: 6.0 s, 4: 7.6 s, 16: 14.5 s).
func c16ParFor(c *mc.Ctx, n int64, f func(w *mc.W, i int64)) {
	nw := mc.Workers()
	if nw > 2 {
		nw = 2
	}
	chunk := n / int64(nw*64)
	if chunk < 1 {
		chunk = 1
	}
	var next atomic.Int64
	var wg sync.WaitGroup
	for k := 0; k < nw; k++ {
		wg.Add(1)
		go func() {
			defer wg.Done()
			w := c.Worker()
			defer w.Done()
			for {
				lo := next.Add(chunk) - chunk
				if lo >= n {
					return
				}
				hi := lo + chunk
				if hi > n {
					hi = n
				}
				for i := lo; i < hi; i++ {
					f(w, i)
				}
			}
		}()
	}
	wg.Wait()
}

type c16Family struct {
	a, b  string // fixture, constructor
	menu  []c16Op
	first int64 // index of its first sequence in the product space
	count int64 // number of sequences of length <= D
}

func c16Layout(fams []c16Family, depth int) int64 {
	var total int64
	for i := range fams {
		fams[i].first = total
		for d := 0; d <= depth; d++ {
			fams[i].count += ipow(len(fams[i].menu), d)
		}
		total += fams[i].count
	}
	return total
}

// c16Seq returns the i-th sequence (all lengths 0..D in order of length, then lexicographic).
func c16Seq(fams []c16Family, i int64) (*c16Family, []c16Op) {
	for k := range fams {
		f := &fams[k]
		if i >= f.first+f.count {
			continue
		}
		j := i - f.first
		d := 0
		for j >= ipow(len(f.menu), d) {
			j -= ipow(len(f.menu), d)
			d++
		}
		ops := make([]c16Op, d)
		for p := d - 1; p >= 0; p-- {
			ops[p] = f.menu[j%int64(len(f.menu))]
			j /= int64(len(f.menu))
		}
		return f, ops
	}
	panic("C16: sequence index out of range")
}

func runC16(c *mc.Ctx) {
	c.Rule("every history is executed on a fresh real Block/Tx; after every call the result is compared with a fresh computation from MsgBlock()/MsgTx() and with the objects returned earlier in the history, and every field of the wire message and Height/Index are re-read; all calls are explored as successors of every history (BFS to the fixpoint of the implementation-cache key, and all sequences up to the depth bound), histories of maximal length are followed by one more call of every accessor. Non-trivial = histories that take a path depending on earlier calls: an accessor repeated (served from the cache, identity compared), Transactions() completing a sparse or individually filled slot array, TxHash on an already wrapped slot, or an out-of-range index after some cache was filled")
	c.Assume("bchd wire (MsgBlock.Serialize/BlockHash/DeserializeTxLoc layout, MsgTx.Serialize/TxHash) is the reference the statement names ('a fresh computation from the underlying wire message') and is a pure function of the message fields: after every call every field of MsgBlock()/MsgTx() is compared with the fixture's (field print, pinned to the wire struct definitions by a self-test) and, while equal, the fixture's wire serialisation and hashes computed once are the fresh values; on any difference they are recomputed from MsgBlock() with wire. Fixtures are checked to survive wire decode/encode before the run")
	c.Assume("the re-parse clause (NewBlockFromBytes(b.Bytes()) equivalent to b) depends on the returned bytes only and is evaluated once per fixture, constructor and distinct Bytes() content; the final sweep of all accessors is run after the sequences of maximal length (shorter ones have the same calls as successors) and on every replay")
	c.Assume("blocks with more than 3 transactions (except the 300-transaction fixture, which is run on fixed call sequences only), transactions other than the 4 fixtures, serialized input followed by trailing bytes, and mutation of the underlying wire message after wrapping are outside the bound")
	c.Assume("state key reads the private fields Block.{transactions,txnsGenerated,blockHash,serializedBlock,blockHeight} and Tx.{txHash,txIndex} by read-only reflection and is joined with the oracle's own memory (which objects it has already seen); it only decides when the breadth-first search stops, the depth-bounded enumeration does not use it")
	c.Note("workers", "capped at 2: bchd/wire funnels every (de)serialisation through two global free-list channels, more goroutines only contend")
	c16SelfTest()
	if miss := c16MissingFields(); len(miss) > 0 {
		c.Note("impl_key_fields_missing", miss)
	}

	// ---- blocks
	var fams []c16Family
	for _, f := range c16BlockNames {
		for _, ct := range c16BlockCtors {
			fams = append(fams, c16Family{a: f, b: ct, menu: c16BlockMenu(len(c16BlockTxs[f]))})
		}
	}
	// (1) breadth-first search to the fixpoint of the state key, one search per (fixture, constructor)
	type bfsRes struct {
		States int `json:"states"`
		Depth  int `json:"fixpoint_depth"`
	}
	var mu sync.Mutex
	bfs := map[string]bfsRes{}
	var bfsStates int64
	c16ParFor(c, int64(len(fams)), func(w *mc.W, i int64) {
		f := fams[i]
		s, d := c16BFS(w, f.menu, func(ops []c16Op) string { return c16RunBlock(w, f.a, f.b, ops, true, false) })
		mu.Lock()
		bfs[f.a+"/"+f.b] = bfsRes{s, d}
		bfsStates += int64(s)
		mu.Unlock()
	})
	c.Space("block: distinct (implementation cache + oracle memory) states reached by BFS to fixpoint, summed over 6 fixtures x 4 constructors", bfsStates)
	c.Note("block_bfs", bfs)

	// (2) every call sequence up to the depth bound
	depth := mc.Pick(c, 3, 4)
	total := c16Layout(fams, depth)
	c.Space(fmt.Sprintf("block: fixture x constructor x all call sequences of length <= %d over the menu {Tx,TxHash}x{-1,0..n,MaxInt}, Transactions, Hash, Bytes, TxLoc, SetHeight", depth), total)
	c16ParFor(c, total, func(w *mc.W, i int64) {
		f, ops := c16Seq(fams, i)
		c16RunBlock(w, f.a, f.b, ops, false, len(ops) == depth)
	})
	c.Sample("block", c16BlockCase{Fixture: "b3tok", Ctor: "NewBlockFromBytes", Ops: []string{"TxHash(1)", "Transactions", "Tx(3)"}})

	// (3) a 300-transaction block: fixed call sequences around the byte boundary of the index and the
	// ends of the block, every constructor, each followed by the sweep of all accessors
	{
		seqs := [][]string{
			{"Tx(255)", "Tx(256)", "Transactions"}, {"TxHash(256)", "Tx(256)", "TxHash(255)", "TxHash(257)"},
			{"Tx(299)", "Tx(300)", "TxHash(299)"}, {"Transactions", "Tx(257)", "TxHash(1)"},
			{"TxLoc", "Bytes", "Tx(128)", "Hash"}, {"Tx(-1)", "TxHash(299)", "Transactions", "TxHash(0)"},
			{"Tx(0)", "Tx(0)", "Tx(127)", "Tx(127)", "Transactions"}, {"Bytes", "TxLoc", "TxHash(256)", "TxHash(0)", "Tx(256)"},
		}
		var big []c16BlockCase
		for _, ct := range c16BlockCtors {
			for _, sq := range seqs {
				big = append(big, c16BlockCase{Fixture: "b300", Ctor: ct, Ops: sq})
			}
		}
		for _, ct := range c16BlockCtors { // CompactSize boundaries of the count (252 / 253) and inside a transaction
			for _, fx := range []string{"b252", "b253"} {
				n := len(c16BlockTxs[fx])
				big = append(big, c16BlockCase{Fixture: fx, Ctor: ct, Ops: []string{"TxLoc", "Bytes", fmt.Sprintf("Tx(%d)", n-1), "TxHash(0)", fmt.Sprintf("Tx(%d)", n)}},
					c16BlockCase{Fixture: fx, Ctor: ct, Ops: []string{fmt.Sprintf("TxHash(%d)", n-1), "Transactions", "TxLoc", "Hash"}})
			}
			big = append(big, c16BlockCase{Fixture: "b3wide", Ctor: ct, Ops: []string{"TxLoc", "Bytes", "Tx(1)", "TxHash(2)"}},
				c16BlockCase{Fixture: "b3wide", Ctor: ct, Ops: []string{"Tx(2)", "TxHash(1)", "Transactions", "TxLoc", "Tx(2)"}})
		}
		// MANY distinct indices asked one by one before (and after) the bulk accessor: a per-index store
		// that changes representation after some number of entries (64, 256, 1024) must keep handing out
		// the objects it handed out before.  130 (1030 on the 1100-transaction fixture) distinct indices
		// through Tx / TxHash alternately, then the first, the 64th and the last of them again, the bulk
		// accessor, and three of them once more.
		for _, fx := range []string{"b300", "b1100"} {
			cnt := 130
			if fx == "b1100" {
				cnt = 1030
			}
			for ci, ct := range c16BlockCtors {
				if ci >= 4 && fx == "b1100" {
					continue // the four basic constructors on the large fixture
				}
				var ops []string
				for i := 0; i < cnt; i++ {
					if i%3 == 2 {
						ops = append(ops, fmt.Sprintf("TxHash(%d)", i))
					} else {
						ops = append(ops, fmt.Sprintf("Tx(%d)", i))
					}
				}
				ops = append(ops, "Tx(0)", "Tx(63)", "Tx(64)", fmt.Sprintf("Tx(%d)", cnt-2), "TxHash(2)", "Transactions", "Tx(0)", "Tx(64)", fmt.Sprintf("Tx(%d)", cnt-2))
				big = append(big, c16BlockCase{Fixture: fx, Ctor: ct, Ops: ops})
			}
		}
		c.Space("block: 252-, 253-, 300-, 1100-transaction and wide-transaction fixtures x constructor x fixed call sequences", int64(len(big)))
		c16ParFor(c, int64(len(big)), func(w *mc.W, i int64) { c16EvalBlock(w, big[i]) })
		// 65536 transactions: locations, bytes and the two ends, every constructor (no final sweep)
		var huge []c16BlockCase
		for _, ct := range c16BlockCtors {
			huge = append(huge, c16BlockCase{Fixture: "b65540", Ctor: ct, Ops: []string{"TxLoc", "Bytes", "Tx(65535)", "TxHash(0)", "Tx(65540)"}},
				c16BlockCase{Fixture: "b65540", Ctor: ct, Ops: []string{"Tx(65535)", "TxLoc", "Hash"}},
				// indices beyond 16 bits, touched before and after the bulk accessor
				c16BlockCase{Fixture: "b65540", Ctor: ct, Ops: []string{"Tx(65538)", "Transactions", "Tx(65538)", "Tx(2)"}},
				c16BlockCase{Fixture: "b65540", Ctor: ct, Ops: []string{"TxHash(65539)", "Tx(65539)", "Tx(65536)", "Transactions"}},
				c16BlockCase{Fixture: "b65540", Ctor: ct, Ops: []string{"Transactions", "Tx(65537)", "TxHash(65536)"}})
		}
		// two live wrappers: a second, different block is parsed between the construction of the block
		// under test and its accessors (scratch state shared between wrappers would show here)
		var pairs []c16BlockCase
		for _, fx := range []string{"b3", "b300", "b65540"} {
			for _, ct := range c16BlockCtors {
				for _, other := range []string{"b300|NewBlockFromReader", "b65540|NewBlockFromReader", "b3tok|NewBlockFromBytes", "b300|NewBlock"} {
					if strings.HasPrefix(other, fx+"|") {
						continue
					}
					pairs = append(pairs, c16BlockCase{Fixture: fx, Ctor: ct, Ops: []string{"Bytes", "TxLoc", "Hash", "Tx(0)"}, Other: other})
				}
			}
		}
		// ... and other blocks serialised BETWEEN the accessor calls of the block under test (what it
		// handed out or cached before must not be storage that the next serialisation reuses)
		for _, fx := range []string{"b3", "b300", "b1100", "b65540"} {
			for _, ct := range c16BlockCtors {
				for _, ops := range [][]string{
					{"Bytes", "Other", "Bytes", "TxLoc"},
					{"TxLoc", "Other", "TxLoc", "Bytes", "Hash"},
					{"Other", "Bytes", "Other", "Other", "Bytes", "Tx(0)", "TxLoc"},
					{"Transactions", "Bytes", "Other", "TxHash(1)", "Bytes"},
				} {
					if fx == "b65540" && len(ops) > 4 {
						continue
					}
					pairs = append(pairs, c16BlockCase{Fixture: fx, Ctor: ct, Ops: ops})
				}
			}
		}
		c.Space("block: wrapper under test x a second block constructed in between, or other blocks serialised between its accessor calls", int64(len(pairs)))
		c16ParFor(c, int64(len(pairs)), func(w *mc.W, i int64) { c16EvalBlock(w, pairs[i]) })
		c.Space("block: 65540-transaction fixture x constructor x fixed call sequences", int64(len(huge)))
		c16ParFor(c, int64(len(huge)), func(w *mc.W, i int64) {
			ops := make([]c16Op, len(huge[i].Ops))
			for k, o := range huge[i].Ops {
				ops[k] = c16ParseOp(o, false)
			}
			c16RunBlock(w, huge[i].Fixture, huge[i].Ctor, ops, false, false)
		})
	}

	// ---- transactions
	var tfams []c16Family
	for _, t := range c16TxNames {
		for _, ct := range c16TxCtors {
			tfams = append(tfams, c16Family{a: t, b: ct, menu: c16TxMenu})
		}
	}
	tbfs := map[string]bfsRes{}
	var tStates int64
	c16ParFor(c, int64(len(tfams)), func(w *mc.W, i int64) {
		f := tfams[i]
		s, d := c16BFS(w, f.menu, func(ops []c16Op) string { return c16RunTx(w, f.a, f.b, ops, true, false) })
		mu.Lock()
		tbfs[f.a+"/"+f.b] = bfsRes{s, d}
		tStates += int64(s)
		mu.Unlock()
	})
	c.Space("tx: distinct states reached by BFS to fixpoint, summed over 4 fixtures x 3 constructors", tStates)
	c.Note("tx_bfs", tbfs)
	tdepth := mc.Pick(c, 5, 6)
	ttotal := c16Layout(tfams, tdepth)
	c.Space(fmt.Sprintf("tx: fixture x constructor x all call sequences of length <= %d over {Hash, MsgTx, Index, SetIndex(0), SetIndex(2), SetIndex(-1)}", tdepth), ttotal)
	c16ParFor(c, ttotal, func(w *mc.W, i int64) {
		f, ops := c16Seq(tfams, i)
		c16RunTx(w, f.a, f.b, ops, false, len(ops) == tdepth)
	})
	c.Sample("tx", c16TxCase{Tx: "token", Ctor: "NewTxFromReader", Ops: []string{"Hash", "SetIndex(2)", "Hash"}})
	runC16Twins(c)
}
