package props

import (
	"fmt"

	"verif/mc"
)

// C18, sequences of FULL evaluations.  Every family of c18.go judges one transaction at a time, each
// on a fresh object; the retained-copy family keeps results but does not re-judge order.  What a
// call leaves behind for the next one (a recycled key buffer whose stale slots are skipped for
// "empty" elements, a memo of the last comparison) shows only when a transaction is sorted AFTER a
// different one, and only in the second one's order.  Every ordered pair and triple over a menu of
// transactions - short and long (20 and 33 inputs / outputs), with and without a null previous
// outpoint (zero hash, index 2^32-1), with zero-amount and empty-script outputs, sorted and reversed -
// goes through the complete single-transaction oracle (Sort, InPlaceSort, IsSorted against BIP69)
// one after the other in one goroutine.

type c18Seq struct {
	Menu []int `json:"menu_indices"` // indices into c18SeqMenu()
}

func c18SeqMenu() []c18Case {
	hx := func(k, salt int) string {
		b := make([]byte, 32)
		for i := range b {
			b[i] = byte(k*37 + i*11 + salt)
		}
		b[31] = byte(k) // the most significant byte of the identifier orders the list
		return mc.Hex(b)
	}
	null := c18XIn{Hash: mc.Hex(make([]byte, 32)), Index: 0xffffffff}
	long := func(n, salt int, withNull, reversed bool) c18Case {
		cs := c18Case{Version: 1}
		for k := 0; k < n; k++ {
			j := k
			if reversed {
				j = n - 1 - k
			}
			cs.XIns = append(cs.XIns, c18XIn{Hash: hx(j+1, salt), Index: uint32(j % 3)})
			cs.XOuts = append(cs.XOuts, c18XOut{Amount: int64((j * 7) % 5), Script: mc.Hex([]byte{byte(j), byte(salt)})})
		}
		if withNull {
			cs.XIns[n/2] = null
			cs.XOuts[n/2] = c18XOut{Amount: 0, Script: ""}
		}
		return cs
	}
	return []c18Case{
		{Ins: []int{15, 8, 2, 1}, Outs: []int{23, 7, 6}, Version: 2, LockTime: 9},
		{Ins: []int{4, 0}, Outs: []int{24, 7, 6, 1, 0}, Version: 1},
		long(20, 1, false, false),
		long(20, 2, true, false),
		long(20, 3, true, true),
		long(33, 4, false, true),
		long(33, 5, true, false),
		long(16, 6, true, true),
	}
}

func c18EvalSeq(w *mc.W, cas c18Seq) {
	c := w.Ctx()
	menu := c18SeqMenu()
	for pos, k := range cas.Menu {
		before := c.Violations()
		c18Eval(w, menu[k])
		if c.Violations() > before && pos > 0 {
			c.Violate("wrong-after-an-earlier-call-on-another-transaction", "seq", cas, fmt.Sprintf("element %d of the sequence (menu transaction %d) fails the single-transaction oracle here; see the violation recorded for it", pos+1, k))
			return
		}
	}
	w.Outcome("sequence of transactions: each judged in full, one after the other")
}

func runC18Seq(c *mc.Ctx) {
	n := len(c18SeqMenu())
	var cases []c18Seq
	for a := 0; a < n; a++ {
		for b := 0; b < n; b++ {
			cases = append(cases, c18Seq{Menu: []int{a, b}})
			for d := 0; d < n; d++ {
				if c.Thorough() || d >= 2 {
					cases = append(cases, c18Seq{Menu: []int{a, b, d}})
				}
			}
		}
	}
	c.Space("ordered pairs and triples over a menu of 8 transactions (short, 16-33 elements, with a null outpoint, reversed), each element through the full oracle, sequentially", int64(len(cases)))
	w := c.Worker()
	for _, cs := range cases {
		w.State()
		c18EvalSeq(w, cs)
	}
	w.Done()
	c.Sample("seq", c18Seq{Menu: []int{2, 3}})
}
