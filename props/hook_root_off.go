//go:build nohook_root

package props

// black-box mode: the unexported remainder function is not reachable; the syndrome model uses
// the reference generator and the decoder replays carry the verdict.
var hookCashPolyMod func([]byte) uint64
var hookCashVerify func(string, []byte) bool
