package props

import (
	"encoding/binary"
	"fmt"
	"sort"

	"github.com/gcash/bchd/chaincfg/chainhash"
	"github.com/gcash/bchd/wire"
	"github.com/gcash/bchutil/merkleblock"

	"verif/mc"
	"verif/ref"
)

// C11, blocks far larger than any the builders can be run on within a check: "for every block with
// at least one transaction" includes blocks of a million transactions, which the payload limit
// allows (the library documents its ceiling as the payload limit divided by the 61 bytes of the
// smallest transaction it considers; bchd's wire package, a dependency, supplies the limit).  The
// canonical proof of a small chosen set in such a block needs only the hashes along the paths to
// the chosen leaves: every untouched subtree appears in the proof as ONE opaque hash, so the
// canonical message can be written down without the block (a "virtual" block whose subtree hashes
// are arbitrary distinct values).  Extraction must return the root those hashes imply and exactly
// the chosen positions and leaf hashes.

type c11Virtual struct {
	N       uint32   `json:"transactions"`
	Matches []uint32 `json:"chosen_positions"`
}

func c11Opaque(height, pos uint32) ref.Hash32 {
	var b [16]byte
	copy(b[:], "virtual!")
	binary.LittleEndian.PutUint32(b[8:], height)
	binary.LittleEndian.PutUint32(b[12:], pos)
	return ref.Hash32(ref.DoubleSHA256(b[:]))
}

// c11VirtualProof writes the canonical BIP37 partial merkle tree of the chosen positions in a block
// of n transactions whose leaf i hashes to c11Opaque(0,i) on the paths and whose untouched subtrees
// hash to c11Opaque(height,pos).
func c11VirtualProof(n uint32, matches []uint32) (hashes []ref.Hash32, flags []byte, root ref.Hash32) {
	width := func(h uint32) uint32 { return (n + (1 << h) - 1) >> h }
	height := uint32(0)
	for width(height) > 1 {
		height++
	}
	var bits []bool
	var rec func(h, pos uint32) ref.Hash32
	rec = func(h, pos uint32) ref.Hash32 {
		has := false
		for _, m := range matches {
			if m>>h == pos {
				has = true
			}
		}
		bits = append(bits, has)
		if h == 0 || !has {
			x := c11Opaque(h, pos)
			hashes = append(hashes, x)
			return x
		}
		l := rec(h-1, 2*pos)
		r := l
		if 2*pos+1 < width(h-1) {
			r = rec(h-1, 2*pos+1)
		}
		return ref.MerkleParent(l, r)
	}
	root = rec(height, 0)
	flags = make([]byte, (len(bits)+7)/8)
	for i, b := range bits {
		if b {
			flags[i/8] |= 1 << uint(i%8)
		}
	}
	return
}

func c11EvalVirtual(w *mc.W, cas c11Virtual) {
	c := w.Ctx()
	w.Eval()
	fail := func(class, detail string) { c.Violate(class, "virtual", cas, detail) }
	hashes, flags, root := c11VirtualProof(cas.N, cas.Matches)
	// the written-down proof is first checked by the reference extractor (independent of the library)
	if r, ms, why := ref.PMTExtract(cas.N, hashes, flags, ^uint32(0)); why != "" || r != root || len(ms) != len(cas.Matches) {
		panic(fmt.Sprintf("c11: virtual proof rejected by the reference extractor: %v %s", cas, why))
	}
	msg := wire.NewMsgMerkleBlock(fixedHeader(1, &chainhash.Hash{3}, (*chainhash.Hash)(&root), 0x1d00ffff, 1))
	msg.Transactions = cas.N
	for i := range hashes {
		h := chainhash.Hash(hashes[i])
		msg.Hashes = append(msg.Hashes, &h)
	}
	msg.Flags = flags
	var got *chainhash.Hash
	var pb *merkleblock.PartialBlock
	if m, p := mc.Guard(func() {
		pb = merkleblock.NewMerkleBlockFromMsg(*msg)
		got = pb.ExtractMatches()
	}); p {
		fail("extraction-panics/large-block", m)
		return
	}
	if got == nil {
		fail("extraction-of-canonical-proof-fails/large-block", fmt.Sprintf("a block of %d transactions fits the payload limit (%d bytes / 61)", cas.N, wire.MaxBlockPayload()))
		return
	}
	if ref.Hash32(*got) != root {
		fail("extracted-root-is-not-the-block-merkle-root/large-block", "")
	}
	items, hs := pb.GetItems(), pb.GetMatches()
	if fmt.Sprint(items) != fmt.Sprint(cas.Matches) && !(len(items) == 0 && len(cas.Matches) == 0) || len(hs) != len(cas.Matches) {
		fail("extracted-positions-differ-from-chosen-set/large-block", fmt.Sprintf("got %v", items))
		return
	}
	for i, p := range cas.Matches {
		if ref.Hash32(*hs[i]) != c11Opaque(0, p) {
			fail("extracted-hash-wrong/large-block", fmt.Sprintf("position %d", p))
		}
	}
	w.Outcome("canonical proof in a large virtual block extracts root, positions and hashes")
}

func runC11Virtual(c *mc.Ctx) {
	limit := uint32(wire.MaxBlockPayload() / 61)
	ns := map[uint32]bool{}
	for k := uint32(1); k <= 64; k++ {
		ns[uint32(uint64(limit)*uint64(k)/64)] = true
	}
	for _, n := range []uint32{65535, 65536, 65537, 1000000, 1 << 20, 1<<20 + 1, 1 << 21, 1<<21 - 1, limit - 1, limit} {
		if n <= limit {
			ns[n] = true
		}
	}
	// every "round" ceiling somebody might put in place of the documented one
	for _, d := range []uint32{62, 64, 80, 100, 120, 128, 200, 240, 250, 256, 1000} {
		x := uint32(wire.MaxBlockPayload()) / d
		ns[x], ns[x+1] = true, true
	}
	var list []uint32
	for n := range ns {
		if n >= 2 && n <= limit {
			list = append(list, n)
		}
	}
	sort.Slice(list, func(i, j int) bool { return list[i] < list[j] })
	var cases []c11Virtual
	for _, n := range list {
		for _, m := range [][]uint32{{}, {0}, {n - 1}, {0, n - 1}, {n / 2}, {n - 2, n - 1}, {1, n / 3, n/3 + 1, n - 1}} {
			cases = append(cases, c11Virtual{N: n, Matches: m})
		}
	}
	c.Space("canonical proofs of small chosen sets in virtual blocks of 65535 .. payload-limit/61 transactions", int64(len(cases)))
	c.ParFor(int64(len(cases)), func(w *mc.W, i int64) {
		w.State()
		c11EvalVirtual(w, cases[i])
	})
	c.Sample("virtual", cases[len(cases)/2])
}
