package props

import (
	"fmt"
	"hash/crc32"
	"strings"

	"github.com/gcash/bchutil"

	"verif/mc"
	"verif/ref"
)

// C03, acceptance that depends on what was decoded before.  A decoder may remember that it has
// verified a string (a "last verified" slot, a small cache) so as not to run the polynomial again,
// and identify the remembered string by a cheap 32-bit fingerprint instead of by its symbols.
// Every corrupted string is then still rejected when it is decoded on its own - which is all that
// the sweeps above do - and accepted right after the valid string it collides with.
//
// Two families.  (1) AFTER THE VALID STRING: every substitution of weight <= 2 at every position
// pair, the valid string decoded immediately before each corrupted one (fingerprints that ignore
// part of the string - its length, a sum or XOR of the symbols, a bounded prefix - collide at
// weight <= 2).  (2) COLLIDERS: for each hypothesis (fingerprint function x what is fed to it) a
// valid string V and a string C that differs from V in at most five consecutive symbols and has the
// same fingerprint are CONSTRUCTED by a meet-in-the-middle search over five positions a, a+g, .., a+4g (every stride g <= 8, every a; forward
// over three symbols from the state before the window, backward over two from V's state after it;
// every fingerprint here is an invertible byte-at-a-time state machine); V is decoded, then C,
// which must be rejected.  Fingerprints: FNV-1a, FNV-1, CRC-32 (IEEE, Castagnoli), Adler-32, djb2
// (add and xor), sdbm, 31x+b; fed with: prefix characters + payload symbol values (0..31), payload
// symbol values only, the characters of the whole string, the payload characters only.  64-bit
// fingerprints are out of reach of this construction (stated gap).  Hypotheses whose fingerprint is
// injective on five consecutive symbols have no collider of this shape and are listed in the evidence.

type fpFunc struct {
	name string
	init uint32
	step func(h uint32, b byte) uint32
	inv  func(h uint32, b byte) uint32 // inv(step(h,b), b) == h
}

func modInv32(a uint32) uint32 { // a odd
	x := a
	for i := 0; i < 5; i++ {
		x *= 2 - a*x
	}
	return x
}

func crcFuncs(name string, poly uint32) fpFunc {
	tab := crc32.MakeTable(poly)
	var top [256]byte // top[t] = index whose table entry has top byte t (a bijection)
	for i := 0; i < 256; i++ {
		top[tab[i]>>24] = byte(i)
	}
	return fpFunc{name, 0xffffffff,
		func(h uint32, b byte) uint32 { return tab[byte(h)^b] ^ h>>8 },
		func(h uint32, b byte) uint32 {
			i := top[h>>24]
			return (h^tab[i])<<8 | uint32(i^b)
		}}
}

var fpFuncs = func() []fpFunc {
	const p = 16777619
	pi, i33, i31, isd := modInv32(p), modInv32(33), modInv32(31), modInv32(65599)
	const adlerM = 65521
	return []fpFunc{
		{"fnv1a-32", 2166136261, func(h uint32, b byte) uint32 { return (h ^ uint32(b)) * p }, func(h uint32, b byte) uint32 { return h*pi ^ uint32(b) }},
		{"fnv1-32", 2166136261, func(h uint32, b byte) uint32 { return h*p ^ uint32(b) }, func(h uint32, b byte) uint32 { return (h ^ uint32(b)) * pi }},
		crcFuncs("crc32-ieee", crc32.IEEE),
		crcFuncs("crc32-castagnoli", crc32.Castagnoli),
		{"adler-32", 1, func(h uint32, b byte) uint32 {
			a, s := h&0xffff, h>>16
			a = (a + uint32(b)) % adlerM
			s = (s + a) % adlerM
			return s<<16 | a
		}, func(h uint32, b byte) uint32 {
			a, s := h&0xffff, h>>16
			s = (s + adlerM - a) % adlerM
			a = (a + adlerM - uint32(b)) % adlerM
			return s<<16 | a
		}},
		{"djb2-add", 5381, func(h uint32, b byte) uint32 { return h*33 + uint32(b) }, func(h uint32, b byte) uint32 { return (h - uint32(b)) * i33 }},
		{"djb2-xor", 5381, func(h uint32, b byte) uint32 { return h*33 ^ uint32(b) }, func(h uint32, b byte) uint32 { return (h ^ uint32(b)) * i33 }},
		{"sdbm", 0, func(h uint32, b byte) uint32 { return h*65599 + uint32(b) }, func(h uint32, b byte) uint32 { return (h - uint32(b)) * isd }},
		{"31x+b", 0, func(h uint32, b byte) uint32 { return h*31 + uint32(b) }, func(h uint32, b byte) uint32 { return (h - uint32(b)) * i31 }},
	}
}()

var fpViews = []string{"prefix-chars+symbol-values", "symbol-values", "string-chars", "payload-chars"}

// fpFeed: the bytes a view feeds for (prefix, separator, payload symbols): head (before the payload)
// and one byte per payload symbol.
func fpFeed(view, prefix, sep, charset string, sym []byte) (head []byte, per []byte) {
	per = make([]byte, len(sym))
	chars := view == "string-chars" || view == "payload-chars"
	for i, s := range sym {
		if chars {
			per[i] = charset[s]
		} else {
			per[i] = s
		}
	}
	switch view {
	case "prefix-chars+symbol-values":
		head = []byte(prefix)
	case "string-chars":
		head = []byte(prefix + sep)
	}
	return
}

func fpFull(f fpFunc, head, per []byte) uint32 {
	h := f.init
	for _, b := range head {
		h = f.step(h, b)
	}
	for _, b := range per {
		h = f.step(h, b)
	}
	return h
}

type c03FP struct {
	Codec  string `json:"codec"` // cashaddr | bech32
	Hyp    string `json:"fingerprint_hypothesis"`
	View   string `json:"fed_with"`
	Valid  string `json:"valid_string_decoded_first"`
	Collid string `json:"corrupted_string_decoded_next"`
	Via    string `json:"via"` // "" = DecodeCashAddress / bech32.Decode; "DecodeAddress" (cashaddr only)
}

func c03EvalFP(w *mc.W, cas c03FP) {
	c := w.Ctx()
	w.Eval()
	w.Trace()
	dec := func(s string) (bool, string, bool) {
		if cas.Via == "DecodeAddress" {
			var err error
			msg, p := mc.Guard(func() { _, err = bchutil.DecodeAddress(s, netParams["mainnet"]) })
			return err == nil && !p, msg, p
		}
		return c03Decode(cas.Codec, s)
	}
	ok, msg, p := dec(cas.Valid)
	if p {
		c.Violate(cas.Codec+"-decoder-panics", "fingerprint", cas, msg)
		return
	}
	if !ok {
		c.NotExhaustive("a valid base string of the decode-order family was rejected (" + cas.Codec + ")")
		w.Outcome("valid base string rejected (reported by the round-trip properties, not here)")
		return
	}
	ok, msg, p = dec(cas.Collid)
	if p {
		c.Violate(cas.Codec+"-decoder-panics-on-corrupted-string", "fingerprint", cas, msg)
		return
	}
	if ok {
		c.Violate(cas.Codec+"-accepts-corrupted-string-right-after-the-valid-one", "fingerprint", cas,
			fmt.Sprintf("%q is accepted when decoded right after the valid %q, from which it differs in <= 5 symbols (hypothesis %s over %s)", cas.Collid, cas.Valid, cas.Hyp, cas.View))
		return
	}
	w.Outcome("corrupted string rejected right after the valid one")
}

// fpCollider searches valid strings V_0, V_1, ... (hash counter) for a 5-symbol window in which
// another symbol choice gives the same fingerprint.
func fpCollider(codec string, f fpFunc, view string) (valid, collid string, tried int) {
	prefix, sep, charset := "bitcoincash", ":", ref.CashCharset
	if codec == "bech32" {
		prefix, sep, charset = "bc", "1", ref.Bech32Charset
	}
	type key = uint32
	for t := 0; t < 12; t++ { // a fingerprint that behaves like a random function collides in a window with probability 1/128: 12 strings x ~190 position sets leave 1e-8; one that is injective on 5-symbol windows (CRC-32 over 25 varying bits, 33x+b over digits < 33) never does
		var payload string
		if codec == "bech32" {
			d := make([]byte, 33)
			for i := range d {
				d[i] = byte((i*11 + 5 + t*7 + t>>3*i) & 31)
			}
			s, _ := ref.Bech32Encode(prefix, d)
			payload = s[len(prefix)+1:]
		} else {
			h := make([]byte, 20)
			for j := range h {
				h[j] = byte(j*13 + 1 + t*29 + (t>>4)*j)
			}
			payload = ref.CashEncode(prefix, t&1, h)
		}
		sym := symbolsOf(payload, charset)
		head, per := fpFeed(view, prefix, sep, charset, sym)
		// states before each position
		st := make([]uint32, len(per)+1)
		st[0] = f.init
		for _, b := range head {
			st[0] = f.step(st[0], b)
		}
		for i, b := range per {
			st[i+1] = f.step(st[i], b)
		}
		feedOf := func(x byte) byte {
			if view == "string-chars" || view == "payload-chars" {
				return charset[x]
			}
			return x
		}
		feedRange := func(h uint32, from, to int) uint32 { // unchanged symbols from..to-1
			for i := from; i < to; i++ {
				h = f.step(h, per[i])
			}
			return h
		}
		invRange := func(h uint32, from, to int) uint32 { // undo the unchanged symbols to-1 .. from
			for i := to - 1; i >= from; i-- {
				h = f.inv(h, per[i])
			}
			return h
		}
		// five positions a, a+g, a+2g, a+3g, a+4g for every stride g = 1..8 and every a
		for g := 1; g <= 8; g++ {
			for a := 0; a+4*g < len(sym); a++ {
				tried++
				fw := make(map[key][3]byte, 32768)
				for x1 := byte(0); x1 < 32; x1++ {
					h1 := feedRange(f.step(st[a], feedOf(x1)), a+1, a+g)
					for x2 := byte(0); x2 < 32; x2++ {
						h2 := feedRange(f.step(h1, feedOf(x2)), a+g+1, a+2*g)
						for x3 := byte(0); x3 < 32; x3++ {
							fw[feedRange(f.step(h2, feedOf(x3)), a+2*g+1, a+3*g)] = [3]byte{x1, x2, x3}
						}
					}
				}
				for x5 := byte(0); x5 < 32; x5++ {
					k5 := invRange(f.inv(st[a+4*g+1], feedOf(x5)), a+3*g+1, a+4*g)
					for x4 := byte(0); x4 < 32; x4++ {
						abc, ok := fw[f.inv(k5, feedOf(x4))]
						if !ok {
							continue
						}
						cand := append([]byte{}, sym...)
						cand[a], cand[a+g], cand[a+2*g], cand[a+3*g], cand[a+4*g] = abc[0], abc[1], abc[2], x4, x5
						if string(cand) == string(sym) {
							continue
						}
						_, cper := fpFeed(view, prefix, sep, charset, cand)
						if fpFull(f, head, cper) != fpFull(f, head, per) {
							panic("c03: meet-in-the-middle produced a non-colliding string (" + f.name + ")")
						}
						cs := make([]byte, len(cand))
						for i, x := range cand {
							cs[i] = charset[x]
						}
						return prefix + sep + payload, prefix + sep + string(cs), tried
					}
				}
			}
		}
	}
	return "", "", tried
}

func runC03Fingerprint(c *mc.Ctx) {
	// (1) after the valid string: every error of weight <= 2
	type job struct {
		codec, prefix, sep, payload, charset string
	}
	jobs := []job{
		{"cashaddr", "bitcoincash", ":", c03CashBase("bitcoincash", 42), ref.CashCharset},
		{"cashaddr", "bchtest", ":", c03CashBase("bchtest", 61), ref.CashCharset},
	}
	{
		b := c03BechBase("bc", 39)
		jobs = append(jobs, job{"bech32", "bc", "1", b[3:], ref.Bech32Charset})
	}
	for _, j := range jobs {
		L := len(j.payload)
		pairs := int64(L * (L - 1) / 2)
		valid := j.prefix + j.sep + j.payload
		c.Space(fmt.Sprintf("%s %s (%d symbols): every error of weight <= 2, each decoded right after the valid string", j.codec, j.prefix, L), int64(L)*31+pairs*961)
		j := j
		c.ParFor(int64(L)+pairs, func(w *mc.W, i int64) {
			try := func(s string, subs []sub) {
				w.State()
				w.Eval()
				w.Trace()
				if ok, _, _ := c03Decode(j.codec, valid); !ok {
					return
				}
				if ok, msg, p := c03Decode(j.codec, s); ok || p {
					c.Violate(j.codec+"-accepts-corrupted-string-right-after-the-valid-one", "fingerprint",
						c03FP{Codec: j.codec, Hyp: "any (weight <= 2)", Valid: valid, Collid: s}, fmt.Sprintf("%q accepted (%s) right after %q", s, msg, valid))
				}
			}
			if i < int64(L) {
				for v := 1; v < 32; v++ {
					subs := []sub{{int(i), v}}
					try(j.prefix+j.sep+applySubs(j.payload, j.charset, subs), subs)
				}
				return
			}
			a, b := pairFromIndex(int(i-int64(L)), L)
			for v1 := 1; v1 < 32; v1++ {
				for v2 := 1; v2 < 32; v2++ {
					subs := []sub{{a, v1}, {b, v2}}
					try(j.prefix+j.sep+applySubs(j.payload, j.charset, subs), subs)
				}
			}
		})
	}
	// (2) constructed colliders
	type hyp struct {
		codec string
		f     fpFunc
		view  string
	}
	var hyps []hyp
	for _, codec := range []string{"cashaddr", "bech32"} {
		for _, f := range fpFuncs {
			for _, v := range fpViews {
				hyps = append(hyps, hyp{codec, f, v})
			}
		}
	}
	c.Space("fingerprint hypotheses (9 functions x 4 views x 2 codecs): a valid string and a collider within 5 symbols, decoded in this order", int64(len(hyps)))
	var unsolved []string
	found := make([]c03FP, len(hyps))
	c.ParFor(int64(len(hyps)), func(w *mc.W, i int64) {
		h := hyps[i]
		v, col, tried := fpCollider(h.codec, h.f, h.view)
		w.StateN(int64(tried))
		if v == "" {
			found[i] = c03FP{Hyp: "unsolved"}
			return
		}
		found[i] = c03FP{Codec: h.codec, Hyp: h.f.name, View: h.view, Valid: v, Collid: col}
	})
	// evaluated one after the other: nothing else may be decoded between the valid string and its collider
	w := c.Worker()
	for i, cas := range found {
		if cas.Hyp == "unsolved" {
			unsolved = append(unsolved, hyps[i].codec+"/"+hyps[i].f.name+"/"+hyps[i].view)
			continue
		}
		c03EvalFP(w, cas)
		if cas.Codec == "cashaddr" {
			cas.Via = "DecodeAddress"
			c03EvalFP(w, cas)
		}
	}
	w.Done()
	// hypotheses without a collider: the fingerprint is injective on windows of five consecutive symbols
	// (no string within five CONSECUTIVE substitutions of a valid one shares its fingerprint); colliders
	// at five scattered positions are not searched for (stated gap)
	c.Note("fingerprint_hypotheses_without_a_collider_in_a_5_symbol_window", unsolved)
	if len(unsolved) > len(hyps)/2 {
		c.NotExhaustive("colliders were found for fewer than half of the fingerprint hypotheses")
	}
	c.Sample("fingerprint", c03FP{Codec: "cashaddr", Hyp: "example", View: "symbol-values", Valid: "bitcoincash:" + c03CashBase("bitcoincash", 42), Collid: "bitcoincash:" + applySubs(c03CashBase("bitcoincash", 42), ref.CashCharset, []sub{{3, 1}})})
}

// Decode-call histories.  Whatever a decoder keeps between calls (the prefix it expanded last, a
// register it saved, a flag set on an error path), the verdict on a string is a function of the
// string.  Every sequence of <= 4 (5) calls over an alphabet of ten strings for two prefixes - valid,
// too short, with a foreign character, with a one-symbol error, upper case, and CROSSED (the payload
// that is valid under the other prefix: accepted exactly by a decoder that verifies with the other
// prefix's state) - is run through DecodeCashAddress one call after the other; every verdict is
// compared with the reference decoder's.
type c03Calls struct {
	Seq []int `json:"call_sequence"` // indices into c03CallAlphabet()
}

func c03CallAlphabet() []string {
	p, q := "bitcoincash", "bchtest"
	vp, vq := c03CashBase(p, 42), c03CashBase(q, 42)
	one := applySubs(vp, ref.CashCharset, []sub{{5, 9}})
	return []string{
		p + ":" + vp, q + ":" + vq, // valid
		p + ":qq", q + ":qq", // too short
		p + ":" + vp[:10] + "b" + vp[11:], // a character outside the alphabet
		p + ":" + vq, q + ":" + vp,        // crossed: valid under the other prefix only
		p + ":" + one,                 // one symbol wrong
		strings.ToUpper(p + ":" + vp), // upper case, valid
		"simpleledger:" + c03CashBase("simpleledger", 42), // a third prefix, valid
	}
}

func c03EvalCalls(w *mc.W, cas c03Calls) {
	c := w.Ctx()
	w.Eval()
	al := c03CallAlphabet()
	for i, k := range cas.Seq {
		s := al[k]
		_, okRef, _ := ref.CashStrictDecode(strings.ToLower(s))
		got, msg, p := c03Decode("cashaddr", s)
		w.Trace()
		if p {
			c.Violate("cashaddr-decoder-panics", "calls", cas, msg)
			return
		}
		if got && !okRef {
			c.Violate("cashaddr-verdict-depends-on-earlier-calls", "calls", cas, fmt.Sprintf("call %d: %q is accepted after the calls before it; on its own it is (and must be) rejected", i+1, s))
			return
		}
		if !got && okRef {
			// soundness only (see DESIGN 9.4): noted, not a violation of the statement
			w.Outcome("call history: a valid string was rejected")
			return
		}
	}
	w.Outcome("call history: every verdict is that of the string alone")
}

func runC03Calls(c *mc.Ctx) {
	n := len(c03CallAlphabet())
	maxLen := mc.Pick(c, 4, 5)
	var cases []c03Calls
	for l := 2; l <= maxLen; l++ {
		for i := int64(0); i < ipow(n, l); i++ {
			seq := make([]int, l)
			x := i
			for j := l - 1; j >= 0; j-- {
				seq[j] = int(x % int64(n))
				x /= int64(n)
			}
			cases = append(cases, c03Calls{Seq: seq})
		}
	}
	c.Space(fmt.Sprintf("sequences of 2..%d decode calls over ten strings (valid / short / foreign character / crossed prefixes / one error / upper case / third prefix)", maxLen), int64(len(cases)))
	w := c.Worker() // one after the other: the point is what a call leaves behind
	for _, cs := range cases {
		w.State()
		c03EvalCalls(w, cs)
	}
	w.Done()
	c.Sample("calls", cases[len(cases)/2])
}
