package props

import (
	"math/big"
	"strings"
	"sync"

	"verif/mc"
	"verif/ref"
)

// Character classes of Base58Check strings.  A decoder that first CLASSIFIES a string by the
// characters it contains ("no lower-case letter: this is an upper-case CashAddr", "only hex digits:
// this is a public key") sends a legacy address that happens to lie in such a class down the wrong
// path.  Among random hashes such strings have probability (|class|/58)^33, so no family of
// structured hash values contains one; they are CONSTRUCTED here: the leading 27 characters are
// repaired digit by digit into the class, the hash is read off, and the candidates are walked until
// the six or seven characters governed by the checksum fall into the class as well (probability
// (|class|/58)^7 per candidate, a few thousand SHA-256 evaluations).
var b58Classes = []struct{ name, set string }{
	{"no-lower-case", "123456789ABCDEFGHJKLMNPQRSTUVWXYZ"},
	{"no-upper-case", "123456789abcdefghijkmnopqrstuvwxyz"},
	{"cashaddr-symbols-upper", "QPZRY9X8GF2TVDWS3JN54KHCE6MUA7L"},
	{"cashaddr-symbols-lower", "qpzry9x8gf2tvdws3jn54khce6mua7"},
	{"hex-digits", "123456789abcdefABCDEF"},
	{"letters-only", "ABCDEFGHJKLMNPQRSTUVWXYZabcdefghijkmnopqrstuvwxyz"},
}

type classHash struct {
	Class   string
	Version byte
	Hash    []byte
	Str     string
}

var (
	classHashOnce sync.Once
	classHashList []classHash
)

func inClass(s, set string) bool {
	for i := 0; i < len(s); i++ {
		if strings.IndexByte(set, s[i]) < 0 {
			return false
		}
	}
	return true
}

// classHashes returns, for every legacy version byte of the known networks and every class for
// which the search succeeds, one 20-byte hash whose Base58Check string lies in the class.
func classHashes() []classHash {
	classHashOnce.Do(func() {
		versions := map[byte]bool{}
		for _, n := range c02Nets() {
			versions[n.P2PKHID], versions[n.P2SHID] = true, true
		}
		var vs []int
		for v := range versions {
			vs = append(vs, int(v))
		}
		// deterministic order
		for i := range vs {
			for j := i + 1; j < len(vs); j++ {
				if vs[j] < vs[i] {
					vs[i], vs[j] = vs[j], vs[i]
				}
			}
		}
		for _, v := range vs {
			for _, cl := range b58Classes {
				if h, s, ok := searchClassHash(byte(v), cl.set); ok {
					classHashList = append(classHashList, classHash{cl.name, byte(v), h, s})
				}
			}
		}
	})
	return classHashList
}

func searchClassHash(version byte, set string) ([]byte, string, bool) {
	idxOf := func(ch byte) int { return strings.IndexByte(ref.B58Alphabet, ch) }
	inSet := make([]bool, 58)
	for i := 0; i < len(set); i++ {
		inSet[idxOf(set[i])] = true
	}
	passedVersion := 0
	for t := uint64(1); t < 400000; t++ {
		if t == 4000 && passedVersion == 0 {
			return nil, "", false // the characters this version byte forces are outside the class
		}
		// pseudo-random start value with the version byte on top and a zero checksum
		b := make([]byte, 25)
		b[0] = version
		x := t * 0x9e3779b97f4a7c15
		for i := 1; i < 21; i++ {
			x ^= x << 13
			x ^= x >> 7
			x ^= x << 17
			b[i] = byte(x >> 32)
		}
		s := []byte(ref.B58Encode(b))
		// repair every character except the last seven into the class (next class symbol upwards, else downwards)
		for i := 0; i < len(s)-7; i++ {
			d := idxOf(s[i])
			if inSet[d] {
				continue
			}
			r := -1
			for k := d + 1; k < 58; k++ {
				if inSet[k] {
					r = k
					break
				}
			}
			if r < 0 || i == 0 {
				for k := d - 1; k >= 0; k-- {
					if inSet[k] {
						r = k
						break
					}
				}
			}
			if r < 0 {
				break
			}
			s[i] = ref.B58Alphabet[r]
		}
		nb, ok := ref.B58Decode(string(s))
		if !ok || len(nb) != 25 || nb[0] != version {
			continue
		}
		passedVersion++
		h := append([]byte{}, nb[1:21]...)
		str := ref.B58CheckEncode(version, h)
		if inClass(str, set) {
			return h, str, true
		}
	}
	return nil, "", false
}

var _ = big.NewInt

// Dual-format strings: hashes whose BARE CashAddr string (in the stated case) is at the same time a
// valid Base58Check string - every character in the Base58 alphabet and the last four decoded bytes
// the double-SHA256 prefix of the rest.  About one eligible string in 2^32 is; these were found by
// tools/dualformat (a few minutes on 16 cores each) and are re-verified here with the reference
// codecs before use.  A decoder that tries Base58Check before CashAddr sends them down the legacy
// branch.
var dualFormatFixtures = []struct {
	Prefix string
	Type   int
	Upper  bool
	Hash   string
	Str    string
}{
	{"bitcoincash", 0, true, "dcc7492d19b744afc6d9f50eaaaa55550695ca01", "QRWVWJFDRXM5FT7XM86SA242242SD9W2QYP3RWP84V"},
	{"bitcoincash", 1, true, "39d2b8b5299205083f18eddbaeaa5555d523a7ea", "PQUA9W949XFQ2ZPLRRKAHT42242A2GA8AGNQPKPA98"},
}

// dualFormatHashes returns the verified fixtures' hashes (for P2PKH/P2SH families).
func dualFormatHashes() [][]byte {
	var out [][]byte
	for _, f := range dualFormatFixtures {
		h := mc.UnHex(f.Hash)
		s := ref.CashEncode(f.Prefix, f.Type, h)
		if f.Upper {
			s = strings.ToUpper(s)
		}
		if s != f.Str {
			panic("dual-format fixture: the string is not the CashAddr encoding of the hash: " + f.Str)
		}
		if _, _, st := ref.B58CheckDecode(f.Str); st != "ok" {
			panic("dual-format fixture: the string is not valid Base58Check: " + f.Str)
		}
		out = append(out, h)
	}
	return out
}
