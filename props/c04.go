package props

import (
	"bytes"
	"encoding/json"
	"fmt"
	"math/big"
	"sort"
	"sync"

	"github.com/gcash/bchutil/hdkeychain"

	"verif/mc"
	"verif/ref"
)

// C04 — HD key derivation conforms to BIP32 on every seed and path.

func init() {
	register(&Prop{ID: "C04", Run: runC04, Replay: map[string]func(*mc.Ctx, json.RawMessage){
		"path": replayer(c04EvalPath),
		"seed": replayer(c04EvalSeed),
		"twin": replayer(c04EvalTwin),
	}})
}

type c04Path struct {
	Net  string   `json:"net"`
	Seed string   `json:"seed_hex"`
	Path []uint32 `json:"path"`
	// NeuterAt: -1 = private all the way; k >= 0 = neuter after k steps and continue publicly
	NeuterAt int `json:"neuter_at"`
	// Before: indices derived FIRST from the very key object that then derives the last step of the
	// path (their results are dropped); Observe: String/Address/ECPubKey/Neuter are called on that
	// object first.  A derivation must not depend on what the parent object was used for before.
	Before  []uint32 `json:"siblings_derived_first,omitempty"`
	Observe bool     `json:"parent_observed_first,omitempty"`
}

var c04Indices = []uint32{0, 1, 2, 1<<31 - 1, 1 << 31, 1<<31 + 1, 1<<32 - 1}

// reference derivation cache: the reference is a pure function of (seed, path so far, where the
// chain was neutered), so nodes are memoised under that key.
var c04Cache sync.Map

// (index of the vector seed, non-hardened child index): the child's public key has X < 2^240
var c04ShortX = []struct {
	seed int
	idx  uint32
}{{0, 161841}, {0, 174548}, {0, 194697}, {1, 244426}, {1, 258834}}

type c04Ref struct {
	x      *ref.XKey
	status string
}

func c04RefMaster(seed []byte) (*ref.XKey, string, string) {
	key := fmt.Sprintf("%x", seed)
	if v, ok := c04Cache.Load(key); ok {
		r := v.(c04Ref)
		return r.x, r.status, key
	}
	x, st := ref.BIP32Master(seed)
	c04Cache.Store(key, c04Ref{x, st})
	return x, st, key
}

func c04RefChild(parentKey string, parent *ref.XKey, idx uint32) (*ref.XKey, string, string) {
	key := fmt.Sprintf("%s/%d", parentKey, idx)
	if v, ok := c04Cache.Load(key); ok {
		r := v.(c04Ref)
		return r.x, r.status, key
	}
	x, st := parent.Child(idx)
	c04Cache.Store(key, c04Ref{x, st})
	return x, st, key
}

// c04RefDerive derives a private path from a seed through the cache.
func c04RefDerive(seed []byte, path []uint32, _ int) (*ref.XKey, string) {
	x, st, key := c04RefMaster(seed)
	for _, i := range path {
		if st != "ok" {
			return nil, st
		}
		x, st, key = c04RefChild(key, x, i)
	}
	return x, st
}

func c04Compare(w *mc.W, kind string, cas any, k *hdkeychain.ExtendedKey, x *ref.XKey, netName string, where string) bool {
	c := w.Ctx()
	rn := refNet(netName)
	ok := true
	bad := func(class, detail string) {
		ok = false
		c.Violate(class, kind, cas, where+": "+detail)
	}
	w.Eval()
	if got, want := k.String(), x.String(rn); got != want {
		bad("extended-key-string-differs-from-bip32", fmt.Sprintf("got %s want %s", got, want))
	}
	if k.IsPrivate() != x.Private {
		bad("private-flag-wrong", "")
	}
	if int(k.Depth()) != x.Depth {
		bad("depth-wrong", fmt.Sprintf("got %d want %d", k.Depth(), x.Depth))
	}
	if fp := k.ParentFingerprint(); fp != uint32(x.ParentFP[0])<<24|uint32(x.ParentFP[1])<<16|uint32(x.ParentFP[2])<<8|uint32(x.ParentFP[3]) {
		bad("parent-fingerprint-wrong", fmt.Sprintf("got %08x want %x", fp, x.ParentFP))
	}
	pub, err := k.ECPubKey()
	if err != nil || !bytes.Equal(pub.SerializeCompressed(), x.P.Compressed()) {
		bad("public-key-differs-from-bip32", fmt.Sprint(err))
	}
	priv, err := k.ECPrivKey()
	if x.Private {
		if err != nil || priv.D.Cmp(x.K) != 0 {
			bad("private-scalar-differs-from-bip32", fmt.Sprint(err))
		}
	} else if err != hdkeychain.ErrNotPrivExtKey {
		bad("public-key-yields-private-key", fmt.Sprint(err))
	}
	addr, err := k.Address(netParams[netName])
	wantAddr := ref.CashEncode(rn.CashPrefix, 0, ref.Hash160(x.P.Compressed()))
	if err != nil || addr.EncodeAddress() != wantAddr {
		bad("derived-address-wrong", fmt.Sprintf("%v", err))
	}
	// the address for EVERY network in turn, on the same key object (the address depends on the network
	// asked for, not on what was asked before: several networks share HD version bytes but not the
	// address prefix), once forwards and once backwards
	for pass := 0; pass < 2; pass++ {
		for j := range ref.Nets {
			n := ref.Nets[j]
			if pass == 1 {
				n = ref.Nets[len(ref.Nets)-1-j]
			}
			a, err := k.Address(netParams[n.Name])
			want := ref.CashEncode(n.CashPrefix, 0, ref.Hash160(x.P.Compressed()))
			if err != nil || a.EncodeAddress() != want {
				bad("derived-address-wrong/for-another-network", fmt.Sprintf("Address(%s) = %v (%v), want %s", n.Name, a, err, want))
				break
			}
		}
	}
	if x.Private {
		nk, err := k.Neuter()
		if err != nil || nk.String() != x.Neuter().String(rn) {
			bad("neutered-key-differs-from-bip32", fmt.Sprint(err))
		}
	}
	return ok
}

func c04EvalPath(w *mc.W, cas c04Path) {
	c := w.Ctx()
	seed := mc.UnHex(cas.Seed)
	net := netParams[cas.Net]
	fail := func(class, detail string) { c.Violate(class, "path", cas, detail) }
	msg, p := mc.Guard(func() {
		k, err := hdkeychain.NewMaster(seed, net)
		w.Trans()
		x, st, rkey := c04RefMaster(seed)
		if st != "ok" {
			if err == nil {
				fail("master-accepts-bad-seed", st)
			}
			return
		}
		if err != nil {
			fail("master-rejects-good-seed", err.Error())
			return
		}
		if cas.NeuterAt == 0 {
			k, _ = k.Neuter()
			x = x.Neuter()
			rkey += "N"
		}
		for step, idx := range cas.Path {
			// expected status from the reference
			cx, st, ckey := c04RefChild(rkey, x, idx)
			if step == len(cas.Path)-1 {
				if cas.Observe {
					_ = k.String()
					k.Address(net)
					k.ECPubKey()
					k.Neuter()
				}
				for _, b := range cas.Before {
					k.Child(b)
					w.Trans()
				}
			}
			ck, err := k.Child(idx)
			w.Trans()
			switch st {
			case "depth":
				w.Outcome("refused: beyond depth 255")
				if err != hdkeychain.ErrDeriveBeyondMaxDepth {
					fail("depth-255-not-refused-with-ErrDeriveBeyondMaxDepth", fmt.Sprintf("step %d: err=%v", step, err))
				}
				return
			case "hardened-from-public":
				w.Outcome("refused: hardened from public")
				if err != hdkeychain.ErrDeriveHardFromPublic {
					fail("hardened-from-public-not-refused", fmt.Sprintf("step %d: err=%v", step, err))
				}
				return
			case "invalid":
				w.Outcome("refused: invalid child")
				if err != hdkeychain.ErrInvalidChild {
					fail("invalid-child-not-refused", fmt.Sprintf("step %d: err=%v", step, err))
				}
				return
			}
			if err != nil {
				fail("child-derivation-fails", fmt.Sprintf("step %d index %d: %v", step, idx, err))
				return
			}
			last := step == len(cas.Path)-1
			if last {
				// public derivation from the neutered parent equals the neutered private child
				if x.Private && idx < 1<<31 {
					nk, _ := k.Neuter()
					pc, err := nk.Child(idx)
					w.Trans()
					if err != nil || pc.String() != cx.Neuter().String(refNet(cas.Net)) {
						fail("public-derivation-differs-from-neutered-private-child", fmt.Sprintf("index %d: %v", idx, err))
					}
				}
				if x.Private && idx >= 1<<31 {
					nk, _ := k.Neuter()
					if _, err := nk.Child(idx); err != hdkeychain.ErrDeriveHardFromPublic {
						fail("hardened-from-public-not-refused", fmt.Sprintf("index %d: %v", idx, err))
					}
				}
			}
			k, x, rkey = ck, cx, ckey
			if cas.NeuterAt == step+1 {
				k, _ = k.Neuter()
				x = x.Neuter()
				rkey += "N"
			}
			if last {
				if c04Compare(w, "path", cas, k, x, cas.Net, fmt.Sprintf("node at depth %d", x.Depth)) {
					if x.Private {
						w.Outcome("private node conforms")
					} else {
						w.Outcome("public node conforms")
					}
				}
				if x.Private && x.K.BitLen() <= 248 {
					w.Outcome("node with leading-zero scalar")
					w.Nontrivial(mc.HashString(cas.Seed, fmt.Sprint(cas.Path)))
				}
				if x.P.X.BitLen() <= 248 {
					w.Outcome("node with leading-zero X coordinate")
					w.Nontrivial(mc.HashString(cas.Seed, fmt.Sprint(cas.Path), "x"))
				}
			}
		}
		if len(cas.Path) == 0 {
			c04Compare(w, "path", cas, k, x, cas.Net, "master")
			w.Outcome("master conforms")
		}
	})
	if p {
		fail("derivation-panics", msg)
	}
}

type c04Seed struct {
	Net string `json:"net"`
	Len int    `json:"len"`
}

func c04SeedBytes(n int) []byte {
	b := make([]byte, n)
	for i := range b {
		b[i] = byte(i*31 + n)
	}
	return b
}

func c04EvalSeed(w *mc.W, cas c04Seed) {
	c := w.Ctx()
	w.Eval()
	seed := c04SeedBytes(cas.Len)
	var k *hdkeychain.ExtendedKey
	var err error
	if msg, p := mc.Guard(func() { k, err = hdkeychain.NewMaster(seed, netParams[cas.Net]) }); p {
		c.Violate("newmaster-panics", "seed", cas, msg)
		return
	}
	x, st := ref.BIP32Master(seed)
	switch st {
	case "seedlen":
		w.Outcome("seed length refused")
		w.Nontrivial(uint64(cas.Len))
		if err != hdkeychain.ErrInvalidSeedLen {
			c.Violate("illegal-seed-length-not-refused-with-ErrInvalidSeedLen", "seed", cas, fmt.Sprint(err))
		}
	case "unusable":
		if err != hdkeychain.ErrUnusableSeed {
			c.Violate("unusable-seed-not-refused", "seed", cas, fmt.Sprint(err))
		}
	default:
		if err != nil {
			c.Violate("master-rejects-good-seed", "seed", cas, err.Error())
			return
		}
		if c04Compare(w, "seed", cas, k, x, cas.Net, "master") {
			w.Outcome("master conforms")
		}
	}
}

var bip32Vectors = []struct {
	seed string
	m    string
	path []uint32
	priv string
}{
	{"000102030405060708090a0b0c0d0e0f", "xprv9s21ZrQH143K3QTDL4LXw2F7HEK3wJUD2nW2nRk4stbPy6cq3jPPqjiChkVvvNKmPGJxWUtg6LnF5kejMRNNU3TGtRBeJgk33yuGBxrMPHi",
		[]uint32{1 << 31}, "xprv9uHRZZhk6KAJC1avXpDAp4MDc3sQKNxDiPvvkX8Br5ngLNv1TxvUxt4cV1rGL5hj6KCesnDYUhd7oWgT11eZG7XnxHrnYeSvkzY7d2bhkJ7"},
	{"fffcf9f6f3f0edeae7e4e1dedbd8d5d2cfccc9c6c3c0bdbab7b4b1aeaba8a5a29f9c999693908d8a8784817e7b7875726f6c696663605d5a5754514e4b484542",
		"xprv9s21ZrQH143K31xYSDQpPDxsXRTUcvj2iNHm5NUtrGiGG5e2DtALGdso3pGz6ssrdK4PFmM8NSpSBHNqPqm55Qn3LqFtT2emdEXVYsCzC2U",
		[]uint32{0}, "xprv9vHkqa6EV4sPZHYqZznhT2NPtPCjKuDKGY38FBWLvgaDx45zo9WQRUT3dKYnjwih2yJD9mkrocEZXo1ex8G81dwSM1fwqWpWkeS3v86pgKt"},
	{"4b381541583be4423346c643850da4b320e46a87ae3d2a4e6da11eba819cd4acba45d239319ac14f863b8d5ab5a0d0c64d2e8a1e7d1457df2e5a3c51c73235be",
		"xprv9s21ZrQH143K25QhxbucbDDuQ4naNntJRi4KUfWT7xo4EKsHt2QJDu7KXp1A3u7Bi1j8ph3EGsZ9Xvz9dGuVrtHHs7pXeTzjuxBrCmmhgC6",
		[]uint32{1 << 31}, "xprv9uPDJpEQgRQfDcW7BkF7eTya6RPxXeJCqCJGHuCJ4GiRVLzkTXBAJMu2qaMWPrS7AANYqdq6vcBcBUdJCVVFceUvJFjaPdGZ2y9WACViL4L"},
}

func c04SelfTest() {
	for _, v := range bip32Vectors {
		x, st := ref.BIP32Master(mc.UnHex(v.seed))
		if st != "ok" || x.String(ref.Nets[0]) != v.m {
			panic("reference BIP32 fails test vector master " + v.seed[:8])
		}
		for _, i := range v.path {
			x, _ = x.Child(i)
		}
		if x.String(ref.Nets[0]) != v.priv {
			panic("reference BIP32 fails test vector child " + v.seed[:8])
		}
	}
}

func runC04(c *mc.Ctx) {
	c04SelfTest()
	c.Rule("derivation tree explored exhaustively over the index alphabet {0,1,2,2^31-1,2^31,2^31+1,2^32-1} to depth 3 from three seeds (depth 2 from one seed per legal length), wide scans of 2x2048 children per master to reach nodes with leading-zero scalars / X coordinates and everything one or two levels below them, depth-255 chains; every node compared field by field with the reference BIP32 (HMAC-SHA512 + affine secp256k1); non-trivial = nodes with a leading-zero scalar or X coordinate")
	c.Assume("reference BIP32 model (ref/bip32.go, ref/secp256k1.go) is correct; it reproduces BIP32 test vectors 1-3 at start")
	c.Assume("SHA-512/HMAC, SHA-256, RIPEMD-160 trusted")

	var cases []c04Path
	seeds := []string{bip32Vectors[0].seed, bip32Vectors[1].seed, bip32Vectors[2].seed}
	nets := []string{"mainnet", "testnet3", "simnet"}
	// (a) all paths over I of length <= 3 from 3 seeds (private), and with neutering at each point
	maxd := 3
	var rec func(seed string, net string, path []uint32)
	rec = func(seed, net string, path []uint32) {
		cases = append(cases, c04Path{Net: net, Seed: seed, Path: append([]uint32{}, path...), NeuterAt: -1})
		for na := 0; na <= len(path); na++ {
			if na == len(path) && len(path) > 0 {
				continue // neutering the final node is covered by c04Compare's Neuter check
			}
			cases = append(cases, c04Path{Net: net, Seed: seed, Path: append([]uint32{}, path...), NeuterAt: na})
		}
		if len(path) == maxd {
			return
		}
		for _, i := range c04Indices {
			rec(seed, net, append(path, i))
		}
	}
	for si, s := range seeds {
		maxd = 3
		if c.Thorough() && si == 0 {
			maxd = 4
		}
		rec(s, nets[si], nil)
	}
	// one seed per legal length, depth <= 1 (quick) / 2 (thorough)
	for L := 16; L <= 64; L++ {
		s := mc.Hex(c04SeedBytes(L))
		maxd = mc.Pick(c, 2, 2)
		rec(s, "mainnet", nil)
	}
	// (a2) the last step taken from a parent object that was used before: every sibling index derived
	// first (also the same index, and two siblings), with and without the observers; paths of length
	// 1..2 from the first seed, private and neutered at every point
	{
		var extra []c04Path
		for _, cs := range cases {
			if cs.Seed != seeds[0] || len(cs.Path) < 1 || len(cs.Path) > 2 {
				continue
			}
			for _, b := range c04Indices {
				for _, obs := range []bool{false, true} {
					e := cs
					e.Before, e.Observe = []uint32{b}, obs
					extra = append(extra, e)
				}
				e := cs
				e.Before = []uint32{b, c04Indices[(len(cs.Path)+int(b%5))%len(c04Indices)]}
				extra = append(extra, e)
			}
			e := cs
			e.Observe = true
			extra = append(extra, e)
		}
		cases = append(cases, extra...)
	}
	// (a3) index CONTENT: the alphabet's indices have equal middle bytes (00 00 / ff ff); ser32(i) goes
	// byte by byte into the HMAC input, so every byte position gets its own values here: one byte set
	// (01, 80, ff) at each of the four positions, and patterned indices with four different bytes, as
	// the last step of paths of length 1 and 2, private and (non-hardened) from the neutered parent
	{
		var idx []uint32
		for k := uint(0); k < 4; k++ {
			for _, b := range []uint32{0x01, 0x80, 0xff} {
				idx = append(idx, b<<(8*k), b<<(8*k)|0x80000000)
			}
		}
		idx = append(idx, 0x01020304, 0x81020304, 0x12345678, 0x92345678, 0xfedcba98, 0x7edcba98, 0x00ff00ff, 0x80ff00ff, 0x7f00ff00, 0xff00ff00, 0x00010000, 0x80010000, 0x0000ffff, 0x8000ffff, 65535, 65536, 0x80000100, 256, 1000, 0x800003e8)
		for si, sd := range seeds {
			for _, i := range idx {
				for _, pre := range [][]uint32{{}, {0x80000000}, {1}} {
					path := append(append([]uint32{}, pre...), i)
					cases = append(cases, c04Path{Net: nets[si], Seed: sd, Path: path, NeuterAt: -1})
					if i < 0x80000000 {
						cases = append(cases, c04Path{Net: nets[si], Seed: sd, Path: path, NeuterAt: len(path) - 1})
					}
				}
			}
		}
	}
	c.Space("paths over the index alphabet (with every neutering point; last step also from a parent object used before) and last steps over byte-patterned indices", int64(len(cases)))
	c.ParFor(int64(len(cases)), func(w *mc.W, i int64) {
		w.State()
		c04EvalPath(w, cases[i])
	})
	c.Sample("path", cases[10])
	runC04Twins(c)

	// seeds: legal and illegal lengths on every net
	var seedCases []c04Seed
	for _, n := range ref.Nets {
		for _, L := range []int{0, 1, 15, 16, 17, 32, 63, 64, 65, 128} {
			seedCases = append(seedCases, c04Seed{Net: n.Name, Len: L})
		}
	}
	// every seed length 0..1100 and the lengths congruent to 16..64 modulo 2^16 (a length taken through
	// a narrow integer type wraps into the legal range)
	for L := 0; L <= 1100; L++ {
		seedCases = append(seedCases, c04Seed{Net: "mainnet", Len: L})
	}
	for _, L := range []int{65536, 65536 + 15, 65536 + 16, 65536 + 32, 65536 + 64, 65536 + 65, 1<<24 + 32} {
		seedCases = append(seedCases, c04Seed{Net: "mainnet", Len: L})
	}
	c.Space("seed lengths x nets", int64(len(seedCases)))
	c.ParFor(int64(len(seedCases)), func(w *mc.W, i int64) {
		w.State()
		c04EvalSeed(w, seedCases[i])
	})

	// (b) wide scan: children 0..N-1 and 2^31..2^31+N-1 of two masters
	N := mc.Pick(c, 4096, 65536)
	type hit struct {
		seed string
		idx  uint32
	}
	var hits []hit
	var hmu sync.Mutex
	for _, s := range seeds[:2] {
		s := s
		c.Space(fmt.Sprintf("wide scan of children of master %s..", s[:8]), int64(2*N))
		c.ParFor(int64(2*N), func(w *mc.W, i int64) {
			idx := uint32(i)
			if i >= int64(N) {
				idx = uint32(i-int64(N)) + 1<<31
			}
			w.State()
			c04EvalPath(w, c04Path{Net: "mainnet", Seed: s, Path: []uint32{idx}, NeuterAt: -1})
			x, st := c04RefDerive(mc.UnHex(s), []uint32{idx}, -1)
			if st == "ok" && (x.K.BitLen() <= 248 || x.P.X.BitLen() <= 248) {
				hmu.Lock()
				hits = append(hits, hit{s, idx})
				hmu.Unlock()
			}
		})
	}
	c.Note("leading_zero_nodes_found_in_wide_scan", len(hits))
	var below []c04Path
	for _, h := range hits {
		for _, i := range c04Indices {
			below = append(below, c04Path{Net: "mainnet", Seed: h.seed, Path: []uint32{h.idx, i}, NeuterAt: -1})
			if h.idx < 1<<31 {
				below = append(below, c04Path{Net: "mainnet", Seed: h.seed, Path: []uint32{h.idx, i}, NeuterAt: 0})
			}
			below = append(below, c04Path{Net: "mainnet", Seed: h.seed, Path: []uint32{h.idx, i}, NeuterAt: 1})
			if c.Thorough() {
				for _, j := range c04Indices {
					below = append(below, c04Path{Net: "mainnet", Seed: h.seed, Path: []uint32{h.idx, i, j}, NeuterAt: -1})
					below = append(below, c04Path{Net: "mainnet", Seed: h.seed, Path: []uint32{h.idx, i, j}, NeuterAt: 1})
				}
			}
		}
	}
	c.Space("paths below leading-zero nodes", int64(len(below)))
	c.ParFor(int64(len(below)), func(w *mc.W, i int64) {
		w.State()
		c04EvalPath(w, below[i])
	})

	// (b2) deep scan by the reference alone: hardened children need no point multiplication in the
	// reference (k_child = IL + k_par mod n), so 2^20 (2^22) of them per master are scanned for
	// scalars with TWO or more leading zero bytes (1 in 65536); each hit and its hardened and
	// non-hardened children and grandchildren then go through the full comparison.
	{
		scanN := int64(mc.Pick(c, 1<<20, 1<<22))
		var deep []c04Path
		var dmu sync.Mutex
		for _, s := range seeds[:2] {
			s := s
			m, _, _ := c04RefMaster(mc.UnHex(s))
			c.Space(fmt.Sprintf("reference-only scan of hardened children of master %s.. for scalars with >= 2 leading zero bytes", s[:8]), scanN)
			c.ParFor(scanN, func(w *mc.W, i int64) {
				idx := uint32(i) | 1<<31
				k, _, ok := ref.HardenedChildScalar(m.K, m.ChainCode, idx)
				if ok && k.BitLen() <= 240 {
					dmu.Lock()
					deep = append(deep, c04Path{Net: "mainnet", Seed: s, Path: []uint32{idx}, NeuterAt: -1})
					dmu.Unlock()
				}
			})
		}
		c.Note("nodes_with_two_leading_zero_bytes_found", len(deep))
		var more []c04Path
		for _, d := range deep {
			more = append(more, d)
			for _, i := range c04Indices {
				more = append(more, c04Path{Net: "mainnet", Seed: d.Seed, Path: []uint32{d.Path[0], i}, NeuterAt: -1})
				more = append(more, c04Path{Net: "mainnet", Seed: d.Seed, Path: []uint32{d.Path[0], i}, NeuterAt: 1})
				for _, j := range []uint32{0, 1 << 31} {
					more = append(more, c04Path{Net: "mainnet", Seed: d.Seed, Path: []uint32{d.Path[0], i, j}, NeuterAt: -1})
				}
			}
		}
		sort.Slice(more, func(a, b int) bool { return fmt.Sprint(more[a]) < fmt.Sprint(more[b]) })
		c.Space("paths at and below nodes with two leading zero bytes", int64(len(more)))
		c.ParFor(int64(len(more)), func(w *mc.W, i int64) {
			w.State()
			c04EvalPath(w, more[i])
		})
	}

	// (b3) public keys whose X coordinate has TWO leading zero bytes (1 in 65536, and every candidate
	// costs a point multiplication): non-hardened children of the vector masters found once by
	// tools/shortx and re-verified here with the reference.  Each, derived privately, publicly and
	// neutered afterwards, and everything one level below it.
	{
		var sx []c04Path
		for _, f := range c04ShortX {
			x, st := c04RefDerive(mc.UnHex(seeds[f.seed]), []uint32{f.idx}, -1)
			if st != "ok" || x.P.X.BitLen() > 240 {
				panic(fmt.Sprintf("c04: hard-wired child %d of master %d does not have a short X coordinate", f.idx, f.seed))
			}
			for na := -1; na <= 1; na++ {
				sx = append(sx, c04Path{Net: "mainnet", Seed: seeds[f.seed], Path: []uint32{f.idx}, NeuterAt: na})
				for _, i := range c04Indices {
					sx = append(sx, c04Path{Net: "mainnet", Seed: seeds[f.seed], Path: []uint32{f.idx, i}, NeuterAt: na})
				}
			}
			sx = append(sx, c04Path{Net: "testnet3", Seed: seeds[f.seed], Path: []uint32{f.idx, 0}, NeuterAt: 0, Observe: true})
		}
		c.Space("paths at and below children whose public key has an X coordinate with two leading zero bytes", int64(len(sx)))
		c.ParFor(int64(len(sx)), func(w *mc.W, i int64) {
			w.State()
			c04EvalPath(w, sx[i])
		})
	}

	// (c) depth-255 chains, private (alternating the index alphabet) and public (non-hardened only)
	{
		var path []uint32
		for d := 0; d < 256; d++ {
			path = append(path, c04Indices[d%len(c04Indices)])
		}
		var pubPath []uint32
		for d := 0; d < 256; d++ {
			pubPath = append(pubPath, c04Indices[d%3])
		}
		chains := []c04Path{
			{Net: "mainnet", Seed: seeds[0], Path: path[:255], NeuterAt: -1},
			{Net: "mainnet", Seed: seeds[0], Path: path, NeuterAt: -1},
			{Net: "testnet3", Seed: seeds[1], Path: pubPath[:255], NeuterAt: 0},
			{Net: "testnet3", Seed: seeds[1], Path: pubPath, NeuterAt: 0},
		}
		// every prefix depth on the thorough tier (checks the depth byte at every depth)
		if c.Thorough() {
			for d := 4; d < 255; d++ {
				chains = append(chains, c04Path{Net: "mainnet", Seed: seeds[0], Path: path[:d], NeuterAt: -1})
			}
		} else {
			for _, d := range []int{127, 128, 129, 254} {
				chains = append(chains, c04Path{Net: "mainnet", Seed: seeds[0], Path: path[:d], NeuterAt: -1})
			}
		}
		c.Space("depth chains", int64(len(chains)))
		w := c.Worker()
		for _, ch := range chains { // sequential: the reference cache makes each prefix cheap
			w.State()
			c04EvalPath(w, ch)
		}
		w.Done()
	}
	_ = big.NewInt
}
