//go:build !nohook_root

package props

import "github.com/gcash/bchutil"

var hookCashPolyMod func([]byte) uint64 = bchutil.VerifPolyMod
var hookCashVerify func(string, []byte) bool = bchutil.VerifVerifyChecksum
