//go:build nohook_gcs

package props

var hookFastReduction func(v, nHi, nLo uint64) uint64
