package props

import (
	"bytes"
	"encoding/json"
	"fmt"
	"math"
	"sort"
	"strings"
	"sync"

	"github.com/gcash/bchd/chaincfg/chainhash"
	"github.com/gcash/bchd/wire"
	"github.com/gcash/bchutil/bloom"

	"verif/mc"
	"verif/ref"
)

// C09 — bloom filters have no false negatives and are bit-exact BIP37 (E-SEQ).

func init() {
	register(&Prop{ID: "C09", Run: runC09, Replay: map[string]func(*mc.Ctx, json.RawMessage){
		"history": replayer(c09EvalHistory),
		"pair":    replayer(c09EvalPair),
		"murmur":  replayer(c09EvalMurmur),
		"sizing":  replayer(c09EvalSizing),
	}})
}

type c09Config struct {
	// New: when non-empty the filter is built by NewFilter(elements, tweak, fprate, flags) with
	// New = "elements:fprate" (fprate by name, see c09FPRates) instead of LoadFilter
	New       string `json:"newfilter,omitempty"`
	Bytes     int    `json:"filter_bytes"`
	Prefill   int    `json:"prefill"` // byte value every filter byte starts with
	HashFuncs uint32 `json:"hash_funcs"`
	Tweak     uint32 `json:"tweak"`
	Flags     int    `json:"flags"`
}

type c09History struct {
	Cfg c09Config `json:"config"`
	Ops []string  `json:"ops"` // op codes, see c09Apply
}

// item alphabet: every length 0..9, 20, 32, 33, 36 x two fills
// Murmur twins: two different 8-byte items with the same MurmurHash3 value under a given seed (found
// by a birthday walk over counters, about 2^17 hashes).  Item names "tw<seed hex>a" / "tw<seed hex>b".
// Under a filter whose FIRST hash function has that seed (seed = tweak) the two items share their
// first bit and differ in the others: anything that identifies an item by one hash value (a memo of
// the last item's offsets keyed by hash 0) confuses them.
var c09TwinCache sync.Map

func c09Twins(seed uint32) (a, b []byte) {
	if v, ok := c09TwinCache.Load(seed); ok {
		t := v.([2][]byte)
		return t[0], t[1]
	}
	seen := make(map[uint32]uint32, 1<<18)
	mk := func(i uint32) []byte {
		// both 4-byte blocks vary (with one block fixed, MurmurHash3 is a bijection of the other: no twins)
		j := i*2654435761 ^ 0x7477696e
		return []byte{byte(i), byte(i >> 8), byte(i >> 16), byte(i >> 24), byte(j), byte(j >> 8), byte(j >> 16), byte(j >> 24)}
	}
	for i := uint32(0); i < 1<<22; i++ {
		h := ref.Murmur3(seed, mk(i))
		if j, ok := seen[h]; ok {
			c09TwinCache.Store(seed, [2][]byte{mk(j), mk(i)})
			return mk(j), mk(i)
		}
		seen[h] = i
	}
	panic("c09: no murmur twins found")
}

// Boundary items: an 8-byte item whose MurmurHash3 value under a given seed is EXACTLY k*8L + d for
// some filter length L <= 36000 bytes (k = 1..3, d = -1, 0, +1): with a filter of L bytes whose hash
// function has that seed, the value lands on, just below or just above a multiple of the bit count
// (a reduction that compares with > for >=, or skips the division "when already in range", is wrong
// only there; about 2^17 hashes per item to find).  Item names "bd<seed hex>_<k>_<d+1>".
var c09BoundaryCache sync.Map

func c09Boundary(seed uint32, k, d int) (item []byte, L int) {
	key := fmt.Sprintf("%x_%d_%d", seed, k, d)
	if v, ok := c09BoundaryCache.Load(key); ok {
		t := v.(struct {
			b []byte
			l int
		})
		return t.b, t.l
	}
	for i := uint32(0); ; i++ {
		j := i*2654435761 ^ 0x626f756e
		b := []byte{byte(i), byte(i >> 8), byte(i >> 16), byte(i >> 24), byte(j), byte(j >> 8), byte(j >> 16), byte(j >> 24)}
		h := int64(ref.Murmur3(seed, b)) - int64(d)
		if h > 0 && h%int64(8*k) == 0 && h/int64(8*k) <= 36000 {
			c09BoundaryCache.Store(key, struct {
				b []byte
				l int
			}{b, int(h / int64(8*k))})
			return b, int(h / int64(8*k))
		}
		if i == 1<<28 {
			panic("c09: no boundary item found")
		}
	}
}

func c09Item(name string) []byte {
	if strings.HasPrefix(name, "bd") {
		var seed uint32
		var k, d int
		if n, _ := fmt.Sscanf(name[2:], "%x_%d_%d", &seed, &k, &d); n != 3 {
			panic("c09: bad boundary item " + name)
		}
		b, _ := c09Boundary(seed, k, d-1)
		return b
	}
	if strings.HasPrefix(name, "tw") {
		var seed uint32
		fmt.Sscanf(name[2:len(name)-1], "%x", &seed)
		a, b := c09Twins(seed)
		if name[len(name)-1] == 'a' {
			return a
		}
		return b
	}
	var n int
	var hi bool
	fmt.Sscanf(name, "%d", &n)
	if len(name) > 0 && name[len(name)-1] == 'h' {
		hi = true
	}
	if len(name) > 0 && name[len(name)-1] == 'p' { // the first n bytes of one fixed non-uniform string
		b := make([]byte, n)
		for i := range b {
			b[i] = byte(i*131+i>>3) ^ 0x5c
		}
		return b
	}
	b := make([]byte, n)
	for i := range b {
		if hi {
			b[i] = byte(0x80 + (i*37+0x7f)%0x80)
		} else {
			b[i] = byte(i + 1)
		}
	}
	return b
}

var c09ItemNames = func() []string {
	var out []string
	for _, n := range []int{0, 1, 2, 3, 4, 5, 6, 7, 8, 9, 20, 32, 33, 36} {
		out = append(out, fmt.Sprintf("%d", n), fmt.Sprintf("%dh", n))
	}
	return out
}()

// prefix family: items that are prefixes of one another, with lengths around 16, 32, 64, 128, 256, 520 (the
// wire limit for one filteradd / script element; Add and Matches themselves have no length limit) and beyond
// (an implementation that remembers or compares items by a bounded part of their content confuses them)
var c09PrefixNames = func() []string {
	var out []string
	for _, n := range []int{4, 8, 15, 16, 17, 31, 32, 33, 63, 64, 65, 66, 127, 128, 129, 255, 256, 257, 519, 520, 521, 1000, 4096, 9999, 10000, 10001, 70000} { // 520: the script-element / filteradd limit; 10000: the script size limit (Add and Matches have no limit)
		out = append(out, fmt.Sprintf("%dp", n))
	}
	return out
}()

func c09Hash(k int) *chainhash.Hash {
	var h chainhash.Hash
	for i := range h {
		h[i] = byte(0xf0 - i*k)
	}
	return &h
}

func c09OutPoint(name string) *wire.OutPoint {
	switch name {
	case "oN": // the null outpoint (what a coinbase input carries): an item like any other
		return wire.NewOutPoint(&chainhash.Hash{}, 0xffffffff)
	case "oZ": // all-zero hash, index 0
		return wire.NewOutPoint(&chainhash.Hash{}, 0)
	case "oH": // all-ones hash, index 0xffffffff
		h := chainhash.Hash{}
		for i := range h {
			h[i] = 0xff
		}
		return wire.NewOutPoint(&h, 0xffffffff)
	}
	idx := map[string]uint32{"o0": 0, "o1": 1, "oM": 0x01020304, "oF": 0xffffffff}[name]
	return wire.NewOutPoint(c09Hash(3), idx)
}

// c09EvalHistory runs one history on a fresh real filter and the reference side by side.
func c09EvalHistory(w *mc.W, h c09History) {
	c := w.Ctx()
	fail := func(class, detail string) { c.Violate(class, "history", h, detail) }
	altFull := false
	mk := func(cfg c09Config, alt bool) (*wire.MsgFilterLoad, *ref.Bloom) {
		data := bytes.Repeat([]byte{byte(cfg.Prefill)}, cfg.Bytes)
		if alt { // the message used by Reload: different geometry
			data = bytes.Repeat([]byte{0x11}, cfg.Bytes+1)
		}
		if alt && altFull { // "reloadF": a saturated message (every bit set)
			data = bytes.Repeat([]byte{0xff}, cfg.Bytes+1)
		}
		msg := wire.NewMsgFilterLoad(data, cfg.HashFuncs, cfg.Tweak, wire.BloomUpdateType(cfg.Flags))
		return msg, ref.NewBloom(data, cfg.HashFuncs, cfg.Tweak, byte(cfg.Flags))
	}
	msg, model := mk(h.Cfg, false)
	var f *bloom.Filter
	if h.Cfg.New != "" {
		var el uint32
		var fpn string
		fmt.Sscanf(h.Cfg.New, "%d:%s", &el, &fpn)
		if m, p := mc.Guard(func() { f = bloom.NewFilter(el, h.Cfg.Tweak, c09FPRates[fpn], wire.BloomUpdateType(h.Cfg.Flags)) }); p {
			fail("newfilter-panics", m)
			return
		}
		msg = f.MsgFilterLoad()
		if msg == nil || len(msg.Filter) == 0 {
			return // empty or unloaded result: nothing to compare bit by bit (C08 covers the empty filter)
		}
		model = ref.NewBloom(msg.Filter, msg.HashFuncs, msg.Tweak, byte(msg.Flags))
	}
	var curMsg *wire.MsgFilterLoad = msg
	var detached []*wire.MsgFilterLoad // messages no longer loaded, with their expected bytes
	var detachedWant [][]byte
	loaded := true
	// Arguments travel through ONE variable per kind for the whole history, refilled before each call
	// (a caller's loop variable, a reused buffer): what the filter does depends on the contents at the
	// time of the call, not on the address it has seen before, and it keeps nothing that the next
	// refill would change.
	var argOP wire.OutPoint
	var argHash chainhash.Hash
	argBuf := make([]byte, 0, 80000)
	item := func(name string) []byte {
		argBuf = append(argBuf[:0], c09Item(name)...)
		return argBuf
	}
	msgPanic, p := mc.Guard(func() {
		if f == nil {
			f = bloom.LoadFilter(msg)
		}
		for step, op := range h.Ops {
			w.Trans()
			where := fmt.Sprintf("step %d (%s)", step, op)
			switch {
			case op == "unload":
				f.Unload()
				if loaded {
					detached = append(detached, curMsg)
					detachedWant = append(detachedWant, model.Bytes())
				}
				loaded = false
			case op == "reload" || op == "reloadF":
				altFull = op == "reloadF"
				if loaded {
					detached = append(detached, curMsg)
					detachedWant = append(detachedWant, model.Bytes())
				}
				m2, mod2 := mk(h.Cfg, true)
				f.Reload(m2)
				curMsg, model, loaded = m2, mod2, true
			case op == "retweak" || op == "resize":
				// the caller edits the message object the filter holds and hands the SAME pointer to Reload:
				// from then on the filter is the edited message
				if !loaded {
					continue
				}
				if op == "retweak" {
					curMsg.Tweak ^= 0x5a5a0101
					model = ref.NewBloom(curMsg.Filter, curMsg.HashFuncs, curMsg.Tweak, byte(curMsg.Flags))
				} else {
					curMsg.Filter = bytes.Repeat([]byte{0x00}, len(curMsg.Filter)+3)
					model = ref.NewBloom(curMsg.Filter, curMsg.HashFuncs, curMsg.Tweak, byte(curMsg.Flags))
				}
				f.Reload(curMsg)
			case op == "isloaded":
				if f.IsLoaded() != loaded {
					fail("isloaded-wrong", where)
				}
			case op == "msg":
				m := f.MsgFilterLoad()
				if loaded && m != curMsg || !loaded && m != nil {
					fail("msgfilterload-returns-wrong-message", where)
				}
			case len(op) > 4 && op[:4] == "add:":
				f.Add(item(op[4:]))
				if loaded {
					model.Insert(c09Item(op[4:]))
				}
			case op == "addhash" || op == "addhash2":
				k := 1
				if op == "addhash2" {
					k = 2
				}
				argHash = *c09Hash(k)
				f.AddHash(&argHash)
				if loaded {
					model.Insert(c09Hash(k)[:])
				}
			case len(op) > 6 && op[:6] == "addop:":
				o := c09OutPoint(op[6:])
				argOP = *o
				f.AddOutPoint(&argOP)
				if loaded {
					model.Insert(ref.OutPointBytes(o.Hash, o.Index))
				}
			case len(op) > 2 && op[:2] == "m:":
				got := f.Matches(item(op[2:]))
				want := loaded && model.Contains(c09Item(op[2:]))
				if got != want {
					fail("matches-answer-differs-from-bip37", fmt.Sprintf("%s: got %v want %v", where, got, want))
				}
			case len(op) > 4 && op[:4] == "mop:":
				o := c09OutPoint(op[4:])
				argOP = *o
				got := f.MatchesOutPoint(&argOP)
				want := loaded && model.Contains(ref.OutPointBytes(o.Hash, o.Index))
				if got != want {
					fail("matchesoutpoint-answer-differs-from-bip37", fmt.Sprintf("%s: got %v want %v", where, got, want))
				}
			default:
				panic("unknown op " + op)
			}
			// after every op: bit-exact filter bytes, detached messages untouched
			w.Eval()
			if loaded {
				if !bytes.Equal(curMsg.Filter, model.Bytes()) {
					fail("filter-bits-differ-from-bip37", fmt.Sprintf("%s: got %x want %x", where, trunc(curMsg.Filter), trunc(model.Bytes())))
					return
				}
				if curMsg.HashFuncs != model.HashFuncs || curMsg.Tweak != model.Tweak {
					fail("filter-parameters-changed", where)
				}
			}
			for i, d := range detached {
				if !bytes.Equal(d.Filter, detachedWant[i]) {
					fail("insertion-modified-a-detached-filter-message", where)
				}
			}
		}
		// final observation: every item of the alphabet, every outpoint
		finalNames := c09ItemNames
		for _, op := range h.Ops {
			if op[len(op)-1] == 'p' { // histories over the prefix family are observed on that family too
				finalNames = append(append([]string{}, c09ItemNames...), c09PrefixNames...)
				break
			}
		}
		for _, name := range finalNames {
			it := c09Item(name)
			want := loaded && model.Contains(it)
			if got := f.Matches(it); got != want {
				fail("matches-answer-differs-from-bip37", fmt.Sprintf("final observation of item %s: got %v want %v", name, got, want))
			}
		}
		for _, name := range []string{"o0", "o1", "oM", "oF", "oN", "oZ", "oH"} {
			o := c09OutPoint(name)
			want := loaded && model.Contains(ref.OutPointBytes(o.Hash, o.Index))
			if got := f.MatchesOutPoint(o); got != want {
				fail("matchesoutpoint-answer-differs-from-bip37", fmt.Sprintf("final observation of %s: got %v want %v", name, got, want))
			}
		}
		if loaded {
			// no false negatives: everything inserted in this load epoch is present
			epochStart := 0
			for i, op := range h.Ops {
				if op == "reload" || op == "reloadF" || op == "unload" || op == "retweak" || op == "resize" {
					epochStart = i + 1
				}
			}
			for _, op := range h.Ops[epochStart:] {
				switch {
				case len(op) > 4 && op[:4] == "add:":
					if !f.Matches(c09Item(op[4:])) {
						fail("false-negative", op)
					}
				case op == "addhash":
					if !f.Matches(c09Hash(1)[:]) {
						fail("false-negative", op)
					}
				case len(op) > 6 && op[:6] == "addop:":
					if !f.MatchesOutPoint(c09OutPoint(op[6:])) {
						fail("false-negative", op)
					}
				}
			}
		}
	})
	if p {
		if h.Cfg.Bytes == 0 {
			fail("empty-filter-panics", msgPanic) // C08 territory; C09 never enumerates empty filters
		} else {
			fail("filter-operation-panics", msgPanic)
		}
		return
	}
	if loaded {
		w.Outcome("history ends loaded")
	} else {
		w.Outcome("history ends unloaded")
	}
}

func trunc(b []byte) []byte {
	if len(b) > 16 {
		return b[:16]
	}
	return b
}

type c09Murmur struct {
	Seed uint32 `json:"seed"`
	Data string `json:"data_hex"`
}

func c09EvalMurmur(w *mc.W, cas c09Murmur) {
	w.Eval()
	d := mc.UnHex(cas.Data)
	var got uint32
	if msg, p := mc.Guard(func() { got = bloom.MurmurHash3(cas.Seed, d) }); p {
		w.Ctx().Violate("murmurhash3-panics", "murmur", cas, msg)
		return
	}
	if want := ref.Murmur3(cas.Seed, d); got != want {
		w.Ctx().Violate("murmurhash3-differs-from-reference", "murmur", cas, fmt.Sprintf("got %08x want %08x", got, want))
	}
}

type c09Sizing struct {
	Elements uint32  `json:"elements"`
	FPRate   float64 `json:"-"`
	FPName   string  `json:"fprate"`
}

var c09FPRates = map[string]float64{"-1": -1, "0": 0, "1e-10": 1e-10, "1e-9": 1e-9, "1e-6": 1e-6, "0.0001": 0.0001, "0.01": 0.01, "0.5": 0.5, "0.99": 0.99, "1": 1, "2": 2, "+Inf": math.Inf(1), "-Inf": math.Inf(-1), "NaN": math.NaN()}

func c09EvalSizing(w *mc.W, cas c09Sizing) {
	c := w.Ctx()
	w.Eval()
	fp := c09FPRates[cas.FPName]
	var f *bloom.Filter
	if msg, p := mc.Guard(func() { f = bloom.NewFilter(cas.Elements, 7, fp, wire.BloomUpdateAll) }); p {
		c.Violate("newfilter-panics", "sizing", cas, msg)
		return
	}
	m := f.MsgFilterLoad()
	if m == nil {
		c.Violate("newfilter-returns-unloaded-filter", "sizing", cas, "")
		return
	}
	if len(m.Filter) > 36000 || m.HashFuncs > 50 {
		c.Violate("newfilter-exceeds-wire-limits", "sizing", cas, fmt.Sprintf("bytes=%d funcs=%d", len(m.Filter), m.HashFuncs))
	}
	if m.Tweak != 7 || m.Flags != wire.BloomUpdateAll {
		c.Violate("newfilter-loses-parameters", "sizing", cas, "")
	}
	// BIP37 formulas, asserted only when every intermediate is a finite value inside uint32 range
	r := fp
	if r > 1 {
		r = 1
	}
	if r < 1e-9 || math.IsNaN(r) {
		r = 1e-9
	}
	bitsF := -1 / (math.Ln2 * math.Ln2) * float64(cas.Elements) * math.Log(r)
	if math.IsNaN(fp) || math.IsNaN(bitsF) || bitsF < 0 || bitsF >= 4294967296 {
		w.Outcome("sizing: intermediate outside uint32 (limits only)")
		return
	}
	// the library's expression order may differ in the last ulp: accept either neighbour when the
	// float lies within 1e-6 of an integer boundary
	wantBits := uint32(bitsF)
	if wantBits > 36000*8 {
		wantBits = 36000 * 8
	}
	wantBytes := wantBits / 8
	nearBoundary := math.Abs(bitsF-math.Round(bitsF)) < 1e-6
	if int(wantBytes) != len(m.Filter) && !nearBoundary {
		c.Violate("newfilter-size-differs-from-bip37-formula", "sizing", cas, fmt.Sprintf("bytes=%d want %d", len(m.Filter), wantBytes))
		return
	}
	if cas.Elements == 0 {
		w.Outcome("sizing: zero elements (hash count formula divides by zero: limits only)")
		return
	}
	kF := float64(uint32(len(m.Filter))*8) / float64(cas.Elements) * math.Ln2
	wantK := uint32(kF)
	if wantK > 50 {
		wantK = 50
	}
	if m.HashFuncs != wantK && math.Abs(kF-math.Round(kF)) >= 1e-6 {
		c.Violate("newfilter-hashfuncs-differ-from-bip37-formula", "sizing", cas, fmt.Sprintf("funcs=%d want %d", m.HashFuncs, wantK))
		return
	}
	w.Outcome("sizing: equals BIP37 formulas")
	w.Nontrivial(mc.HashString(fmt.Sprint(cas.Elements), cas.FPName))
}

func runC09(c *mc.Ctx) {
	c.Rule("all operation histories of depth <= 4 (5 thorough) over a 12-op menu {Add x3, AddHash, AddOutPoint, Matches x2, MatchesOutPoint, Reload, Unload, IsLoaded, MsgFilterLoad} on real filters for every configuration (filter bytes x prefill x hash functions x tweak), compared after every op with a []bool BIP37 model (bit-exact bytes, answers, detached messages) and observed on the whole item alphabet at the end; plus every (config, item) single insertion for items of all lengths mod 4 incl. high-bit bytes; MurmurHash3 on all inputs of length <= 2 x 6 seeds and 5-symbol strings of length 3..7; NewFilter sizing table; non-trivial = histories whose final filter differs from its initial bytes")
	c.Assume("reference MurmurHash3 / BIP37 bit array are correct (self-tested on published MurmurHash3 vectors)")
	c09SelfTest()

	sizes := mc.Pick(c, []int{1, 2, 3, 8, 255}, []int{1, 2, 3, 7, 8, 255, 36000})
	nhash := []uint32{0, 1, 2, 5, 50}
	tweaks := mc.Pick(c, []uint32{0, 0x7fffffff, 0xffffffff, 2147483649}, []uint32{0, 1, 0x7fffffff, 0x80000000, 0xffffffff, 2147483649})
	var cfgs []c09Config
	for _, s := range sizes {
		for _, pre := range []int{0, 0xa5} {
			for _, k := range nhash {
				for _, t := range tweaks {
					cfgs = append(cfgs, c09Config{Bytes: s, Prefill: pre, HashFuncs: k, Tweak: t, Flags: int(t % 3)})
				}
			}
		}
	}
	// (1) every config x every item: add then observe (depth 1) — all lengths mod 4, high bits
	var single []c09History
	for _, cfg := range cfgs {
		for _, it := range c09ItemNames {
			single = append(single, c09History{Cfg: cfg, Ops: []string{"add:" + it}})
		}
		for _, o := range []string{"o0", "o1", "oM", "oF", "oN", "oZ", "oH"} {
			single = append(single, c09History{Cfg: cfg, Ops: []string{"addop:" + o}})
		}
		single = append(single, c09History{Cfg: cfg, Ops: []string{"addhash"}})
	}
	// large filters (bit index beyond 16 bits; sizes around the 8192-byte = 65536-bit boundary)
	for _, sz := range []int{4096, 8191, 8192, 8193, 16384, 20001, 35999, 36000} {
		if c.Thorough() && sz == 36000 {
			continue // already in cfgs
		}
		for _, k := range []uint32{1, 50} {
			cfg := c09Config{Bytes: sz, HashFuncs: k, Tweak: 0xffffffff, Flags: 1}
			for _, it := range c09ItemNames {
				single = append(single, c09History{Cfg: cfg, Ops: []string{"add:" + it}})
			}
			single = append(single, c09History{Cfg: cfg, Ops: []string{"addop:oF", "addhash", "reload", "add:33h"}})
		}
	}
	// EVERY hash-function count 0..64 (and 100, 255, 256, 1000) and EVERY filter size 1..300 bytes (and
	// the neighbours of the powers of two up to 4097): an implementation that handles the functions
	// in groups, or reduces modulo the bit count by masking when the size "is a power of two", goes
	// wrong for a residue class of the count or a class of sizes that five chosen counts and five
	// chosen sizes need not contain.  Histories: nothing, one insertion, two insertions (then every
	// item of the alphabet is observed, as always).
	{
		var ks []uint32
		for k := uint32(0); k <= 64; k++ {
			ks = append(ks, k)
		}
		ks = append(ks, 100, 255, 256, 1000)
		for _, k := range ks {
			for _, sz := range []int{1, 3, 8, 64, 255} {
				for _, t := range []uint32{0, 2147483649} {
					cfg := c09Config{Bytes: sz, HashFuncs: k, Tweak: t, Flags: 1}
					for _, ops := range [][]string{{}, {"add:5"}, {"add:33h", "addop:oM"}, {"addhash", "add:0"}} {
						single = append(single, c09History{Cfg: cfg, Ops: ops})
					}
				}
			}
		}
		var szs []int
		for sz := 1; sz <= 300; sz++ {
			szs = append(szs, sz)
		}
		for _, p2 := range []int{512, 1024, 2048, 4096} {
			szs = append(szs, p2-1, p2, p2+1)
		}
		for _, sz := range szs {
			for _, k := range []uint32{1, 3, 8} {
				cfg := c09Config{Bytes: sz, HashFuncs: k, Tweak: 0x9e3779b9, Flags: 0}
				for _, ops := range [][]string{{"add:5"}, {"add:33h", "addop:oM"}} {
					single = append(single, c09History{Cfg: cfg, Ops: ops})
				}
			}
		}
	}
	c.Space("single insertions: config x item; every hash-function count 0..64 and every filter size 1..300", int64(len(single)))
	c.ParFor(int64(len(single)), func(w *mc.W, i int64) {
		w.State()
		c09EvalHistory(w, single[i])
		w.Nontrivial(mc.HashString(fmt.Sprint(single[i])))
	})

	// (1c) different contents through the same argument variable: every sequence of <= 3 (4) operations
	// over outpoints with three different hashes, two hashes and two items
	{
		am := []string{"addop:oM", "addop:oN", "addop:oH", "mop:oM", "mop:oN", "mop:oH", "addhash", "addhash2", "add:33h", "add:32", "m:33h", "m:32"}
		var hs []c09History
		for _, cfg := range []c09Config{{Bytes: 64, HashFuncs: 3, Tweak: 5, Flags: 1}, {Bytes: 3, Prefill: 0, HashFuncs: 8, Tweak: 0xffffffff, Flags: 0}} {
			var rec func(ops []string)
			rec = func(ops []string) {
				if len(ops) > 0 {
					hs = append(hs, c09History{Cfg: cfg, Ops: append([]string{}, ops...)})
				}
				if len(ops) == mc.Pick(c, 3, 4) {
					return
				}
				for _, a := range am {
					rec(append(ops, a))
				}
			}
			rec(nil)
		}
		c.Space("histories of <= 3 (4) operations over outpoints with three different hashes, two hashes and two items passed through one argument variable", int64(len(hs)))
		c.ParFor(int64(len(hs)), func(w *mc.W, i int64) {
			w.State()
			c09EvalHistory(w, hs[i])
		})
	}
	// (1d) SATURATED filters (every bit set when loaded, or reloaded with such a message): everything
	// matches while loaded and nothing once unloaded - a "full" shortcut must follow the load state.
	// Every history of <= 4 (5) operations over a 9-op menu on filters prefilled with 0xff.
	{
		fm := []string{"add:5", "m:5", "m:7h", "mop:oM", "reload", "reloadF", "unload", "isloaded", "addop:oN", "retweak", "resize"}
		var hs []c09History
		for _, cfg := range []c09Config{{Bytes: 1, Prefill: 0xff, HashFuncs: 1, Tweak: 0, Flags: 0}, {Bytes: 8, Prefill: 0xff, HashFuncs: 5, Tweak: 7, Flags: 1}, {Bytes: 3, Prefill: 0, HashFuncs: 2, Tweak: 7, Flags: 1}} {
			var rec func(ops []string)
			rec = func(ops []string) {
				hs = append(hs, c09History{Cfg: cfg, Ops: append([]string{}, ops...)})
				if len(ops) == mc.Pick(c, 4, 5) {
					return
				}
				for _, a := range fm {
					rec(append(ops, a))
				}
			}
			rec(nil)
		}
		c.Space("histories of <= 4 (5) operations on saturated filters (prefill 0xff) and with reloads of a saturated message", int64(len(hs)))
		c.ParFor(int64(len(hs)), func(w *mc.W, i int64) {
			w.State()
			c09EvalHistory(w, hs[i])
		})
	}
	// (1e) murmur twins under the filter's first and second hash function: every sequence of <= 3 (4)
	// operations over {add, matches} x {twin a, twin b, an unrelated item of the same length}
	{
		var hs []c09History
		for _, tw := range []uint32{0x5eed0009, 0, 0xffffffff} {
			for fn := uint32(0); fn < 2; fn++ {
				seed := fn*0xFBA4C795 + tw
				na, nb := fmt.Sprintf("tw%xa", seed), fmt.Sprintf("tw%xb", seed)
				tm := []string{"add:" + na, "add:" + nb, "m:" + na, "m:" + nb, "add:8", "m:8"}
				for _, cfg := range []c09Config{{Bytes: 512, HashFuncs: 7, Tweak: tw, Flags: 0}, {Bytes: 16, HashFuncs: 2, Tweak: tw, Flags: 1}} {
					var rec func(ops []string)
					rec = func(ops []string) {
						if len(ops) > 0 {
							hs = append(hs, c09History{Cfg: cfg, Ops: append([]string{}, ops...)})
						}
						if len(ops) == mc.Pick(c, 3, 4) {
							return
						}
						for _, a := range tm {
							rec(append(ops, a))
						}
					}
					rec(nil)
				}
			}
		}
		c.Space("histories of <= 3 (4) operations over pairs of items with equal MurmurHash3 under the seed of the filter's first / second hash function", int64(len(hs)))
		c.ParFor(int64(len(hs)), func(w *mc.W, i int64) {
			w.State()
			c09EvalHistory(w, hs[i])
		})
	}
	// (1f) boundary items: the value of one hash function lands exactly on k times the bit count, or
	// one below / above (see c09Boundary); the filter length is the one the item calls for
	{
		var hs []c09History
		for _, tw := range []uint32{0, 0x5eed0009} {
			for fn := uint32(0); fn < 2; fn++ {
				seed := fn*0xFBA4C795 + tw
				for k := 1; k <= 3; k++ {
					for d := -1; d <= 1; d++ {
						_, L := c09Boundary(seed, k, d)
						it := fmt.Sprintf("bd%x_%d_%d", seed, k, d+1)
						for _, pre := range []int{0, 0xff} {
							cfg := c09Config{Bytes: L, Prefill: pre, HashFuncs: fn + 1, Tweak: tw, Flags: 0}
							for _, ops := range [][]string{{"add:" + it, "m:" + it}, {"m:" + it, "add:" + it, "m:8"}, {"add:8", "m:" + it, "add:" + it, "m:" + it}} {
								hs = append(hs, c09History{Cfg: cfg, Ops: ops})
							}
						}
					}
				}
			}
		}
		c.Space("histories over items whose hash value is exactly k x the bit count (k = 1..3) or one off, under the first / second hash function, empty and saturated filters", int64(len(hs)))
		c.ParFor(int64(len(hs)), func(w *mc.W, i int64) {
			w.State()
			c09EvalHistory(w, hs[i])
		})
	}
	runC09Pairs(c)
	// (2) all histories over the 12-op menu
	menu := []string{"add:5", "add:0", "add:33h", "addhash", "addop:oM", "m:5", "m:7h", "mop:oM", "reload", "unload", "isloaded", "msg"}
	depth := mc.Pick(c, 4, 5)
	var hcfgs []c09Config
	for _, cfg := range cfgs {
		if cfg.Bytes <= 8 || c.Thorough() && cfg.Bytes <= 255 {
			if cfg.HashFuncs == 0 || cfg.HashFuncs == 2 || cfg.HashFuncs == 50 || c.Thorough() {
				hcfgs = append(hcfgs, cfg)
			}
		}
	}
	var perCfg int64
	for d := 0; d <= depth; d++ {
		perCfg += ipow(len(menu), d)
	}
	c.Space(fmt.Sprintf("histories of depth <= %d over the 12-op menu x %d configurations", depth, len(hcfgs)), perCfg*int64(len(hcfgs)))
	c.ParFor(perCfg*int64(len(hcfgs)), func(w *mc.W, i int64) {
		cfg := hcfgs[i/perCfg]
		r := i % perCfg
		d := 0
		for r >= ipow(len(menu), d) {
			r -= ipow(len(menu), d)
			d++
		}
		ops := make([]string, d)
		for k := d - 1; k >= 0; k-- {
			ops[k] = menu[r%int64(len(menu))]
			r /= int64(len(menu))
		}
		w.State()
		c09EvalHistory(w, c09History{Cfg: cfg, Ops: ops})
		for _, op := range ops {
			if len(op) > 3 && op[:3] == "add" {
				w.Nontrivial(mc.HashString(fmt.Sprint(cfg), fmt.Sprint(ops)))
				break
			}
		}
	})
	c.Sample("history", c09History{Cfg: hcfgs[3], Ops: []string{"add:5", "unload", "m:5"}})
	// histories over the prefix family: every sequence of <= 2 (3 thorough... quick: 3 on one configuration)
	// insertions / queries of items that are prefixes of one another
	{
		var pmenu []string
		for _, n := range c09PrefixNames {
			pmenu = append(pmenu, "add:"+n, "m:"+n)
		}
		pcfgs := []c09Config{{Bytes: 255, HashFuncs: 2, Tweak: 0x7fffffff, Flags: 1}, {Bytes: 8, Prefill: 0xa5, HashFuncs: 5, Tweak: 0, Flags: 0}}
		var hs []c09History
		for ci, cfg := range pcfgs {
			d3 := ci == 0 || c.Thorough()
			for _, a := range pmenu {
				hs = append(hs, c09History{Cfg: cfg, Ops: []string{a}})
				for _, b := range pmenu {
					hs = append(hs, c09History{Cfg: cfg, Ops: []string{a, b}})
					if d3 {
						for _, e := range pmenu {
							hs = append(hs, c09History{Cfg: cfg, Ops: []string{a, b, e}})
						}
					}
				}
			}
		}
		c.Space("histories of depth <= 3 over {add, matches} x 27 items that are prefixes of one another (lengths around 16..256, 520, 4096, 10000 and 70000)", int64(len(hs)))
		c.ParFor(int64(len(hs)), func(w *mc.W, i int64) {
			w.State()
			c09EvalHistory(w, hs[i])
		})
	}
	// histories on filters built by NewFilter (incl. sizings whose hash-function count is 0 or clamped)
	{
		var ncfgs []c09Config
		for _, nw := range []string{"1:0.01", "3:0.0001", "10:0.5", "100:0.6", "6:0.99", "1000000:0.0001", "20000:1e-9", "2:1"} {
			for _, t := range []uint32{0, 0xffffffff} {
				ncfgs = append(ncfgs, c09Config{New: nw, Tweak: t, Flags: int(t % 3)})
			}
		}
		nd := 3
		var nper int64
		for d := 0; d <= nd; d++ {
			nper += ipow(len(menu), d)
		}
		c.Space(fmt.Sprintf("histories of depth <= %d on filters built by NewFilter x %d sizings", nd, len(ncfgs)), nper*int64(len(ncfgs)))
		c.ParFor(nper*int64(len(ncfgs)), func(w *mc.W, i int64) {
			cfg := ncfgs[i/nper]
			r := i % nper
			d := 0
			for r >= ipow(len(menu), d) {
				r -= ipow(len(menu), d)
				d++
			}
			ops := make([]string, d)
			for k := d - 1; k >= 0; k-- {
				ops[k] = menu[r%int64(len(menu))]
				r /= int64(len(menu))
			}
			w.State()
			c09EvalHistory(w, c09History{Cfg: cfg, Ops: ops})
		})
	}

	// (3) MurmurHash3
	seeds := []uint32{0, 1, 0xfba4c795, 0x7fffffff, 0x80000000, 0xffffffff}
	all := allBytes()
	for n := 0; n <= 2; n++ {
		n := n
		size := ipow(256, n) * int64(len(seeds))
		c.Space(fmt.Sprintf("murmur3: all inputs of length %d x 6 seeds", n), size)
		c.ParFor(size, func(w *mc.W, i int64) {
			w.State()
			c09EvalMurmur(w, c09Murmur{Seed: seeds[i%6], Data: mc.Hex(bytesOfLen(all, n, i/6))})
		})
	}
	five := []byte{0x00, 0x01, 0x7f, 0x80, 0xff}
	maxL := mc.Pick(c, 7, 9)
	for n := 3; n <= maxL; n++ {
		n := n
		size := ipow(5, n) * 2
		c.Space(fmt.Sprintf("murmur3: {00,01,7f,80,ff}^%d x 2 seeds", n), size)
		c.ParFor(size, func(w *mc.W, i int64) {
			w.State()
			c09EvalMurmur(w, c09Murmur{Seed: seeds[2+3*(i%2)], Data: mc.Hex(bytesOfLen(five, n, i/2))})
		})
	}
	for _, n := range []int{127, 128, 129, 255, 256, 257, 1000, 4095, 4096, 65535, 65536, 65537} { // long inputs (length counters, tail handling)
		for _, f := range five {
			w := c.Worker()
			w.State()
			b := make([]byte, n) // non-uniform content: every byte position distinguishable
			for i := range b {
				b[i] = f ^ byte(i*37+i>>8)
			}
			b[n-1] ^= 0x80
			c09EvalMurmur(w, c09Murmur{Seed: 0xfba4c795, Data: mc.Hex(b)})
			w.Done()
		}
	}
	for n := 10; n <= 70; n++ { // longer inputs, structured: uniform fills and position-dependent content
		for _, f := range five {
			w := c.Worker()
			w.State()
			c09EvalMurmur(w, c09Murmur{Seed: 0x9747b28c, Data: mc.Hex(bytes.Repeat([]byte{f}, n))})
			b := make([]byte, n)
			for i := range b {
				b[i] = f ^ byte(i*29+1)
			}
			w.State()
			c09EvalMurmur(w, c09Murmur{Seed: 0xfba4c795, Data: mc.Hex(b)})
			w.Done()
		}
	}
	c.Sample("murmur", c09Murmur{Seed: 0xfba4c795, Data: "80ff01"})

	// (4) sizing
	var sizing []c09Sizing
	for _, e := range []uint32{0, 1, 2, 3, 10, 100, 1000, 20000, 1000000, 1 << 31, 1<<32 - 1} {
		for name := range c09FPRates {
			sizing = append(sizing, c09Sizing{Elements: e, FPName: name})
		}
	}
	// every element count 0..4096, and for every rate the neighbourhoods (+-96) of the two element
	// counts at which a clamp starts to act: where the unclamped bit count reaches 288000 (the
	// 36000-byte limit) and where the hash-function count falls to the 50-function limit
	for name, fp := range c09FPRates {
		for e := uint32(0); e <= 4096; e++ {
			sizing = append(sizing, c09Sizing{Elements: e, FPName: name})
		}
		r := fp
		if r > 1 {
			r = 1
		}
		if r < 1e-9 || math.IsNaN(r) {
			r = 1e-9
		}
		per := -1 / (math.Ln2 * math.Ln2) * math.Log(r) // bits per element
		if per > 0 && !math.IsInf(per, 0) {
			for _, cross := range []float64{288000 / per, 288000 * math.Ln2 / 50, 288000 * math.Ln2 / 51} {
				c0 := int64(cross)
				for d := int64(-96); d <= 96; d++ {
					if e := c0 + d; e >= 0 && e < 1<<32 {
						sizing = append(sizing, c09Sizing{Elements: uint32(e), FPName: name})
					}
				}
			}
		}
	}
	c.Space("NewFilter sizing: elements x fprate (boundary values, every count to 4096, neighbourhoods of the clamp crossings)", int64(len(sizing)))
	sort.Slice(sizing, func(i, j int) bool {
		if sizing[i].FPName != sizing[j].FPName {
			return sizing[i].FPName < sizing[j].FPName
		}
		return sizing[i].Elements < sizing[j].Elements
	})
	c.ParFor(int64(len(sizing)), func(w *mc.W, i int64) {
		w.State()
		c09EvalSizing(w, sizing[i])
	})
}

func c09SelfTest() {
	// published MurmurHash3_x86_32 vectors
	vec := []struct {
		seed uint32
		data string
		want uint32
	}{
		{0, "", 0}, {1, "", 0x514e28b7}, {0xffffffff, "", 0x81f16f39}, {0, "ffffffff", 0x76293b50},
		{0, "21436587", 0xf55b516b}, {0x5082edee, "21436587", 0x2362f9de}, {0, "214365", 0x7e4a8634},
		{0, "2143", 0xa0f7b07a}, {0, "21", 0x72661cf4}, {0, "00000000", 0x2362f9de}, {0, "000000", 0x85f0b427},
		{0, "0000", 0x30f4c306}, {0, "00", 0x514e28b7},
	}
	for _, v := range vec {
		if got := ref.Murmur3(v.seed, mc.UnHex(v.data)); got != v.want {
			panic(fmt.Sprintf("reference murmur3 fails vector seed=%x data=%s: %08x != %08x", v.seed, v.data, got, v.want))
		}
	}
}
