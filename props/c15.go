package props

import (
	"encoding/json"
	"fmt"
	"math/big"
	"reflect"
	"sort"
	"strconv"
	"strings"
	"sync"
	"unsafe"

	"github.com/gcash/bchd/chaincfg"
	"github.com/gcash/bchutil/hdkeychain"

	"verif/mc"
	"verif/ref"
)

// C15 — extended keys are independent values; Zero really erases.  E-SEQ: breadth-first search
// over operation histories on a pool of real keys; the successor of a state is obtained by
// replaying the history on fresh objects plus one operation; after every history all live keys
// are observed and compared with the reference model (provenance -> BIP32 value).

func init() {
	register(&Prop{ID: "C15", Run: runC15, Replay: map[string]func(*mc.Ctx, json.RawMessage){
		"history": replayer(func(w *mc.W, h c15History) { c15Run(w, h, true) }),
	}})
}

type c15Op struct {
	Op   string `json:"op"`             // master, fromstring, newext, child, neuter, setnet, zero, string, ecpub, address
	Slot int    `json:"slot,omitempty"` // operand slot
	Arg  string `json:"arg,omitempty"`  // seed name / string kind / index / net
}

type c15History struct {
	Ops []c15Op `json:"ops"`
}

var c15Seeds = map[string]string{"A": bip32Vectors[0].seed, "B": bip32Vectors[2].seed}

type c15Slot struct {
	k      *hdkeychain.ExtendedKey
	x      *ref.XKey // expected value (provenance resolved through the reference)
	rkey   string    // reference cache key of x
	net    string
	zeroed bool
	prov   string
}

func c15Fields(k *hdkeychain.ExtendedKey) (m map[string][]byte, ok bool) {
	m = map[string][]byte{}
	v := reflect.ValueOf(k).Elem()
	for _, name := range []string{"key", "pubKey", "chainCode", "parentFP", "version"} {
		f := v.FieldByName(name)
		if !f.IsValid() || f.Kind() != reflect.Slice || f.Type().Elem().Kind() != reflect.Uint8 {
			return nil, false
		}
		m[name] = *(*[]byte)(unsafe.Pointer(f.UnsafeAddr()))
	}
	return m, true
}

var c15GlobalsMu sync.Mutex

func c15CheckGlobals() string {
	for _, n := range ref.Nets {
		p := netParams[n.Name]
		if p.HDPrivateKeyID != n.HDPriv || p.HDPublicKeyID != n.HDPub {
			return n.Name
		}
	}
	return ""
}

func c15RestoreGlobals() {
	for _, n := range ref.Nets {
		p := netParams[n.Name]
		p.HDPrivateKeyID = n.HDPriv
		p.HDPublicKeyID = n.HDPub
	}
}

// c15Run replays one history on fresh objects, checks the oracles, and returns the canonical
// state key ("" if the history is not executable, e.g. operand slot missing or zeroed).
func c15Run(w *mc.W, h c15History, observe bool) (stateKey string, nslots int) {
	c := w.Ctx()
	var slots []*c15Slot
	fail := func(class, detail string) { c.Violate(class, "history", h, detail) }
	executable := true
	msg, p := mc.Guard(func() {
		for step, op := range h.Ops {
			w.Trans()
			var s *c15Slot
			if op.Op != "master" && op.Op != "fromstring" && op.Op != "newext" && op.Op != "newexttab" {
				if op.Slot >= len(slots) || slots[op.Slot].zeroed {
					executable = false
					return
				}
				s = slots[op.Slot]
			}
			switch op.Op {
			case "master":
				parts := strings.Split(op.Arg, "/")
				seed := mc.UnHex(c15Seeds[parts[0]])
				k, err := hdkeychain.NewMaster(seed, netParams[parts[1]])
				if err != nil {
					panic("harness: NewMaster: " + err.Error())
				}
				x, _, rk := c04RefMaster(seed)
				slots = append(slots, &c15Slot{k: k, x: x, rkey: rk, net: parts[1], prov: "master(" + op.Arg + ")"})
			case "fromstring":
				seed := mc.UnHex(c15Seeds["A"])
				x, _, rk := c04RefMaster(seed)
				if op.Arg == "xpub" || op.Arg == "xpub-twin" {
					x = x.Neuter()
					rk += "N"
				}
				if op.Arg == "xpub-twin" {
					// the same X with the other Y parity: the negated point, a valid key of its own whose
					// derivations differ from the original's
					t := *x
					t.P = ref.Point{X: new(big.Int).Set(x.P.X), Y: new(big.Int).Sub(ref.SecP, x.P.Y)}
					x, rk = &t, rk+"T"
				}
				k, err := hdkeychain.NewKeyFromString(x.String(ref.Nets[0]))
				if err != nil {
					fail("valid-string-rejected", err.Error())
					executable = false
					return
				}
				slots = append(slots, &c15Slot{k: k, x: x, rkey: rk, net: "mainnet", prov: "parse(" + op.Arg + ")"})
			case "newext":
				seed := mc.UnHex(c15Seeds["B"])
				x, _, rk := c04RefMaster(seed)
				kb := x.K.Bytes()
				kb = append(make([]byte, 32-len(kb)), kb...)
				k := hdkeychain.NewExtendedKey(append([]byte{}, ref.Nets[0].HDPriv[:]...), kb, append([]byte{}, x.ChainCode...),
					[]byte{0, 0, 0, 0}, 0, 0, true)
				slots = append(slots, &c15Slot{k: k, x: x, rkey: rk, net: "mainnet", prov: "newext(B)"})
			case "newexttab":
				// two PUBLIC keys whose key bytes are the two halves of ONE 66-byte table and whose chain codes
				// are the two halves of one 64-byte blob (NewExtendedKey keeps the slices it is given): a
				// derivation from one must not write into the other
				pa, pb := ref.SecBaseMulFast(big.NewInt(463)), ref.SecBaseMulFast(big.NewInt(9001))
				table := append(append(make([]byte, 0, 66), pa.Compressed()...), pb.Compressed()...)
				blob := make([]byte, 64)
				for i := range blob {
					blob[i] = byte(0x30 + i)
				}
				for t, pt := range []ref.Point{pa, pb} {
					key, cc := table[33*t:33*t+33], blob[32*t:32*t+32]
					k := hdkeychain.NewExtendedKey(append([]byte{}, ref.Nets[0].HDPub[:]...), key, cc, []byte{9, 8, 7, 6}, 1, 5, false)
					x := &ref.XKey{Private: false, P: pt, ChainCode: append([]byte{}, cc...), Depth: 1, ParentFP: []byte{9, 8, 7, 6}, ChildNum: 5}
					slots = append(slots, &c15Slot{k: k, x: x, rkey: fmt.Sprintf("tab%d", t), net: "mainnet", prov: fmt.Sprintf("newexttab(%d)", t)})
				}
			case "child":
				var idx uint32
				switch op.Arg {
				case "h":
					idx = 1 << 31
				case "s1":
					idx = c15ShortIdx()[0]
				case "s2":
					idx = c15ShortIdx()[1]
				default:
					if op.Arg != "" {
						n, _ := strconv.ParseUint(op.Arg, 0, 32)
						idx = uint32(n)
					}
				}
				ck, err := s.k.Child(idx)
				cx, st, rk := c04RefChild(s.rkey, s.x, idx)
				if st != "ok" {
					if err == nil {
						fail("child-derivation-should-fail", st)
					}
					executable = true // a refused derivation is a valid (no-op) step
					continue
				}
				if err != nil {
					fail("child-derivation-fails", fmt.Sprintf("step %d: %v", step, err))
					executable = false
					return
				}
				slots = append(slots, &c15Slot{k: ck, x: cx, rkey: rk, net: s.net, prov: s.prov + ".child(" + op.Arg + ")"})
			case "neuter":
				nk, err := s.k.Neuter()
				if err != nil {
					fail("neuter-fails", err.Error())
					executable = false
					return
				}
				if !s.x.Private {
					if nk != s.k {
						fail("neuter-of-public-key-is-not-the-same-key", "")
					}
					continue // documented: same key, no new slot
				}
				slots = append(slots, &c15Slot{k: nk, x: s.x.Neuter(), rkey: s.rkey + "N", net: s.net, prov: s.prov + ".neuter"})
			case "setnet":
				s.k.SetNet(netParams[op.Arg])
				s.net = op.Arg
			case "zero":
				before, ok := c15Fields(s.k)
				s.k.Zero()
				s.zeroed = true
				if ok {
					for name, buf := range before {
						if name == "version" {
							continue
						}
						for _, b := range buf {
							if b != 0 {
								fail("zeroed-key-buffer-not-erased/"+name, fmt.Sprintf("step %d: buffer that held %s still contains %x", step, name, buf))
								break
							}
						}
					}
				}
			case "scan": // a wallet's address scan: Arg derivations Child(0..Arg-1), results dropped
				n, _ := strconv.Atoi(op.Arg)
				for i := 0; i < n; i++ {
					if _, err := s.k.Child(uint32(i)); err != nil && err != hdkeychain.ErrInvalidChild {
						fail("child-derivation-fails", fmt.Sprintf("step %d: Child(%d): %v", step, i, err))
						executable = false
						return
					}
				}
			case "string":
				_ = s.k.String()
			case "ecpub":
				// what an observer hands out belongs to the caller, who may do with it what the exported
				// fields allow (wipe a point or a scalar, overwrite a hash): no key may change through it
				if pk, err := s.k.ECPubKey(); err == nil && pk != nil && pk.X != nil && pk.Y != nil {
					pk.X.SetInt64(0)
					pk.Y.SetInt64(0)
				}
			case "ecpriv":
				if sk, err := s.k.ECPrivKey(); err == nil && sk != nil && sk.D != nil {
					sk.D.SetInt64(0)
					if sk.X != nil && sk.Y != nil {
						sk.X.SetInt64(0)
						sk.Y.SetInt64(0)
					}
				}
			case "getters": // cheap accessors nobody expects to write
				s.k.IsPrivate()
				s.k.Depth()
				s.k.ParentFingerprint()
				s.k.IsForNet(netParams["mainnet"])
				s.k.IsForNet(netParams["testnet3"])
			case "address":
				if a, err := s.k.Address(netParams[s.net]); err == nil && a != nil {
					sa := a.ScriptAddress()
					for i := range sa {
						sa[i] = 0xee
					}
				}
			default:
				panic("unknown op " + op.Op)
			}
			if len(slots) > 4 {
				executable = false
				return
			}
		}
	})
	if p {
		fail("operation-panics", msg)
		return "", 0
	}
	if !executable {
		return "", 0
	}

	// ---- canonical state key (before observation, which memoises)
	var sb strings.Builder
	ptrID := map[unsafe.Pointer]int{}
	for i, s := range slots {
		fmt.Fprintf(&sb, "[%d %s net=%s z=%v", i, s.prov, s.net, s.zeroed)
		if f, ok := c15Fields(s.k); ok && !s.zeroed {
			for _, name := range []string{"key", "pubKey", "chainCode", "parentFP", "version"} {
				b := f[name]
				if len(b) == 0 {
					fmt.Fprintf(&sb, " %s=-", name)
					continue
				}
				p := unsafe.Pointer(unsafe.SliceData(b))
				id, seen := ptrID[p]
				if !seen {
					id = len(ptrID)
					ptrID[p] = id
				}
				fmt.Fprintf(&sb, " %s=#%d", name, id)
			}
			// every OTHER field of the struct, whatever it is called (a memo added by a change is
			// implementation state too: histories that differ in it must not be merged)
			v := reflect.ValueOf(s.k).Elem()
			for fi := 0; fi < v.NumField(); fi++ {
				name := v.Type().Field(fi).Name
				if _, known := f[name]; known {
					continue
				}
				fv := v.Field(fi)
				switch fv.Kind() {
				case reflect.Slice, reflect.Map:
					fmt.Fprintf(&sb, " %s=len%d/nil%v", name, fv.Len(), fv.IsNil())
				case reflect.Ptr, reflect.Interface, reflect.Func, reflect.Chan:
					fmt.Fprintf(&sb, " %s=nil%v", name, fv.IsNil())
				case reflect.Bool:
					fmt.Fprintf(&sb, " %s=%v", name, fv.Bool())
				case reflect.Int, reflect.Int8, reflect.Int16, reflect.Int32, reflect.Int64:
					fmt.Fprintf(&sb, " %s=%d", name, fv.Int())
				case reflect.Uint, reflect.Uint8, reflect.Uint16, reflect.Uint32, reflect.Uint64:
					fmt.Fprintf(&sb, " %s=%d", name, fv.Uint())
				default:
					fmt.Fprintf(&sb, " %s=zero%v", name, fv.IsZero())
				}
			}
		}
		sb.WriteString("]")
	}
	stateKey = sb.String()

	if !observe {
		return stateKey, len(slots)
	}
	// ---- observe every slot
	msg, p = mc.Guard(func() {
		for i, s := range slots {
			w.Eval()
			where := fmt.Sprintf("slot %d (%s)", i, s.prov)
			if s.zeroed {
				if got := s.k.String(); got != "zeroed extended key" {
					fail("zeroed-key-does-not-report-zeroed", where+": String() = "+got)
				}
				if pk, err := s.k.ECPrivKey(); err == nil && pk != nil {
					fail("zeroed-key-yields-private-key", where)
				}
				w.Outcome("zeroed key observed")
				continue
			}
			rn := refNet(s.net)
			if got, want := s.k.String(), s.x.String(rn); got != want {
				fail("live-key-serialisation-changed", fmt.Sprintf("%s: got %s want %s", where, got, want))
				continue
			}
			if s.k.IsPrivate() != s.x.Private || int(s.k.Depth()) != s.x.Depth {
				fail("live-key-fields-changed", where)
			}
			fp := s.k.ParentFingerprint()
			if fp != uint32(s.x.ParentFP[0])<<24|uint32(s.x.ParentFP[1])<<16|uint32(s.x.ParentFP[2])<<8|uint32(s.x.ParentFP[3]) {
				fail("live-key-fingerprint-changed", where)
			}
			cx, st, _ := c04RefChild(s.rkey, s.x, 0)
			ck, err := s.k.Child(0)
			if st == "ok" && (err != nil || ck.String() != cx.String(rn)) {
				fail("live-key-derivation-behaviour-changed", fmt.Sprintf("%s: Child(0) err=%v", where, err))
			}
			if s.x.Private {
				nk, err := s.k.Neuter()
				if err != nil || nk.String() != s.x.Neuter().String(rn) {
					fail("live-key-neutered-form-changed", where)
				}
				pk, err := s.k.ECPrivKey()
				if err != nil || pk.D.Cmp(s.x.K) != 0 {
					fail("live-key-private-scalar-changed", where)
				}
			}
			addr, err := s.k.Address(&chaincfg.MainNetParams)
			if err != nil || addr.EncodeAddress() != ref.CashEncode("bitcoincash", 0, ref.Hash160(s.x.P.Compressed())) {
				fail("live-key-address-changed", where)
			}
			w.Outcome("live key observed")
		}
	})
	if p {
		fail("observer-panics", msg)
	}
	c15GlobalsMu.Lock()
	if n := c15CheckGlobals(); n != "" {
		fail("global-network-version-table-modified", n)
		c15RestoreGlobals()
	}
	c15GlobalsMu.Unlock()
	return stateKey, len(slots)
}

var (
	c15ShortOnce sync.Once
	c15Short     [2]uint32
)

// c15ShortIdx: the first two hardened child indices of master A whose child scalar is < 2^248
// (reference-only scan; about one child in 256).
func c15ShortIdx() [2]uint32 {
	c15ShortOnce.Do(func() {
		m, _, _ := c04RefMaster(mc.UnHex(c15Seeds["A"]))
		n := 0
		for i := uint32(0); i < 1<<16 && n < 2; i++ {
			idx := i | 1<<31
			if k, _, ok := ref.HardenedChildScalar(m.K, m.ChainCode, idx); ok && k.BitLen() <= 248 {
				c15Short[n] = idx
				n++
			}
		}
		if n < 2 {
			panic("harness: no two short child scalars found")
		}
	})
	return c15Short
}

func c15Menu(nslots int, maxSlots int) []c15Op {
	var ops []c15Op
	if nslots < maxSlots {
		ops = append(ops, c15Op{Op: "master", Arg: "A/mainnet"}, c15Op{Op: "master", Arg: "B/testnet3"},
			c15Op{Op: "fromstring", Arg: "xprv"}, c15Op{Op: "fromstring", Arg: "xpub"}, c15Op{Op: "fromstring", Arg: "xpub-twin"}, c15Op{Op: "newext"})
	}
	for s := 0; s < nslots; s++ {
		if nslots < maxSlots {
			ops = append(ops, c15Op{Op: "child", Slot: s, Arg: "0"}, c15Op{Op: "child", Slot: s, Arg: "h"}, c15Op{Op: "neuter", Slot: s})
			// two hardened children of master A whose private scalars have a leading zero byte (the
			// derivation pads them): two live keys that both went through the padding code
			ops = append(ops, c15Op{Op: "child", Slot: s, Arg: "s1"}, c15Op{Op: "child", Slot: s, Arg: "s2"})
		}
		ops = append(ops, c15Op{Op: "setnet", Slot: s, Arg: "testnet3"}, c15Op{Op: "setnet", Slot: s, Arg: "mainnet"},
			c15Op{Op: "zero", Slot: s}, c15Op{Op: "string", Slot: s}, c15Op{Op: "ecpub", Slot: s}, c15Op{Op: "address", Slot: s},
			c15Op{Op: "ecpriv", Slot: s}, c15Op{Op: "getters", Slot: s})
	}
	return ops
}

func runC15(c *mc.Ctx) {
	c04SelfTest()
	depth := mc.Pick(c, 4, 5)
	maxSlots := mc.Pick(c, 3, 4)
	c.Rule(fmt.Sprintf("breadth-first search over all operation histories of depth <= %d on a pool of <= %d keys (menu: NewMaster x2, NewKeyFromString x3 (xprv, xpub and the xpub's parity twin), NewExtendedKey, Child(0|2^31|two hardened indices with a short child scalar), Neuter, SetNet x2, Zero, String, ECPubKey, ECPrivKey, Address, the cheap getters per slot); histories are merged only when the model state AND the implementation's buffer-sharing graph and memo flags (read by reflection) agree; every reached state is observed on all slots; non-trivial = states in which two live keys share a backing buffer or a key has been zeroed", depth, maxSlots))
	c.Assume("reference BIP32 model correct (vectors 1-3 reproduced)")
	c.Assume("operations applied to an already zeroed key are outside the statement and are not issued")

	type node struct{ h c15History }
	seen := map[string]bool{"": true}
	frontier := []c15History{{}}
	var mu sync.Mutex
	totalStates := int64(1)
	for d := 1; d <= depth; d++ {
		type item struct {
			h c15History
		}
		var items []c15History
		for _, h := range frontier {
			// slots in this state
			w := c.Worker()
			_, ns := c15Run(w, h, false)
			for _, op := range c15Menu(ns, maxSlots) {
				nh := c15History{Ops: append(append([]c15Op{}, h.Ops...), op)}
				items = append(items, nh)
			}
		}
		newStates := map[string]c15History{}
		c.ParFor(int64(len(items)), func(w *mc.W, i int64) {
			key, _ := c15Run(w, items[i], true)
			if key == "" {
				return
			}
			if strings.Contains(key, "z=true") || c15Shares(key) {
				w.Nontrivial(mc.HashString(key))
			}
			mu.Lock()
			if !seen[key] {
				if old, ok := newStates[key]; !ok || c15Less(items[i], old) {
					newStates[key] = items[i]
				}
			}
			mu.Unlock()
		})
		keys := make([]string, 0, len(newStates))
		for k := range newStates {
			keys = append(keys, k)
		}
		sort.Strings(keys)
		frontier = frontier[:0]
		for _, k := range keys {
			seen[k] = true
			frontier = append(frontier, newStates[k])
		}
		totalStates += int64(len(keys))
		c.Space(fmt.Sprintf("depth %d: histories executed", d), int64(len(items)))
		c.Note(fmt.Sprintf("new_states_at_depth_%d", d), len(keys))
		if len(keys) == 0 {
			c.Note("fixpoint_reached_at_depth", d)
			break
		}
	}
	// Long histories: the depth bound keeps every history under a handful of derivations, so anything
	// that changes with the NUMBER of derivations made in a process (a bounded cache that evicts, a
	// pool that recycles) is out of its reach.  Fixed histories with address scans of 300, 5000 (and
	// 70000 thorough) derivations from a hardened account key and from its public twin, with the
	// usual pool operations before and after; every pool key is observed at the end as always.
	{
		var longs []c15History
		for _, n := range mc.Pick(c, []string{"300", "5000"}, []string{"300", "5000", "70000"}) {
			base := []c15Op{{Op: "master", Arg: "A/mainnet"}, {Op: "child", Slot: 0, Arg: "h"}, {Op: "neuter", Slot: 1}}
			for _, tail := range [][]c15Op{
				{{Op: "scan", Slot: 1, Arg: n}},
				{{Op: "scan", Slot: 2, Arg: n}},
				{{Op: "scan", Slot: 1, Arg: n}, {Op: "scan", Slot: 2, Arg: n}},
				{{Op: "scan", Slot: 2, Arg: n}, {Op: "zero", Slot: 0}},
				{{Op: "child", Slot: 2, Arg: ""}, {Op: "scan", Slot: 1, Arg: n}, {Op: "zero", Slot: 1}},
				{{Op: "zero", Slot: 0}, {Op: "scan", Slot: 1, Arg: n}, {Op: "scan", Slot: 2, Arg: n}},
			} {
				longs = append(longs, c15History{Ops: append(append([]c15Op{}, base...), tail...)})
			}
		}
		// keys built by NewExtendedKey over sub-slices of shared caller buffers
		for _, tail := range [][]c15Op{
			{{Op: "child", Slot: 0, Arg: "0x01020304"}},
			{{Op: "child", Slot: 1, Arg: "7"}, {Op: "child", Slot: 0, Arg: "0x7fffffff"}},
			{{Op: "scan", Slot: 0, Arg: "40"}, {Op: "child", Slot: 1, Arg: "0"}},
			{{Op: "child", Slot: 0, Arg: "1"}, {Op: "zero", Slot: 0}},
			{{Op: "string", Slot: 0}, {Op: "ecpub", Slot: 0}, {Op: "address", Slot: 0}, {Op: "child", Slot: 0, Arg: "2"}},
		} {
			longs = append(longs, c15History{Ops: append([]c15Op{{Op: "newexttab"}}, tail...)})
		}
		c.Space("long histories: address scans of 300 / 5000 (70000) derivations around the pool operations; keys over sub-slices of shared caller buffers", int64(len(longs)))
		// one after the other: what counts is how many derivations the process has made
		w := c.Worker()
		for _, h := range longs {
			w.State()
			if key, _ := c15Run(w, h, true); key == "" {
				c.NotExhaustive("a long history was not executable")
			}
		}
		w.Done()
	}
	c.States.Add(totalStates)
	c.Sample("history", c15History{Ops: []c15Op{{Op: "master", Arg: "A/mainnet"}, {Op: "neuter", Slot: 0}, {Op: "zero", Slot: 0}}})
}

// c15Shares reports whether a buffer id occurs in two different slots of the state key.
func c15Shares(key string) bool {
	owner := map[string]int{}
	slot := -1
	for _, tok := range strings.Fields(key) {
		if strings.HasPrefix(tok, "[") {
			slot++
		}
		if i := strings.Index(tok, "=#"); i >= 0 && !strings.HasPrefix(tok, "version") {
			id := strings.TrimRight(tok[i+2:], "]")
			if o, ok := owner[id]; ok && o != slot {
				return true
			}
			owner[id] = slot
		}
	}
	return false
}

func c15Less(a, b c15History) bool {
	x, _ := json.Marshal(a)
	y, _ := json.Marshal(b)
	return string(x) < string(y)
}
