package props

import (
	"bytes"
	"encoding/hex"
	"fmt"

	"github.com/gcash/bchutil"

	"verif/mc"
	"verif/ref"
)

// C01, retained results: the string an address rendered to, and the payload it handed out, must
// still be that value after OTHER addresses were constructed, rendered and decoded (a renderer
// that returns a view of a reused buffer gives the right string and changes it later).  Every
// ordered sequence of <= 3 (4) addresses over an 8-address alphabet (all kinds, two networks,
// 20- and 32-byte payloads) is rendered in order, each string decoded back at once; at the end
// every kept string and payload is compared with the specification's value again.

type c01Batch struct {
	Seq []int `json:"address_sequence"` // indices into c01RetainAlphabet
}

var c01RetainAlphabet = []c01Case{
	{Net: "mainnet", Kind: "p2pkh", Data: "00112233445566778899aabbccddeeff00112233"},
	{Net: "mainnet", Kind: "p2sh32-hash", Data: "ffeeddccbbaa99887766554433221100ffeeddccbbaa99887766554433221100"},
	{Net: "testnet3", Kind: "p2sh-hash", Data: "a1a2a3a4a5a6a7a8a9aaabacadaeafb0b1b2b3b4"},
	{Net: "mainnet", Kind: "slp-p2pkh", Data: "0102030405060708090a0b0c0d0e0f1011121314"},
	{Net: "testnet3", Kind: "slp-p2sh32", Data: "c0c1c2c3c4c5c6c7c8c9cacbcccdcecfd0d1d2d3d4d5d6d7d8d9dadbdcdddedf"},
	{Net: "mainnet", Kind: "legacy-p2pkh", Data: "0000f1f2f3f4f5f6f7f8f9fafbfcfdfeff001122"},
	{Net: "testnet3", Kind: "legacy-p2sh-hash", Data: "5152535455565758595a5b5c5d5e5f6061626364"},
	{Net: "mainnet", Kind: "pubkey", Data: "0279be667ef9dcbbac55a06295ce870b07029bfcdb2dce28d959f2815b16f81798"},
}

func c01RetainBuild(cas c01Case) (addr bchutil.Address, want string, payload []byte, err error) {
	net, rn, data := netParams[cas.Net], refNet(cas.Net), mc.UnHex(cas.Data)
	switch cas.Kind {
	case "p2pkh":
		addr, err = bchutil.NewAddressPubKeyHash(data, net)
		want, payload = ref.CashEncode(rn.CashPrefix, 0, data), data
	case "p2sh-hash":
		addr, err = bchutil.NewAddressScriptHashFromHash(data, net)
		want, payload = ref.CashEncode(rn.CashPrefix, 1, data), data
	case "p2sh32-hash":
		addr, err = bchutil.NewAddressScriptHash32FromHash(data, net)
		want, payload = ref.CashEncode(rn.CashPrefix, 1, data), data
	case "slp-p2pkh":
		addr, err = bchutil.NewSlpAddressPubKeyHash(data, net)
		want, payload = ref.CashEncode(rn.SlpPrefix, 0, data), data
	case "slp-p2sh32":
		addr, err = bchutil.NewSlpAddressScriptHash32FromHash(data, net)
		want, payload = ref.CashEncode(rn.SlpPrefix, 1, data), data
	case "legacy-p2pkh":
		addr, err = bchutil.NewLegacyAddressPubKeyHash(data, net)
		want, payload = ref.B58CheckEncode(rn.P2PKHID, data), data
	case "legacy-p2sh-hash":
		addr, err = bchutil.NewLegacyAddressScriptHashFromHash(data, net)
		want, payload = ref.B58CheckEncode(rn.P2SHID, data), data
	case "pubkey":
		addr, err = bchutil.NewAddressPubKey(data, net)
		want, payload = hex.EncodeToString(data), data
	default:
		panic("c01 retain: unknown kind " + cas.Kind)
	}
	return
}

func c01EvalBatch(w *mc.W, cas c01Batch) {
	c := w.Ctx()
	w.Eval()
	type kept struct {
		k       int
		str     string
		payload []byte
		want    string
		wantPay []byte
		decoded bchutil.Address
	}
	var keep []kept
	msg, p := mc.Guard(func() {
		for _, k := range cas.Seq {
			a, want, pay, err := c01RetainBuild(c01RetainAlphabet[k])
			if err != nil || a == nil {
				c.Violate("address-constructor-fails/"+c01RetainAlphabet[k].Kind, "batch", cas, fmt.Sprint(err))
				return
			}
			s := a.String()
			kp := kept{k: k, str: s, payload: a.ScriptAddress(), want: want, wantPay: pay}
			if d, err := bchutil.DecodeAddress(s, netParams[c01RetainAlphabet[k].Net]); err == nil {
				kp.decoded = d
			}
			keep = append(keep, kp)
		}
	})
	if p {
		c.Violate("address-encode-panics", "batch", cas, msg)
		return
	}
	for i, kp := range keep {
		kind := c01RetainAlphabet[kp.k].Kind
		if kp.str != kp.want {
			c.Violate("string-kept-from-an-earlier-address-changed-or-wrong/"+kind, "batch", cas, fmt.Sprintf("address %d of the sequence: now %q, specification %q", i, kp.str, kp.want))
		}
		if !bytes.Equal(kp.payload, kp.wantPay) {
			c.Violate("payload-kept-from-an-earlier-address-changed-or-wrong/"+kind, "batch", cas, fmt.Sprintf("address %d: %x want %x", i, kp.payload, kp.wantPay))
		}
		if kp.decoded == nil {
			c.Violate("own-string-rejected-inside-a-sequence/"+kind, "batch", cas, fmt.Sprintf("address %d", i))
		} else if !bytes.Equal(kp.decoded.ScriptAddress(), kp.wantPay) || kp.decoded.String() != kp.want {
			c.Violate("address-decoded-earlier-changed/"+kind, "batch", cas, fmt.Sprintf("address %d: %q / %x", i, kp.decoded.String(), kp.decoded.ScriptAddress()))
		}
	}
	w.Outcome("sequence of addresses: every kept string and payload still as specified")
}

func runC01Retain(c *mc.Ctx) {
	n := len(c01RetainAlphabet)
	var cases []c01Batch
	for l := 2; l <= mc.Pick(c, 3, 4); l++ {
		for i := int64(0); i < ipow(n, l); i++ {
			seq := make([]int, l)
			x := i
			for j := l - 1; j >= 0; j-- {
				seq[j] = int(x % int64(n))
				x /= int64(n)
			}
			cases = append(cases, c01Batch{Seq: seq})
		}
	}
	c.Space("ordered sequences of 2..3(4) addresses over an 8-address alphabet, every string and payload kept and re-examined at the end", int64(len(cases)))
	w := c.Worker() // sequentially: the point is what one call leaves behind for the next
	for _, cs := range cases {
		w.State()
		c01EvalBatch(w, cs)
	}
	w.Done()
	c.Sample("batch", cases[len(cases)/3])
}
