package props

import (
	"bytes"
	"encoding/hex"
	"fmt"

	"github.com/gcash/bchutil"

	"verif/mc"
	"verif/ref"
)

// C01, retained results: the string an address rendered to, and the payload it handed out, must
// still be that value after OTHER addresses were constructed, rendered and decoded (a renderer
// that returns a view of a reused buffer gives the right string and changes it later).  Every
// ordered sequence of <= 3 (4) addresses over an 8-address alphabet (all kinds, two networks,
// 20- and 32-byte payloads) is rendered in order, each string decoded back at once; at the end
// every kept string and payload is compared with the specification's value again.

type c01Batch struct {
	Seq []int `json:"address_sequence"` // indices into c01RetainAlphabet
}

var c01RetainAlphabet = []c01Case{
	{Net: "mainnet", Kind: "p2pkh", Data: "00112233445566778899aabbccddeeff00112233"},
	{Net: "mainnet", Kind: "p2sh32-hash", Data: "ffeeddccbbaa99887766554433221100ffeeddccbbaa99887766554433221100"},
	{Net: "testnet3", Kind: "p2sh-hash", Data: "a1a2a3a4a5a6a7a8a9aaabacadaeafb0b1b2b3b4"},
	{Net: "mainnet", Kind: "slp-p2pkh", Data: "0102030405060708090a0b0c0d0e0f1011121314"},
	{Net: "testnet3", Kind: "slp-p2sh32", Data: "c0c1c2c3c4c5c6c7c8c9cacbcccdcecfd0d1d2d3d4d5d6d7d8d9dadbdcdddedf"},
	{Net: "mainnet", Kind: "legacy-p2pkh", Data: "0000f1f2f3f4f5f6f7f8f9fafbfcfdfeff001122"},
	{Net: "testnet3", Kind: "legacy-p2sh-hash", Data: "5152535455565758595a5b5c5d5e5f6061626364"},
	{Net: "mainnet", Kind: "pubkey", Data: "0279be667ef9dcbbac55a06295ce870b07029bfcdb2dce28d959f2815b16f81798"},
}

func c01RetainBuild(cas c01Case) (addr bchutil.Address, want string, payload []byte, err error) {
	net, rn, data := netParams[cas.Net], refNet(cas.Net), mc.UnHex(cas.Data)
	switch cas.Kind {
	case "p2pkh":
		addr, err = bchutil.NewAddressPubKeyHash(data, net)
		want, payload = ref.CashEncode(rn.CashPrefix, 0, data), data
	case "p2sh-hash":
		addr, err = bchutil.NewAddressScriptHashFromHash(data, net)
		want, payload = ref.CashEncode(rn.CashPrefix, 1, data), data
	case "p2sh32-hash":
		addr, err = bchutil.NewAddressScriptHash32FromHash(data, net)
		want, payload = ref.CashEncode(rn.CashPrefix, 1, data), data
	case "slp-p2pkh":
		addr, err = bchutil.NewSlpAddressPubKeyHash(data, net)
		want, payload = ref.CashEncode(rn.SlpPrefix, 0, data), data
	case "slp-p2sh32":
		addr, err = bchutil.NewSlpAddressScriptHash32FromHash(data, net)
		want, payload = ref.CashEncode(rn.SlpPrefix, 1, data), data
	case "legacy-p2pkh":
		addr, err = bchutil.NewLegacyAddressPubKeyHash(data, net)
		want, payload = ref.B58CheckEncode(rn.P2PKHID, data), data
	case "legacy-p2sh-hash":
		addr, err = bchutil.NewLegacyAddressScriptHashFromHash(data, net)
		want, payload = ref.B58CheckEncode(rn.P2SHID, data), data
	case "pubkey":
		addr, err = bchutil.NewAddressPubKey(data, net)
		want, payload = hex.EncodeToString(data), data
	default:
		panic("c01 retain: unknown kind " + cas.Kind)
	}
	return
}

func c01EvalBatch(w *mc.W, cas c01Batch) {
	c := w.Ctx()
	w.Eval()
	type kept struct {
		k       int
		str     string
		payload []byte
		want    string
		wantPay []byte
		decoded bchutil.Address
	}
	var keep []kept
	msg, p := mc.Guard(func() {
		for _, k := range cas.Seq {
			a, want, pay, err := c01RetainBuild(c01RetainAlphabet[k])
			if err != nil || a == nil {
				c.Violate("address-constructor-fails/"+c01RetainAlphabet[k].Kind, "batch", cas, fmt.Sprint(err))
				return
			}
			s := a.String()
			kp := kept{k: k, str: s, payload: a.ScriptAddress(), want: want, wantPay: pay}
			if d, err := bchutil.DecodeAddress(s, netParams[c01RetainAlphabet[k].Net]); err == nil {
				kp.decoded = d
			}
			keep = append(keep, kp)
		}
	})
	if p {
		c.Violate("address-encode-panics", "batch", cas, msg)
		return
	}
	for i, kp := range keep {
		kind := c01RetainAlphabet[kp.k].Kind
		if kp.str != kp.want {
			c.Violate("string-kept-from-an-earlier-address-changed-or-wrong/"+kind, "batch", cas, fmt.Sprintf("address %d of the sequence: now %q, specification %q", i, kp.str, kp.want))
		}
		if !bytes.Equal(kp.payload, kp.wantPay) {
			c.Violate("payload-kept-from-an-earlier-address-changed-or-wrong/"+kind, "batch", cas, fmt.Sprintf("address %d: %x want %x", i, kp.payload, kp.wantPay))
		}
		if kp.decoded == nil {
			c.Violate("own-string-rejected-inside-a-sequence/"+kind, "batch", cas, fmt.Sprintf("address %d", i))
		} else if !bytes.Equal(kp.decoded.ScriptAddress(), kp.wantPay) || kp.decoded.String() != kp.want {
			c.Violate("address-decoded-earlier-changed/"+kind, "batch", cas, fmt.Sprintf("address %d: %q / %x", i, kp.decoded.String(), kp.decoded.ScriptAddress()))
		}
	}
	w.Outcome("sequence of addresses: every kept string and payload still as specified")
}

func runC01Retain(c *mc.Ctx) {
	n := len(c01RetainAlphabet)
	var cases []c01Batch
	for l := 2; l <= mc.Pick(c, 3, 4); l++ {
		for i := int64(0); i < ipow(n, l); i++ {
			seq := make([]int, l)
			x := i
			for j := l - 1; j >= 0; j-- {
				seq[j] = int(x % int64(n))
				x /= int64(n)
			}
			cases = append(cases, c01Batch{Seq: seq})
		}
	}
	c.Space("ordered sequences of 2..3(4) addresses over an 8-address alphabet, every string and payload kept and re-examined at the end", int64(len(cases)))
	w := c.Worker() // sequentially: the point is what one call leaves behind for the next
	for _, cs := range cases {
		w.State()
		c01EvalBatch(w, cs)
	}
	w.Done()
	c.Sample("batch", cases[len(cases)/3])
}

// Reused script buffers: the script-hashing constructors are called several times on ONE buffer whose
// content is changed in place between the calls (what a wallet iterating over script templates does).
// Each address must carry the hash of the content the buffer had at the time of its call: a hasher
// that remembers its last input by reference compares the buffer with itself and returns the old digest.
type c01Reuse struct {
	Len   int      `json:"script_len"`
	Calls []string `json:"constructors"` // p2sh | p2sh32 | legacy | hash160 | hash256, one per step
}

func c01EvalReuse(w *mc.W, cas c01Reuse) {
	c := w.Ctx()
	w.Eval()
	buf := make([]byte, cas.Len)
	for i := range buf {
		buf[i] = byte(i*7 + 1)
	}
	net := netParams["mainnet"]
	for step, kind := range cas.Calls {
		if cas.Len > 0 {
			buf[(step*37+cas.Len/2)%cas.Len] ^= byte(step + 1) // change one byte in place
		}
		var got, want []byte
		msg, p := mc.Guard(func() {
			switch kind {
			case "p2sh":
				a, err := bchutil.NewAddressScriptHash(buf, net)
				if err == nil {
					got = a.ScriptAddress()
				}
				want = hash160(buf)
			case "p2sh32":
				a, err := bchutil.NewAddressScriptHash32(buf, net)
				if err == nil {
					got = a.ScriptAddress()
				}
				want = hash256(buf)
			case "legacy":
				a, err := bchutil.NewLegacyAddressScriptHash(buf, net)
				if err == nil {
					got = a.ScriptAddress()
				}
				want = hash160(buf)
			case "hash160":
				got, want = bchutil.Hash160(buf), hash160(buf)
			case "hash256":
				got, want = bchutil.Hash256(buf), hash256(buf)
			default:
				panic("c01 reuse: unknown call " + kind)
			}
		})
		if p {
			c.Violate("address-constructor-panics", "reuse", cas, msg)
			return
		}
		if !bytes.Equal(got, want) {
			c.Violate("script-hash-of-a-reused-buffer-is-stale-or-wrong/"+kind, "reuse", cas, fmt.Sprintf("step %d: payload %x, hash of the buffer's current content %x", step, got, want))
			return
		}
	}
	w.Outcome("reused script buffer: every address carries the hash of the content at its call")
}

func runC01Reuse(c *mc.Ctx) {
	kinds := []string{"p2sh", "p2sh32", "legacy", "hash160", "hash256"}
	var cases []c01Reuse
	for _, L := range []int{0, 1, 55, 56, 63, 64, 65, 119, 120, 127, 128, 129, 200, 600, 65536, 70000} {
		for a := range kinds {
			for b := range kinds {
				cases = append(cases, c01Reuse{Len: L, Calls: []string{kinds[a], kinds[b]}})
				for d := range kinds {
					cases = append(cases, c01Reuse{Len: L, Calls: []string{kinds[a], kinds[b], kinds[d]}})
				}
			}
		}
	}
	c.Space("script-hashing calls on one buffer changed in place between them: 16 lengths (incl. the SHA-256 block boundaries) x every sequence of 2..3 calls over 5 entry points", int64(len(cases)))
	w := c.Worker()
	for _, cs := range cases {
		w.State()
		c01EvalReuse(w, cs)
	}
	w.Done()
	c.Sample("reuse", cases[len(cases)/2])
}
