package props

import (
	"bytes"
	"encoding/hex"
	"encoding/json"
	"fmt"
	"math/big"
	"reflect"
	"strings"

	"github.com/gcash/bchutil"

	"verif/mc"
	"verif/ref"
)

// C01 — every constructible address survives encode -> decode unchanged.

func init() {
	register(&Prop{ID: "C01", Run: runC01, Replay: map[string]func(*mc.Ctx, json.RawMessage){
		"addr":  replayer(c01Eval),
		"batch": replayer(c01EvalBatch),
		"reuse": replayer(c01EvalReuse),
	}})
}

type c01Case struct {
	Net  string `json:"net"`
	Kind string `json:"kind"`
	Data string `json:"data_hex"` // hash, script or serialized public key
}

var c01Kinds = []string{"p2pkh", "p2sh-hash", "p2sh-script", "p2sh32-hash", "p2sh32-script",
	"slp-p2pkh", "slp-p2sh", "slp-p2sh32", "legacy-p2pkh", "legacy-p2sh-hash", "legacy-p2sh-script", "pubkey"}

func c01Eval(w *mc.W, cas c01Case) {
	c := w.Ctx()
	net := netParams[cas.Net]
	rn := refNet(cas.Net)
	data := mc.UnHex(cas.Data)
	w.Eval()
	fail := func(class, detail string) { c.Violate(class, "addr", cas, detail) }

	var addr bchutil.Address
	var err error
	var wantStr string // what the specification prescribes for EncodeAddress (String for pubkeys)
	var wantScript []byte
	cash, slp, legacy, pub := false, false, false, false
	prefix := rn.CashPrefix
	msg, p := mc.Guard(func() {
		switch cas.Kind {
		case "p2pkh":
			addr, err = bchutil.NewAddressPubKeyHash(data, net)
			wantStr, wantScript, cash = ref.CashEncode(prefix, 0, data), data, true
		case "p2sh-hash":
			addr, err = bchutil.NewAddressScriptHashFromHash(data, net)
			wantStr, wantScript, cash = ref.CashEncode(prefix, 1, data), data, true
		case "p2sh-script":
			addr, err = bchutil.NewAddressScriptHash(data, net)
			h := hash160(data)
			wantStr, wantScript, cash = ref.CashEncode(prefix, 1, h), h, true
		case "p2sh32-hash":
			addr, err = bchutil.NewAddressScriptHash32FromHash(data, net)
			wantStr, wantScript, cash = ref.CashEncode(prefix, 1, data), data, true
		case "p2sh32-script":
			addr, err = bchutil.NewAddressScriptHash32(data, net)
			h := hash256(data)
			wantStr, wantScript, cash = ref.CashEncode(prefix, 1, h), h, true
		case "slp-p2pkh":
			prefix = rn.SlpPrefix
			addr, err = bchutil.NewSlpAddressPubKeyHash(data, net)
			wantStr, wantScript, slp = ref.CashEncode(prefix, 0, data), data, true
		case "slp-p2sh":
			prefix = rn.SlpPrefix
			addr, err = bchutil.NewSlpAddressScriptHashFromHash(data, net)
			wantStr, wantScript, slp = ref.CashEncode(prefix, 1, data), data, true
		case "slp-p2sh32":
			prefix = rn.SlpPrefix
			addr, err = bchutil.NewSlpAddressScriptHash32FromHash(data, net)
			wantStr, wantScript, slp = ref.CashEncode(prefix, 1, data), data, true
		case "legacy-p2pkh":
			addr, err = bchutil.NewLegacyAddressPubKeyHash(data, net)
			wantStr, wantScript, legacy = ref.B58CheckEncode(rn.P2PKHID, data), data, true
		case "legacy-p2sh-hash":
			addr, err = bchutil.NewLegacyAddressScriptHashFromHash(data, net)
			wantStr, wantScript, legacy = ref.B58CheckEncode(rn.P2SHID, data), data, true
		case "legacy-p2sh-script":
			addr, err = bchutil.NewLegacyAddressScriptHash(data, net)
			h := hash160(data)
			wantStr, wantScript, legacy = ref.B58CheckEncode(rn.P2SHID, h), h, true
		case "pubkey":
			addr, err = bchutil.NewAddressPubKey(data, net)
			wantStr, wantScript, pub = hex.EncodeToString(data), data, true
		default:
			panic("unknown kind " + cas.Kind)
		}
	})
	if p {
		fail("address-constructor-panics", msg)
		return
	}
	if err != nil || addr == nil || reflect.ValueOf(addr).IsNil() {
		fail("address-constructor-fails/"+cas.Kind, fmt.Sprint(err))
		return
	}
	var enc, str string
	if msg, p := mc.Guard(func() { enc = addr.EncodeAddress(); str = addr.String() }); p {
		fail("address-encode-panics", msg)
		return
	}
	form := enc
	if pub {
		form = str
		if want := ref.B58CheckEncode(rn.P2PKHID, hash160(data)); enc != want {
			fail("pubkey-address-differs-from-spec", fmt.Sprintf("EncodeAddress=%q want %q", enc, want))
		}
		// the other route to the key's P2PKH address: AddressPubKeyHash() must give the address of
		// the key's hash ON THE KEY'S NETWORK, exactly like the direct constructor does
		if pk, ok := addr.(*bchutil.AddressPubKey); ok {
			var pkh *bchutil.AddressPubKeyHash
			if msg, p := mc.Guard(func() { pkh = pk.AddressPubKeyHash() }); p || pkh == nil {
				fail("pubkey-to-p2pkh-conversion-panics", msg)
			} else {
				want := ref.CashEncode(rn.CashPrefix, 0, hash160(data))
				if got := pkh.EncodeAddress(); got != want {
					fail("pubkey-to-p2pkh-conversion-differs-from-direct-construction", fmt.Sprintf("AddressPubKeyHash().EncodeAddress()=%q, the P2PKH address of this key on %s is %q", got, cas.Net, want))
				} else if d, err := bchutil.DecodeAddress(got, net); err != nil || !bytes.Equal(d.ScriptAddress(), hash160(data)) {
					fail("pubkey-to-p2pkh-conversion-does-not-decode-on-its-network", fmt.Sprint(err))
				}
				if pkh.EncodeAddress() == want && !pkh.IsForNet(net) {
					fail("pubkey-to-p2pkh-conversion-not-for-its-net", cas.Net)
				}
			}
		}
	}
	if !bytes.Equal(addr.ScriptAddress(), wantScript) {
		fail("constructor-script-payload-wrong/"+cas.Kind, fmt.Sprintf("ScriptAddress=%x want %x", addr.ScriptAddress(), wantScript))
	}
	specOK := true
	if form != wantStr {
		specOK = false
		fail("encoded-string-differs-from-spec/"+cas.Kind, fmt.Sprintf("got %q want %q", form, wantStr))
	}
	if !pub && str != enc {
		fail("String-differs-from-EncodeAddress/"+cas.Kind, fmt.Sprintf("%q vs %q", str, enc))
	}
	if (cash || legacy || pub) && !addr.IsForNet(net) {
		fail("constructed-address-not-for-its-net/"+cas.Kind, "")
	}

	var renderings []string
	switch {
	case cash || slp:
		renderings = []string{form, strings.ToUpper(form), prefix + ":" + form, strings.ToUpper(prefix + ":" + form)}
	case legacy:
		renderings = []string{form}
	case pub:
		renderings = []string{form, strings.ToUpper(form)}
	}
	for ri, r := range renderings {
		var got bchutil.Address
		var derr error
		if msg, p := mc.Guard(func() { got, derr = bchutil.DecodeAddress(r, net) }); p {
			fail("decode-panics/"+cas.Kind, fmt.Sprintf("rendering %q: %s", r, msg))
			return
		}
		w.Trans()
		if derr != nil {
			w.Outcome("decode failed: " + cas.Kind)
			fail("roundtrip-decode-fails/"+cas.Kind, fmt.Sprintf("rendering %d %q: %v", ri, r, derr))
			continue
		}
		if reflect.TypeOf(got) != reflect.TypeOf(addr) {
			fail("roundtrip-kind-changes/"+cas.Kind, fmt.Sprintf("rendering %d %q decoded as %T, constructed %T", ri, r, got, addr))
			continue
		}
		if !bytes.Equal(got.ScriptAddress(), wantScript) {
			fail("roundtrip-payload-changes/"+cas.Kind, fmt.Sprintf("rendering %d %q: %x want %x", ri, r, got.ScriptAddress(), wantScript))
		}
		re := got.EncodeAddress()
		if pub {
			re = got.String()
		}
		if re != form {
			fail("roundtrip-reencode-differs/"+cas.Kind, fmt.Sprintf("rendering %d %q re-encodes to %q, original %q", ri, r, re, form))
		}
		if (cash || legacy || pub) && !got.IsForNet(net) {
			fail("decoded-address-not-for-net/"+cas.Kind, fmt.Sprintf("rendering %d %q", ri, r))
		}
	}
	// addresses obtained from other addresses are constructible addresses too: SLP <-> cash conversion
	// and a public key switched to another serialisation format must round-trip the same way
	if slp || cash {
		if _, is32 := addr.(*bchutil.AddressScriptHash32); !is32 {
			var conv bchutil.Address
			var cerr error
			if msg, p := mc.Guard(func() {
				if slp {
					conv, cerr = bchutil.ConvertSlpToCashAddress(addr, net)
				} else if rn.SlpPrefix != "" {
					conv, cerr = bchutil.ConvertCashToSlpAddress(addr, net)
				}
			}); p {
				fail("address-conversion-panics/"+cas.Kind, msg)
			} else if conv != nil || cerr != nil {
				wantPrefix := rn.CashPrefix
				if cash {
					wantPrefix = rn.SlpPrefix
				}
				typ := 0
				if _, ok := addr.(*bchutil.AddressScriptHash); ok {
					typ = 1
				}
				want := ref.CashEncode(wantPrefix, typ, wantScript)
				if cerr != nil || conv.EncodeAddress() != want {
					fail("converted-address-differs-from-spec/"+cas.Kind, fmt.Sprintf("got %v %v want %q", conv, cerr, want))
				} else if got, derr := bchutil.DecodeAddress(wantPrefix+":"+want, net); derr != nil || got.EncodeAddress() != want || !bytes.Equal(got.ScriptAddress(), wantScript) {
					fail("converted-address-does-not-round-trip/"+cas.Kind, fmt.Sprint(derr))
				}
			}
		}
	}
	if pk, ok := addr.(*bchutil.AddressPubKey); ok {
		pt, okp := refPointOf(data)
		if okp {
			for _, f := range []bchutil.PubKeyFormat{bchutil.PKFUncompressed, bchutil.PKFCompressed, bchutil.PKFHybrid} {
				pk.SetFormat(f)
				wantSer := map[bchutil.PubKeyFormat][]byte{bchutil.PKFUncompressed: pt.Uncompressed(), bchutil.PKFCompressed: pt.Compressed(), bchutil.PKFHybrid: pt.Hybrid()}[f]
				if !bytes.Equal(pk.ScriptAddress(), wantSer) || pk.String() != hex.EncodeToString(wantSer) {
					fail("pubkey-setformat-serialisation-wrong", fmt.Sprintf("format %d: %x", f, pk.ScriptAddress()))
					continue
				}
				if got, derr := bchutil.DecodeAddress(pk.String(), net); derr != nil || got.String() != pk.String() || !bytes.Equal(got.ScriptAddress(), wantSer) {
					fail("pubkey-setformat-does-not-round-trip", fmt.Sprintf("format %d: %v", f, derr))
				}
			}
		}
	}
	if specOK {
		w.Outcome("ok: " + cas.Kind)
	}
	// non-trivial: payloads whose 5-bit packing has a leading zero byte, high bit, or pad bits set
	if len(data) > 0 && (data[0] == 0 || data[len(data)-1]&1 == 1) {
		w.Nontrivial(mc.HashString(cas.Kind, cas.Data))
	}
}

func runC01(c *mc.Ctx) {
	c.Rule("every (net, kind, payload) of the enumerated families is constructed, encoded, compared with the reference CashAddr/Base58Check encoder and decoded back from every rendering (lower, UPPER, prefix:lower, PREFIX:UPPER); non-trivial = payloads with a leading zero byte or a set lowest bit (exercise padding/leading-zero paths)")
	c.Assume("hash values outside the structured families (fills, walking bits, leading/trailing zero runs, two-bit patterns on thorough) behave alike: the encoder is data-independent except through 5-bit packing and leading zeros")
	c.Assume("SHA-256, RIPEMD-160 from the Go standard/x libraries are trusted")
	runC01Retain(c)
	runC01Reuse(c)

	h160 := hashFamily(20, c.Thorough())
	h256 := hashFamily(32, c.Thorough())
	// hashes whose LEGACY string lies entirely inside a character class (no lower-case letter, only
	// CashAddr symbols, only hex digits, ...), constructed per version byte: see classhash.go
	{
		found := map[string]int{}
		for _, ch := range classHashes() {
			h160 = append(h160, ch.Hash)
			found[ch.Class]++
		}
		// ... and hashes whose bare CashAddr string is ALSO valid Base58Check (fixtures found by tools/dualformat)
		h160 = append(h160, dualFormatHashes()...)
		c.Note("dual_format_strings", len(dualFormatFixtures))
		c.Note("legacy_strings_inside_a_character_class", found)
		if len(found) < 4 {
			c.NotExhaustive("the search for legacy strings inside character classes found fewer than four classes")
		}
	}
	var scripts [][]byte
	scripts = append(scripts, []byte{})
	for i := 0; i < 256; i++ {
		scripts = append(scripts, []byte{byte(i)})
	}
	if c.Thorough() {
		for i := 0; i < 65536; i++ {
			scripts = append(scripts, []byte{byte(i >> 8), byte(i)})
		}
	}
	for _, s := range []string{"76a914000000000000000000000000000000000000000088ac", "5121", "6a", "00", "51", "a914" + strings.Repeat("11", 20) + "87",
		strings.Repeat("ac", 520), strings.Repeat("00", 75), "4c00", "ff", "6a0401020304", "5221" + strings.Repeat("02", 33) + "51ae"} {
		scripts = append(scripts, mc.UnHex(s))
	}
	for _, L := range []int{75, 76, 255, 256, 257, 520, 521, 65535, 65536, 65537} { // length ladder
		b := make([]byte, L)
		for i := range b {
			b[i] = byte(i*31 + L)
		}
		scripts = append(scripts, b)
	}
	var pubs [][]byte
	for _, tp := range testPoints() {
		pubs = append(pubs, tp.P.Compressed(), tp.P.Uncompressed(), tp.P.Hybrid())
	}

	var cases []c01Case
	for _, n := range ref.Nets {
		for _, k := range c01Kinds {
			if strings.HasPrefix(k, "slp-") && n.SlpPrefix == "" {
				continue
			}
			var datas [][]byte
			switch k {
			case "p2pkh", "p2sh-hash", "slp-p2pkh", "slp-p2sh", "legacy-p2pkh", "legacy-p2sh-hash":
				datas = h160
			case "p2sh32-hash", "slp-p2sh32":
				datas = h256
			case "p2sh-script", "p2sh32-script", "legacy-p2sh-script":
				datas = scripts
			case "pubkey":
				datas = pubs
			}
			for _, d := range datas {
				cases = append(cases, c01Case{Net: n.Name, Kind: k, Data: mc.Hex(d)})
			}
		}
	}
	c.Space("(net, kind, payload) triples", int64(len(cases)))
	c.Note("hash160_family", len(h160))
	c.Note("hash256_family", len(h256))
	c.Note("scripts", len(scripts))
	c.Note("pubkey_serialisations", len(pubs))
	c.ParFor(int64(len(cases)), func(w *mc.W, i int64) {
		w.State()
		c01Eval(w, cases[i])
	})
	c.Sample("addr", cases[0])
	c.Sample("addr", cases[len(cases)-1])
	// every (net, kind) once as the FIRST library call of a process of its own (tables filled on first
	// use, prefixes registered lazily: which kind and which net comes first must not matter)
	{
		var first []any
		seenNK := map[string]bool{}
		for i := len(cases) - 1; i >= 0; i-- {
			if k := cases[i].Net + "/" + cases[i].Kind; !seenNK[k] {
				seenNK[k] = true
				first = append(first, cases[i])
			}
		}
		c.Space("(net, kind) pairs, each as the first library call of a fresh process", int64(len(first)))
		c.FreshAll("addr", first)
	}
}

// refPointOf parses a serialized public key of any of the three formats with the reference curve code.
func refPointOf(b []byte) (ref.Point, bool) {
	switch {
	case len(b) == 33:
		return ref.SecParseCompressed(b)
	case len(b) == 65:
		x, y := new(big.Int).SetBytes(b[1:33]), new(big.Int).SetBytes(b[33:])
		if !ref.SecOnCurve(x, y) {
			return ref.Point{}, false
		}
		return ref.Point{X: x, Y: y}, true
	}
	return ref.Point{}, false
}
