package props

import (
	"bytes"
	"encoding/json"
	"fmt"
	"strings"
	"sync"

	"github.com/gcash/bchd/chaincfg/chainhash"
	"github.com/gcash/bchd/wire"
	"github.com/gcash/bchutil"
	"github.com/gcash/bchutil/bloom"
	"github.com/gcash/bchutil/merkleblock"

	"verif/mc"
	"verif/ref"
)

// C11 — built merkle proofs verify and reveal exactly the chosen set.

func init() {
	register(&Prop{ID: "C11", Run: runC11, Procs: true, Replay: map[string]func(*mc.Ctx, json.RawMessage){
		"subset":  replayer(c11Eval),
		"graph":   replayer(c11EvalGraph),
		"virtual": replayer(c11EvalVirtual),
	}})
}

type c11Case struct {
	N      int    `json:"n"`
	Subset string `json:"subset"` // one character per transaction: '1' chosen, '0' not
	// Twins: the block contains two transactions (positions 3 and N-2) whose identifiers agree in their
	// first four bytes ("head4"), their last four bytes ("tail4"), the first two and last two
	// ("ends2") - found by varying a lock time - or their first / last six bytes ("head6", "tail6").  Anything that files hashes under part of their
	// bytes (an index for large requested sets, a map keyed by a prefix) confuses exactly these.
	Twins string `json:"txid_twins,omitempty"`
}

var c11TwinBlocks sync.Map

// lock-time pairs whose transactions' identifiers agree in their first / last SIX bytes
var c11TwinFixtures = map[string][2]uint32{"head6": {5988132, 6781120}, "tail6": {8103948, 41879600}}

func c11TwinBlock(n int, kind string) *c11Block {
	key := fmt.Sprintf("%s/%d", kind, n)
	if v, ok := c11TwinBlocks.Load(key); ok {
		return v.(*c11Block)
	}
	base := c11GetBlock(n)
	blk := wire.NewMsgBlock(&base.msg.Header)
	part := func(h chainhash.Hash) uint32 {
		switch kind {
		case "head4":
			return uint32(h[0])<<24 | uint32(h[1])<<16 | uint32(h[2])<<8 | uint32(h[3])
		case "tail4":
			return uint32(h[28])<<24 | uint32(h[29])<<16 | uint32(h[30])<<8 | uint32(h[31])
		}
		return uint32(h[0])<<24 | uint32(h[1])<<16 | uint32(h[30])<<8 | uint32(h[31])
	}
	// birthday search over lock times of one transaction shape
	seen := map[uint32]uint32{}
	var lt1, lt2 uint32
	mk := func(lt uint32) *wire.MsgTx {
		tx := wire.NewMsgTx(1)
		o := wire.OutPoint{Hash: chainhash.Hash{0x7a, 0x7b}, Index: lt}
		tx.AddTxIn(wire.NewTxIn(&o, []byte{0x51}))
		tx.AddTxOut(wire.NewTxOut(9, []byte{0x51}, wire.TokenData{}))
		tx.LockTime = lt
		return tx
	}
	if fx, ok := c11TwinFixtures[kind]; ok {
		// six agreeing bytes take 2^24 identifiers to find: found once by tools/txidtwins, re-verified here
		a, b := mk(fx[0]).TxHash(), mk(fx[1]).TxHash()
		if a == b || (kind == "head6" && !bytes.Equal(a[:6], b[:6])) || (kind == "tail6" && !bytes.Equal(a[26:], b[26:])) {
			panic("c11: the hard-wired txid twins of kind " + kind + " are not twins")
		}
		lt1, lt2 = fx[0], fx[1]
	}
	for lt := uint32(1); lt2 == 0 && lt < 3000000; lt++ {
		p := part(mk(lt).TxHash())
		if o, ok := seen[p]; ok {
			lt1, lt2 = o, lt
			break
		}
		seen[p] = lt
	}
	if lt2 == 0 {
		panic("c11: no txid twins found")
	}
	b := &c11Block{msg: blk}
	for i, tx := range base.msg.Transactions {
		switch i {
		case 3:
			tx = mk(lt1)
		case n - 2:
			tx = mk(lt2)
		}
		blk.AddTransaction(tx)
		b.ids = append(b.ids, ref.Hash32(tx.TxHash()))
	}
	b.root = ref.MerkleRoot(b.ids)
	blk.Header.MerkleRoot = chainhash.Hash(b.root)
	c11TwinBlocks.Store(key, b)
	return b
}

type c11Block struct {
	msg  *wire.MsgBlock
	ids  []ref.Hash32
	root ref.Hash32
}

var c11Blocks sync.Map

func c11GetBlock(n int) *c11Block {
	if v, ok := c11Blocks.Load(n); ok {
		return v.(*c11Block)
	}
	blk := wire.NewMsgBlock(fixedHeader(2, &chainhash.Hash{1}, &chainhash.Hash{2}, 0x1d00ffff, 99))
	b := &c11Block{msg: blk}
	for i := 0; i < n; i++ {
		tx := wire.NewMsgTx(1)
		o := wire.OutPoint{Hash: chainhash.Hash{byte(i), byte(i >> 8), 0x77}, Index: uint32(i)}
		tx.AddTxIn(wire.NewTxIn(&o, []byte{0x51}))
		tx.AddTxOut(wire.NewTxOut(int64(i)+1, []byte{0x76, 0xa9, 0x14, 9, 9, 9, 9, 9, 9, 9, 9, 9, 9, 9, 9, 9, 9, 9, 9, 9, 9, 9, 9, 0x88, 0xac}, wire.TokenData{}))
		tx.LockTime = uint32(i)
		blk.AddTransaction(tx)
		b.ids = append(b.ids, ref.Hash32(tx.TxHash()))
	}
	b.root = ref.MerkleRoot(b.ids)
	blk.Header.MerkleRoot = chainhash.Hash(b.root)
	c11Blocks.Store(n, b)
	return b
}

func c11EvalMsg(w *mc.W, cas c11Case, builder string, msg *wire.MsgMerkleBlock, indices []uint32, matched []bool, b *c11Block) {
	c := w.Ctx()
	fail := func(class, detail string) { c.Violate(class+"/"+builder, "subset", cas, detail) }
	w.Eval()
	wantHashes, wantFlags := ref.PMTBuild(b.ids, matched)
	if msg.Transactions != uint32(cas.N) {
		fail("message-transaction-count-wrong", fmt.Sprint(msg.Transactions))
	}
	if msg.Header != b.msg.Header {
		fail("message-header-not-copied", "")
	}
	if !bytes.Equal(msg.Flags, wantFlags) {
		fail("flag-bytes-differ-from-canonical-tree", fmt.Sprintf("got %x want %x", msg.Flags, wantFlags))
	}
	if len(msg.Hashes) != len(wantHashes) {
		fail("hash-list-differs-from-canonical-tree", fmt.Sprintf("got %d hashes want %d", len(msg.Hashes), len(wantHashes)))
	} else {
		for i := range wantHashes {
			if msg.Hashes[i] == nil || ref.Hash32(*msg.Hashes[i]) != wantHashes[i] {
				fail("hash-list-differs-from-canonical-tree", fmt.Sprintf("hash %d", i))
				break
			}
		}
	}
	var wantIdx []uint32
	for i, m := range matched {
		if m {
			wantIdx = append(wantIdx, uint32(i))
		}
	}
	if indices != nil && fmt.Sprint(indices) != fmt.Sprint(wantIdx) || indices == nil && !strings.Contains(builder, "re-examined") && len(wantIdx) > 0 {
		fail("index-list-wrong", fmt.Sprintf("got %v want %v", indices, wantIdx))
	}
	// extraction
	var root *chainhash.Hash
	var pb *merkleblock.PartialBlock
	if m, p := mc.Guard(func() {
		pb = merkleblock.NewMerkleBlockFromMsg(*msg)
		root = pb.ExtractMatches()
	}); p {
		fail("extraction-panics", m)
		return
	}
	if root == nil {
		fail("extraction-of-built-proof-fails", "")
		return
	}
	if ref.Hash32(*root) != b.root {
		fail("extracted-root-is-not-the-block-merkle-root", "")
	}
	items, hs := pb.GetItems(), pb.GetMatches()
	if fmt.Sprint(items) != fmt.Sprint(wantIdx) || len(hs) != len(wantIdx) {
		fail("extracted-positions-differ-from-chosen-set", fmt.Sprintf("got %v want %v", items, wantIdx))
		return
	}
	for i, p := range wantIdx {
		if ref.Hash32(*hs[i]) != b.ids[p] {
			fail("extracted-hash-wrong", fmt.Sprintf("position %d", p))
		}
	}
}

func c11Eval(w *mc.W, cas c11Case) {
	c := w.Ctx()
	b := c11GetBlock(cas.N)
	if cas.Twins != "" {
		b = c11TwinBlock(cas.N, cas.Twins)
	}
	matched := make([]bool, cas.N)
	k := 0
	for i := range matched {
		matched[i] = cas.Subset[i] == '1'
		if matched[i] {
			k++
		}
	}
	block := bchutil.NewBlock(b.msg)
	// set given in block order, reversed, with a foreign hash and a duplicate
	var set []*chainhash.Hash
	for i := range matched {
		if matched[i] {
			h := chainhash.Hash(b.ids[i])
			set = append(set, &h)
		}
	}
	variants := map[string][]*chainhash.Hash{"TxnSet(block order)": set}
	var rev []*chainhash.Hash
	for i := len(set) - 1; i >= 0; i-- {
		rev = append(rev, set[i])
	}
	foreign := chainhash.Hash{0xde, 0xad}
	rev = append(rev, &foreign)
	if len(set) > 0 {
		rev = append(rev, set[0])
	}
	variants["TxnSet(reversed+foreign+duplicate)"] = rev
	var first *wire.MsgMerkleBlock
	for _, name := range []string{"TxnSet(block order)", "TxnSet(reversed+foreign+duplicate)"} {
		var msg *wire.MsgMerkleBlock
		var idx []uint32
		if m, p := mc.Guard(func() { msg, idx = merkleblock.NewMerkleBlockWithTxnSet(block, variants[name]) }); p {
			c.Violate("builder-panics/"+name, "subset", cas, m)
			return
		}
		w.Trans()
		c11EvalMsg(w, cas, name, msg, idx, matched, b)
		if first == nil {
			first = msg
		}
	}
	// filter-induced subsets: two separately loaded equal filters, flags None (no updates)
	mkFilter := func() *bloom.Filter {
		f := bloom.LoadFilter(wire.NewMsgFilterLoad(make([]byte, 16384), 10, 0xabcdef, wire.BloomUpdateNone))
		for _, h := range set {
			f.AddHash(h)
		}
		return f
	}
	type built struct {
		name string
		msg  *wire.MsgMerkleBlock
		idx  []uint32
	}
	var fb []built
	for _, name := range []string{"merkleblock.NewMerkleBlockWithFilter", "bloom.NewMerkleBlock"} {
		var msg *wire.MsgMerkleBlock
		var idx []uint32
		f := mkFilter()
		if m, p := mc.Guard(func() {
			if name == "bloom.NewMerkleBlock" {
				msg, idx = bloom.NewMerkleBlock(block, f)
			} else {
				msg, idx = merkleblock.NewMerkleBlockWithFilter(block, f)
			}
		}); p {
			c.Violate("builder-panics/"+name, "subset", cas, m)
			return
		}
		w.Trans()
		// the filter may (astronomically rarely) add false positives: the induced set is what it reports,
		// but it must contain the chosen set
		ind := make([]bool, cas.N)
		for _, i := range idx {
			if int(i) < cas.N {
				ind[i] = true
			}
		}
		super := false
		for i := range matched {
			if matched[i] && !ind[i] {
				c.Violate("filter-induced-set-misses-a-chosen-transaction/"+name, "subset", cas, fmt.Sprint(i))
			}
			if !matched[i] && ind[i] {
				super = true
			}
		}
		if super {
			w.Outcome("bloom false positive enlarged the induced set")
		}
		c11EvalMsg(w, cas, name, msg, idx, ind, b)
		fb = append(fb, built{name, msg, idx})
	}
	// the two filter builders produce identical messages and index lists
	if len(fb) == 2 {
		var b0, b1 bytes.Buffer
		fb[0].msg.BchEncode(&b0, wire.ProtocolVersion, wire.BaseEncoding)
		fb[1].msg.BchEncode(&b1, wire.ProtocolVersion, wire.BaseEncoding)
		if !bytes.Equal(b0.Bytes(), b1.Bytes()) || fmt.Sprint(fb[0].idx) != fmt.Sprint(fb[1].idx) {
			c.Violate("the-two-proof-builders-disagree", "subset", cas, "")
		}
	}
	// retained proofs: the messages built above are kept while proofs of ANOTHER block are built by
	// all three builders; afterwards they must still be what they were (a builder that hands out
	// slices of a reused scratch area corrupts earlier messages, not the one it is building)
	if cas.N <= 64 || k == 0 || k == cas.N {
		on := (cas.N*5+3)%29 + 2
		if on == cas.N {
			on++
		}
		ob := c11GetBlock(on)
		oblock := bchutil.NewBlock(ob.msg)
		mc.Guard(func() {
			var all []*chainhash.Hash
			for i := range ob.ids {
				h := chainhash.Hash(ob.ids[i])
				all = append(all, &h)
			}
			merkleblock.NewMerkleBlockWithTxnSet(oblock, all)
			merkleblock.NewMerkleBlockWithTxnSet(oblock, all[len(all)-1:])
			of := bloom.LoadFilter(wire.NewMsgFilterLoad(make([]byte, 4096), 10, 1, wire.BloomUpdateNone))
			of.AddHash(all[0])
			merkleblock.NewMerkleBlockWithFilter(oblock, of)
			bloom.NewMerkleBlock(oblock, of)
		})
		w.Trans()
		if first != nil {
			c11EvalMsg(w, cas, "TxnSet(block order), re-examined after proofs of another block were built", first, nil, matched, b)
		}
		for _, x := range fb {
			ind := make([]bool, cas.N)
			for _, i := range x.idx {
				if int(i) < cas.N {
					ind[i] = true
				}
			}
			c11EvalMsg(w, cas, x.name+", re-examined after proofs of another block were built", x.msg, x.idx, ind, b)
		}
	}
	switch {
	case k == 0:
		w.Outcome("empty subset")
	case k == cas.N:
		w.Outcome("full subset")
	default:
		w.Outcome("proper subset")
		w.Nontrivial(mc.HashString(fmt.Sprint(cas.N), cas.Subset))
	}
}

func runC11(c *mc.Ctx) {
	c.Rule("blocks of n = 1..65 and n in {100,127,128,129,255,256,257,513,1025,4097(,1000,16385,65537)} distinct transactions; all 2^n subsets for n <= 14 (18 thorough) and for larger n the structured family {empty, full, singletons, adjacent pairs, prefixes, suffixes, right edge, alternating}; each (n, subset) through NewMerkleBlockWithTxnSet (two set orderings), NewMerkleBlockWithFilter and bloom.NewMerkleBlock, compared field by field with the reference partial-merkle-tree builder and extracted again; non-trivial = proper non-empty subsets")
	c.Assume("SHA-256 and wire transaction hashing trusted; the 16384-byte x 10 filter has no false positives on <= 65 items (if one occurs the induced set is used and the event is counted)")
	full := mc.Pick(c, 14, 18)
	var cases []c11Case
	for n := 1; n <= full; n++ {
		for s := 0; s < 1<<uint(n); s++ {
			b := make([]byte, n)
			for i := range b {
				b[i] = '0' + byte(s>>uint(i)&1)
			}
			cases = append(cases, c11Case{N: n, Subset: string(b)})
		}
	}
	for n := full + 1; n <= 65; n++ {
		seen := map[string]bool{}
		add := func(f func(i int) bool) {
			b := make([]byte, n)
			for i := range b {
				b[i] = '0'
				if f(i) {
					b[i] = '1'
				}
			}
			if !seen[string(b)] {
				seen[string(b)] = true
				cases = append(cases, c11Case{N: n, Subset: string(b)})
			}
		}
		add(func(i int) bool { return false })
		add(func(i int) bool { return true })
		add(func(i int) bool { return i%2 == 0 })
		add(func(i int) bool { return i%2 == 1 })
		for k := 0; k < n; k++ {
			k := k
			add(func(i int) bool { return i == k })
			add(func(i int) bool { return i == k || i == k+1 })
			add(func(i int) bool { return i <= k })
			add(func(i int) bool { return i >= k })
		}
		add(func(i int) bool { return i >= n-2 })
		add(func(i int) bool { return i == n-1 || i == 0 })
	}
	// larger blocks (counter widths, deep right edges): structured subsets only
	bigNs := []int{100, 127, 128, 129, 255, 256, 257, 513, 1025, 4097}
	if c.Thorough() {
		bigNs = append(bigNs, 1000, 16385, 65537)
	}
	for _, n := range bigNs {
		add := func(f func(i int) bool) {
			b := make([]byte, n)
			for i := range b {
				b[i] = '0'
				if f(i) {
					b[i] = '1'
				}
			}
			cases = append(cases, c11Case{N: n, Subset: string(b)})
		}
		add(func(i int) bool { return false })
		add(func(i int) bool { return true })
		add(func(i int) bool { return i%2 == 0 })
		add(func(i int) bool { return i == 0 || i == n-1 })
		for _, k := range []int{0, 1, 31, 32, 63, 64, 65, n / 2, n - 3, n - 2, n - 1} {
			if k < 0 || k >= n {
				continue
			}
			k := k
			add(func(i int) bool { return i == k })
			add(func(i int) bool { return i >= k })
			add(func(i int) bool { return i <= k })
			add(func(i int) bool { return i == k || i == n-1 })
		}
	}
	// tree-height ladder: the smallest and the largest block of every tree height 13..17 (thorough ..21),
	// i.e. n = 2^(h-1)+1 and 2^h, with a handful of subsets each - per-level bookkeeping that is sized
	// for "any realistic tree" ends at some height, and a block of 4097 transactions has height 13
	{
		maxH := mc.Pick(c, 17, 21)
		for h := 13; h <= maxH; h++ {
			for _, n := range []int{1<<(h-1) + 1, 1 << h} {
				if n == 4097 {
					continue
				}
				for _, set := range [][]int{{0}, {n - 1}, {0, n - 1}, {n / 2, n/2 + 1}} {
					b := make([]byte, n)
					for i := range b {
						b[i] = '0'
					}
					for _, k := range set {
						b[k] = '1'
					}
					cases = append(cases, c11Case{N: n, Subset: string(b)})
				}
				// MANY chosen transactions under one node (a count of matches per subtree kept in a narrow
				// type wraps at 256 / 65536): everything chosen; the first half and the last one
				if h <= 16 || c.Thorough() && h <= 17 {
					all, half := make([]byte, n), make([]byte, n)
					for i := range all {
						all[i] = '1'
						half[i] = '0'
						if i < 1<<(h-1) || i == n-1 {
							half[i] = '1'
						}
					}
					cases = append(cases, c11Case{N: n, Subset: string(all)}, c11Case{N: n, Subset: string(half)})
				}
			}
		}
	}
	// blocks with txid twins (see c11Case.Twins), 20 and 40 transactions: everything requested, the twins
	// with fourteen / thirty others, the twins alone, one twin, everything but one twin
	for _, kind := range []string{"head4", "tail4", "ends2", "head6", "tail6"} {
		for _, n := range []int{20, 40} {
			sub := func(f func(i int) bool) string {
				b := make([]byte, n)
				for i := range b {
					b[i] = '0'
					if f(i) {
						b[i] = '1'
					}
				}
				return string(b)
			}
			for _, ss := range []string{
				sub(func(i int) bool { return true }),
				sub(func(i int) bool { return i == 3 || i == n-2 || i%5 != 0 }),
				sub(func(i int) bool { return i == 3 || i == n-2 }),
				sub(func(i int) bool { return i == 3 }),
				sub(func(i int) bool { return i != n-2 }),
				sub(func(i int) bool { return i != 3 }),
			} {
				cases = append(cases, c11Case{N: n, Subset: ss, Twins: kind})
			}
		}
	}
	if c.Quick() { // the smallest block of height 18 (work split into equal parts leaves a remainder: 131073 = 8*16384 + 1)
		n := 131073
		for _, k := range []int{5, n - 1} {
			b := bytes.Repeat([]byte{'0'}, n)
			b[k] = '1'
			cases = append(cases, c11Case{N: n, Subset: string(b)})
		}
	}
	c.Space("(n, subset) pairs", int64(len(cases)))
	c.ParFor(int64(len(cases)), func(w *mc.W, i int64) {
		w.State()
		c11Eval(w, cases[i])
	})
	c.Sample("subset", cases[5])
	c.Sample("subset", cases[len(cases)-1])
	runC11Graphs(c)
	runC11Virtual(c)
}
