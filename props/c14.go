package props

import (
	"bytes"
	"encoding/json"
	"fmt"
	"math/bits"
	"sort"

	"github.com/gcash/bchd/chaincfg/chainhash"
	"github.com/gcash/bchd/wire"
	"github.com/gcash/bchutil/gcs"
	"github.com/gcash/bchutil/gcs/builder"

	"verif/mc"
	"verif/ref"
)

// C14 — GCS filters are bit-exact Golomb-Rice encodings and serialise losslessly.

func init() {
	register(&Prop{ID: "C14", Run: runC14, Procs: true, Replay: map[string]func(*mc.Ctx, json.RawMessage){
		"encode":  replayer(c14EvalEncode),
		"encseq":  replayer(c14EvalEncSeq),
		"reduce":  replayer(c14EvalReduce),
		"block":   replayer(c14EvalBlock),
		"builder": replayer(c14EvalBuilder),
	}})
}

// ---- encoding + serialisation round trips

type c14Enc struct {
	Key   int      `json:"key"`
	P     uint8    `json:"p"`
	M     uint64   `json:"m"`
	Items []string `json:"items_hex,omitempty"`
	Count int      `json:"count,omitempty"` // if > 0: items are "n-0".."n-(count-1)"
}

func (cas c14Enc) items() [][]byte {
	var out [][]byte
	for _, s := range cas.Items {
		out = append(out, mc.UnHex(s))
	}
	for i := 0; i < cas.Count; i++ {
		out = append(out, []byte(fmt.Sprintf("n-%d", i)))
	}
	return out
}

func c14EvalEncode(w *mc.W, cas c14Enc) {
	c := w.Ctx()
	w.Eval()
	key := c13Keys[cas.Key]
	items := cas.items()
	fail := func(class, detail string) { c.Violate(class, "encode", cas, detail) }
	msg, p := mc.Guard(func() {
		f, err := gcs.BuildGCSFilter(cas.P, cas.M, key, items)
		if cas.P > 32 {
			if err == nil {
				fail("accepts-P-above-32", "")
			}
			w.Outcome("P > 32 refused")
			return
		}
		if err != nil {
			fail("build-fails", err.Error())
			return
		}
		n := uint32(len(items))
		want := ref.GCSEncode(key, cas.P, cas.M, items)
		got, _ := f.Bytes()
		if !bytes.Equal(got, want) {
			fail("filter-bytes-differ-from-golomb-rice-encoding", fmt.Sprintf("got %x want %x", trunc(got), trunc(want)))
			return
		}
		if f.N() != n || f.P() != cas.P {
			fail("n-or-p-wrong", fmt.Sprintf("N=%d P=%d", f.N(), f.P()))
		}
		nb, _ := f.NBytes()
		pb, _ := f.PBytes()
		npb, _ := f.NPBytes()
		cs := ref.CompactSize(uint64(n))
		if !bytes.Equal(nb, append(append([]byte{}, cs...), want...)) {
			fail("nbytes-is-not-compactsize-n-then-bytes", fmt.Sprintf("%x", trunc(nb)))
		}
		// filter hash and header of every encoded set (also the ones whose N needs more than one byte)
		{
			wantFH := ref.DoubleSHA256(append(append([]byte{}, cs...), want...))
			fh, err := builder.GetFilterHash(f)
			if err != nil || ref.Hash32(fh) != wantFH {
				fail("filter-hash-is-not-double-sha256-of-nbytes", fmt.Sprintf("N=%d", n))
			}
			// several previous headers in a row for the SAME filter object (the all-zero one of the first
			// block, one differing from it in a single byte, the first again): the header is a function
			// of both arguments
			for _, prev := range []chainhash.Hash{{0x12, 0x34}, {}, {7: 0x5a}, {0x12, 0x34}, {31: 0x01}} {
				hd, err := builder.MakeHeaderForFilter(f, prev)
				wantHD := ref.DoubleSHA256(append(append([]byte{}, wantFH[:]...), prev[:]...))
				if err != nil || ref.Hash32(hd) != wantHD {
					fail("filter-header-is-not-double-sha256-of-hash-and-previous-header", fmt.Sprintf("N=%d previous header %x", n, prev[:8]))
					break
				}
			}
		}
		if !bytes.Equal(pb, append([]byte{cas.P}, want...)) {
			fail("pbytes-is-not-p-then-bytes", fmt.Sprintf("%x", trunc(pb)))
		}
		if !bytes.Equal(npb, append(append(append([]byte{}, cs...), cas.P), want...)) {
			fail("npbytes-is-not-n-p-bytes", fmt.Sprintf("%x", trunc(npb)))
		}
		// mutating the returned slices must not change the filter
		if len(got) > 0 {
			got[0] ^= 0xff
			again, _ := f.Bytes()
			if !bytes.Equal(again, want) {
				fail("bytes-returns-internal-buffer", "")
			}
		}
		// rebuild from each serialisation
		type rebuilt struct {
			name string
			f    *gcs.Filter
			err  error
		}
		src := append([]byte{}, want...)
		f1, e1 := gcs.FromBytes(n, cas.P, cas.M, src)
		f2, e2 := gcs.FromNBytes(cas.P, cas.M, nb)
		f3, e3 := gcs.FromBytes(n, pb[0], cas.M, pb[1:])
		npN := npb[:len(cs)]
		_ = npN
		f4, e4 := gcs.FromNBytes(npb[len(cs)], cas.M, append(append([]byte{}, cs...), npb[len(cs)+1:]...))
		// queries: every member, plus non-members
		queries := append([][]byte{}, items...)
		if len(queries) > 16 { // large sets: first and last 8 members (each query is O(N))
			queries = append(append([][]byte{}, items[:8]...), items[len(items)-8:]...)
		}
		queries = append(queries, []byte("zz-nonmember"), []byte{}, []byte("item-1"))
		for _, r := range []rebuilt{{"FromBytes", f1, e1}, {"FromNBytes", f2, e2}, {"FromBytes(PBytes)", f3, e3}, {"FromNBytes(NPBytes)", f4, e4}} {
			w.Trans()
			if r.err != nil {
				fail("rebuild-fails/"+r.name, r.err.Error())
				continue
			}
			rb, _ := r.f.Bytes()
			if r.f.N() != n || r.f.P() != cas.P || !bytes.Equal(rb, want) {
				fail("rebuilt-filter-differs/"+r.name, "")
				continue
			}
			// caller's buffer must not be aliased
			for _, q := range queries {
				a1, _ := f.Match(key, q)
				a2, _ := r.f.Match(key, q)
				b1, _ := f.MatchAny(key, [][]byte{q, []byte("other")})
				b2, _ := r.f.MatchAny(key, [][]byte{q, []byte("other")})
				if a1 != a2 || b1 != b2 {
					fail("rebuilt-filter-answers-differently/"+r.name, fmt.Sprintf("query %x", q))
				}
			}
		}
		if len(src) > 0 {
			src[0] ^= 0xff
			rb, _ := f1.Bytes()
			if e1 == nil && !bytes.Equal(rb, want) {
				fail("frombytes-aliases-the-callers-buffer", "")
			}
		}
		switch {
		case n == 0:
			w.Outcome("empty set")
		case n >= 253:
			w.Outcome("multi-byte CompactSize N")
			w.Nontrivial(mc.HashString(fmt.Sprint(cas)))
		default:
			w.Outcome("encoded set")
			w.Nontrivial(mc.HashString(fmt.Sprint(cas)))
		}
	})
	if p {
		fail("panic", msg)
	}
}

// ---- fastReduction through the hook

type c14Red struct {
	V uint64 `json:"v"`
	N uint64 `json:"modulus"`
}

func c14EvalReduce(w *mc.W, cas c14Red) {
	if hookFastReduction == nil {
		return
	}
	w.Eval()
	var got uint64
	if msg, p := mc.Guard(func() { got = hookFastReduction(cas.V, cas.N>>32, uint64(uint32(cas.N))) }); p {
		w.Ctx().Violate("fastreduction-panics", "reduce", cas, msg)
		return
	}
	hi, _ := bits.Mul64(cas.V, cas.N)
	if got != hi {
		w.Ctx().Violate("fastreduction-differs-from-128-bit-product", "reduce", cas, fmt.Sprintf("got %x want %x", got, hi))
	}
	// which carry value was needed: (lo32(vhi*nlo) + lo32(nhi*vlo) + hi32(vlo*nlo)) >> 32
	vhi, vlo, nhi, nlo := cas.V>>32, uint64(uint32(cas.V)), cas.N>>32, uint64(uint32(cas.N))
	carry := (uint64(uint32(vhi*nlo)) + uint64(uint32(nhi*vlo)) + (vlo*nlo)>>32) >> 32
	w.Outcome(fmt.Sprintf("fastReduction carry %d", carry))
	if carry > 0 {
		w.Nontrivial(mc.HashString(fmt.Sprint(cas)))
	}
}

// ---- block filters

type c14Blk struct {
	// each transaction: inputs as digits into the outpoint alphabet, outputs as digits into the script
	// alphabet; transaction 0 is the coinbase
	Txs     []string `json:"txs"` // "in/out", e.g. "01/023"
	Mempool bool     `json:"mempool"`
	// Big: "ntx:nin:nout:dup" - a generated block instead of Txs: a coinbase and ntx transactions with
	// nin inputs (all outpoints distinct; every dup-th one repeats the outpoint before it, in another
	// transaction) and nout outputs (scripts distinct; every dup-th one repeats the script before it)
	Big string `json:"generated_block,omitempty"`
	// Nonce of the block header (the filter key is taken from the block hash)
	Nonce uint32 `json:"header_nonce,omitempty"`
}

var c14Scripts = [][]byte{{}, {0x51}, {0x76, 0xa9, 0x14, 1, 2, 3, 4, 5, 6, 7, 8, 9, 10, 11, 12, 13, 14, 15, 16, 17, 18, 19, 20, 0x88, 0xac}, {0x6a, 0x02, 0xca, 0xfe},
	// script 4: byte-identical to the serialisation of outpoint 0 (an entry that must be de-duplicated against it)
	func() []byte { o := c14OutPoint(0); return ref.OutPointBytes(o.Hash, o.Index) }(),
	// scripts 5..8: length ladder (520/521: push limit, 10000/10001: script size limit, 65536)
	bytes.Repeat([]byte{0x51}, 521), bytes.Repeat([]byte{0x52}, 10000), bytes.Repeat([]byte{0x53}, 10001), bytes.Repeat([]byte{0x54}, 65536)}

func c14OutPoint(d byte) wire.OutPoint {
	switch d {
	case 3: // the null outpoint (what a coinbase input carries), here possibly on a NON-coinbase input
		return wire.OutPoint{Index: 0xffffffff}
	case 4: // same previous txid as outpoint 0, different index (entries sharing a 32-byte prefix)
		return wire.OutPoint{Hash: chainhash.Hash{0xa0, 0x01, 0}, Index: 9}
	}
	return wire.OutPoint{Hash: chainhash.Hash{0xa0 + d, 0x01, d}, Index: uint32(d) * 0x01000001}
}

func c14BuildTxs(cas c14Blk) []*wire.MsgTx {
	var txs []*wire.MsgTx
	if cas.Big != "" {
		var ntx, nin, nout, dup int
		if _, err := fmt.Sscanf(cas.Big, "%d:%d:%d:%d", &ntx, &nin, &nout, &dup); err != nil {
			panic("c14: bad generated block " + cas.Big)
		}
		cbx := wire.NewMsgTx(1)
		cbx.AddTxIn(wire.NewTxIn(&wire.OutPoint{Index: 0xffffffff}, []byte{0x01, 0x02}))
		cbx.AddTxOut(wire.NewTxOut(50, []byte{0x51, 0x51}, wire.TokenData{}))
		txs = append(txs, cbx)
		ci, co := 0, 0
		var lastO wire.OutPoint
		var lastS []byte
		for t := 0; t < ntx; t++ {
			tx := wire.NewMsgTx(1)
			tx.LockTime = uint32(t)
			for i := 0; i < nin; i++ {
				ci++
				o := wire.OutPoint{Hash: chainhash.Hash{byte(ci), byte(ci >> 8), byte(ci >> 16), 0xb1}, Index: uint32(ci % 7)}
				if dup > 0 && ci%dup == 0 && ci > 1 {
					o = lastO
				}
				lastO = o
				tx.AddTxIn(wire.NewTxIn(&o, []byte{0x51}))
			}
			for i := 0; i < nout; i++ {
				co++
				sc := []byte{0x76, 0xa9, 0x14, byte(co), byte(co >> 8), byte(co >> 16), 4, 5, 6, 7, 8, 9, 10, 11, 12, 13, 14, 15, 16, 17, 18, 19, 20, 0x88, 0xac}
				if dup > 0 && co%dup == 0 && co > 1 {
					sc = lastS
				}
				lastS = sc
				tx.AddTxOut(wire.NewTxOut(int64(co), sc, wire.TokenData{}))
			}
			txs = append(txs, tx)
		}
		return txs
	}
	for ti, t := range cas.Txs {
		tx := wire.NewMsgTx(1)
		tx.LockTime = uint32(ti)
		part := 0
		for i := 0; i < len(t); i++ {
			if t[i] == '/' {
				part = 1
				continue
			}
			d := t[i] - '0'
			if part == 0 {
				o := c14OutPoint(d)
				tx.AddTxIn(wire.NewTxIn(&o, []byte{0x51}))
			} else {
				tx.AddTxOut(wire.NewTxOut(int64(d)+1, c14Scripts[d], wire.TokenData{}))
			}
		}
		txs = append(txs, tx)
	}
	return txs
}

func c14EvalBlock(w *mc.W, cas c14Blk) {
	c := w.Ctx()
	w.Eval()
	fail := func(class, detail string) { c.Violate(class, "block", cas, detail) }
	txs := c14BuildTxs(cas)
	msg, p := mc.Guard(func() {
		var f, f2 *gcs.Filter
		var err error
		var key [16]byte
		// expected content
		set := map[string]bool{}
		if cas.Mempool {
			f, err = builder.BuildMempoolFilter(txs)
			f2, _ = builder.BuildMempoolFilter(txs)
			for _, tx := range txs {
				for _, in := range tx.TxIn {
					set[string(ref.OutPointBytes(in.PreviousOutPoint.Hash, in.PreviousOutPoint.Index))] = true
				}
				for _, o := range tx.TxOut {
					if len(o.PkScript) > 0 {
						set[string(o.PkScript)] = true
					}
				}
			}
		} else {
			blk := wire.NewMsgBlock(fixedHeader(1, &chainhash.Hash{9}, &chainhash.Hash{8}, 7, 6+cas.Nonce))
			for _, tx := range txs {
				blk.AddTransaction(tx)
			}
			f, err = builder.BuildBasicFilter(blk)
			f2, _ = builder.BuildBasicFilter(blk)
			h := blk.BlockHash()
			copy(key[:], h[:16])
			for ti, tx := range txs {
				if ti > 0 {
					for _, in := range tx.TxIn {
						set[string(ref.OutPointBytes(in.PreviousOutPoint.Hash, in.PreviousOutPoint.Index))] = true
					}
				}
				for _, o := range tx.TxOut {
					if len(o.PkScript) > 0 {
						set[string(o.PkScript)] = true
					}
				}
			}
		}
		if err != nil {
			fail("block-filter-build-fails", err.Error())
			return
		}
		var items [][]byte
		for s := range set {
			items = append(items, []byte(s))
		}
		sort.Slice(items, func(i, j int) bool { return bytes.Compare(items[i], items[j]) < 0 })
		want := ref.GCSEncode(key, 19, 784931, items)
		got, _ := f.Bytes()
		got2, _ := f2.Bytes()
		if !bytes.Equal(got, got2) {
			fail("block-filter-not-deterministic", "")
		}
		if f.N() != uint32(len(items)) {
			fail("block-filter-element-count-wrong", fmt.Sprintf("N=%d want %d (outpoints of non-coinbase inputs + non-empty scripts, de-duplicated)", f.N(), len(items)))
			return
		}
		if f.P() != 19 || !bytes.Equal(got, want) {
			fail("block-filter-bytes-differ-from-reference", fmt.Sprintf("got %x want %x", trunc(got), trunc(want)))
			return
		}
		// filter hash and header
		nb := append(ref.CompactSize(uint64(len(items))), want...)
		fh, err := builder.GetFilterHash(f)
		wantFH := ref.DoubleSHA256(nb)
		if err != nil || ref.Hash32(fh) != wantFH {
			fail("filter-hash-is-not-double-sha256-of-nbytes", "")
		}
		for _, prev := range []chainhash.Hash{{0x77, 0x66}, {}, {0x77, 0x67}, {0x77, 0x66}} {
			hd, err := builder.MakeHeaderForFilter(f, prev)
			wantHD := ref.DoubleSHA256(append(append([]byte{}, wantFH[:]...), prev[:]...))
			if err != nil || ref.Hash32(hd) != wantHD {
				fail("filter-header-is-not-double-sha256-of-hash-and-previous-header", fmt.Sprintf("previous header %x", prev[:8]))
				break
			}
		}
		if cas.Mempool {
			w.Outcome(fmt.Sprintf("mempool filter with %d elements", min(len(items), 3)))
		} else {
			w.Outcome(fmt.Sprintf("basic filter with %d elements", min(len(items), 3)))
		}
		if len(items) > 0 {
			w.Nontrivial(mc.HashString(fmt.Sprint(cas)))
		}
	})
	if p {
		fail("panic", msg)
	}
}

// ---- builder chain (E-SEQ)

type c14Bld struct {
	Ctor string   `json:"constructor"` // WithKeyPNM, WithKeyHash, WithKey
	Ops  []string `json:"ops"`
}

var c14Menu = []string{"SetKey", "SetKeyFromHash", "SetP:0", "SetP:19", "SetP:32", "SetP:33", "SetM:0", "SetM:1", "SetM:4294967295", "SetM:4294967296",
	"Preallocate", "AddEntry:a", "AddEntry:b", "AddEntries:a,c", "AddEntries:,b", "AddHash", "Key", "Build"}

func c14EvalBuilder(w *mc.W, cas c14Bld) {
	c := w.Ctx()
	fail := func(class, detail string) { c.Violate(class, "builder", cas, detail) }
	k1 := [16]byte{1, 1, 1, 1, 1, 1, 1, 1, 1, 1, 1, 1, 1, 1, 1, 1}
	k2 := [16]byte{2, 2, 2}
	h := chainhash.Hash{0xaa, 0xbb, 0xcc, 3, 4, 5, 6, 7, 8, 9, 10, 11, 12, 13, 14, 15, 16, 17}
	// model
	var mKey [16]byte
	var mP uint8
	var mM uint64
	mData := map[string]bool{}
	latched := false
	msg, p := mc.Guard(func() {
		var b *builder.GCSBuilder
		switch cas.Ctor {
		case "WithKeyPNM":
			b = builder.WithKeyPNM(k1, 7, 2, 200)
			mKey, mP, mM = k1, 7, 200
		case "WithKeyHash":
			b = builder.WithKeyHash(&h)
			copy(mKey[:], h[:16])
			mP, mM = 19, 784931
		case "WithKey":
			b = builder.WithKey(k1)
			mKey, mP, mM = k1, 19, 784931
		case "WithKeyPNM-badP":
			b = builder.WithKeyPNM(k1, 33, 2, 200)
			mKey = k1
			latched = true
		case "WithKeyPM":
			b = builder.WithKeyPM(k1, 8, 256)
			mKey, mP, mM = k1, 8, 256
		case "WithKeyHashPM":
			b = builder.WithKeyHashPM(&h, 20, 1<<20)
			copy(mKey[:], h[:16])
			mP, mM = 20, 1<<20
		case "WithKeyHashPNM":
			b = builder.WithKeyHashPNM(&h, 19, 3, 784931)
			copy(mKey[:], h[:16])
			mP, mM = 19, 784931
			if dk := builder.DeriveKey(&h); dk != mKey {
				fail("derivekey-is-not-the-first-16-bytes-of-the-hash", fmt.Sprintf("%x", dk))
			}
		case "WithRandomKey", "WithRandomKeyPM", "WithRandomKeyPNM":
			// the key is the library's choice: it is read back once and must then stay what it is
			switch cas.Ctor {
			case "WithRandomKey":
				b = builder.WithRandomKey()
				mP, mM = 19, 784931
			case "WithRandomKeyPM":
				b = builder.WithRandomKeyPM(5, 77)
				mP, mM = 5, 77
			default:
				b = builder.WithRandomKeyPNM(32, 4, 1<<32-1)
				mP, mM = 32, 1<<32-1
			}
			k, err := b.Key()
			if err != nil {
				fail("random-key-constructor-fails", err.Error())
				return
			}
			mKey = k
		default:
			panic("c14: unknown constructor " + cas.Ctor)
		}
		for step, op := range cas.Ops {
			w.Trans()
			where := fmt.Sprintf("step %d (%s)", step, op)
			switch op {
			case "SetKey":
				b = b.SetKey(k2)
				if !latched {
					mKey = k2
				}
			case "SetKeyFromHash":
				b = b.SetKeyFromHash(&h)
				if !latched {
					copy(mKey[:], h[:16])
				}
			case "SetP:0", "SetP:19", "SetP:32", "SetP:33":
				var v int
				fmt.Sscanf(op[5:], "%d", &v)
				b = b.SetP(uint8(v))
				if !latched {
					if v > 32 {
						latched = true
					} else {
						mP = uint8(v)
					}
				}
			case "SetM:0", "SetM:1", "SetM:4294967295", "SetM:4294967296":
				var v uint64
				fmt.Sscanf(op[5:], "%d", &v)
				b = b.SetM(v)
				if !latched {
					if v > 1<<32-1 {
						latched = true
					} else {
						mM = v
					}
				}
			case "Other":
				// ANOTHER builder goes through its whole life now (different key, P, M, elements): the builder
				// under test must not notice
				ob := builder.WithKeyPNM(k2, 5, 3, 50).AddEntry([]byte("zz")).AddEntry([]byte("a")).AddHash(&h)
				of, oerr := ob.Build()
				w.Eval()
				if oerr != nil || of == nil || of.N() != 3 {
					fail("another-builder-disturbed", fmt.Sprintf("%s: a second builder used in between fails or has the wrong element count: %v", where, oerr))
				} else if ok, _ := of.Match(k2, []byte("zz")); !ok {
					fail("another-builder-disturbed", where+": the second builder's filter does not match its own element")
				}
			case "Preallocate":
				b = b.Preallocate(4)
			case "AddEntry:a", "AddEntry:b":
				b = b.AddEntry([]byte(op[9:]))
				if !latched {
					mData[op[9:]] = true
				}
			case "AddEntries:,b":
				b = b.AddEntries([][]byte{{}, []byte("b")})
				if !latched {
					mData[""], mData["b"] = true, true
				}
			case "AddEntries:a,c":
				b = b.AddEntries([][]byte{[]byte("a"), []byte("c")})
				if !latched {
					mData["a"], mData["c"] = true, true
				}
			case "AddHash":
				b = b.AddHash(&h)
				if !latched {
					mData[string(h[:])] = true
				}
			case "Key":
				k, err := b.Key()
				w.Eval()
				if latched {
					if err == nil {
						fail("key-succeeds-after-a-latched-error", where)
					}
				} else if err != nil || k != mKey {
					fail("builder-key-wrong", fmt.Sprintf("%s: got %x err=%v want %x", where, k, err, mKey))
				}
			case "Build":
				f, err := b.Build()
				f2, err2 := b.Build() // map iteration order must not matter
				w.Eval()
				wantErr := latched || mP == 0 || mM == 0
				if wantErr {
					if err == nil {
						fail("build-succeeds-although-parameters-are-invalid", where)
					}
					continue
				}
				if err != nil || err2 != nil {
					fail("build-fails", fmt.Sprintf("%s: %v", where, err))
					continue
				}
				var items [][]byte
				for s := range mData {
					items = append(items, []byte(s))
				}
				sort.Slice(items, func(i, j int) bool { return bytes.Compare(items[i], items[j]) < 0 })
				want := ref.GCSEncode(mKey, mP, mM, items)
				got, _ := f.Bytes()
				got2, _ := f2.Bytes()
				if f.N() != uint32(len(items)) || f.P() != mP || !bytes.Equal(got, want) || !bytes.Equal(got2, want) {
					fail("built-filter-differs-from-reference", fmt.Sprintf("%s: N=%d P=%d bytes=%x want N=%d P=%d %x", where, f.N(), f.P(), trunc(got), len(items), mP, trunc(want)))
				}
			}
		}
	})
	if p {
		fail("builder-panics", msg)
		return
	}
	if latched {
		w.Outcome("chain with latched error")
	} else {
		w.Outcome("chain without error")
	}
}

func runC14(c *mc.Ctx) {
	c13SelfTest()
	c.Note("hook_fastReduction", hookFastReduction != nil)
	c.Rule("encoding: 2 keys x 12 (P,M) x all multisets of size <= 3 over the collision-aware item alphabet, plus N in {252,253,65535,65536} and P in {0..33}: Bytes/NBytes/PBytes/NPBytes against the reference Golomb-Rice bit string and CompactSize, FromBytes/FromNBytes round trips with identical answers; fastReduction (hook) on all combinations of 32-bit halves over 9 boundary values and all 4-bit-half placements against math/bits.Mul64; basic and mempool block filters over all blocks of a coinbase + <= 2 transactions with <= 2 inputs over 3 outpoints and <= 2 outputs over 4 scripts; all builder op chains of depth <= 4 (5 thorough) over a 18-op menu from 4 constructors against a record model with an error latch; non-trivial = non-empty encodings / carries / latched chains")
	c.Assume("reference SipHash-2-4, 128-bit multiply, Golomb-Rice bit string and CompactSize are correct; wire block hashing trusted")

	// 1. encodings
	var encs []c14Enc
	scan := mc.Pick(c, 1<<19, 1<<21)
	for key := 0; key < 2; key++ {
		for _, pm := range c13Configs {
			for n := 0; n <= 3; n++ {
				al := c13Alphabet(key, pm.M, uint32(max(n, 1)), scan)
				for _, s := range multisets(len(al.items), n) {
					var items []string
					for _, i := range s {
						items = append(items, mc.Hex(al.items[i]))
					}
					encs = append(encs, c14Enc{Key: key, P: pm.P, M: pm.M, Items: items})
				}
			}
		}
	}
	for p := 0; p <= 33; p++ {
		encs = append(encs, c14Enc{Key: 1, P: uint8(p), M: 1 << uint(min(p, 32)), Count: 5})
		encs = append(encs, c14Enc{Key: 1, P: uint8(p), M: 3 << uint(min(p, 32)), Count: 17})
	}
	for _, n := range []int{127, 128, 129, 252, 253, 254, 16383, 16384, 65535, 65536} { // CompactSize and LEB128 boundaries of N
		encs = append(encs, c14Enc{Key: 1, P: 19, M: 784931, Count: n})
	}
	if c.Thorough() {
		encs = append(encs, c14Enc{Key: 0, P: 19, M: 784931, Count: 100000}, c14Enc{Key: 0, P: 32, M: 1 << 32, Count: 70000})
	}
	if c.Thorough() {
		// two hashed values 2^63 or more apart (N*M just below 2^64): the encoding is about 2^31 bits
		// long (256 MiB), so this single case runs on the thorough tier only
		encs = append(encs, c14Enc{Key: 0, P: 32, M: 1<<63 - 1, Items: []string{mc.Hex([]byte("g-37982193")), mc.Hex([]byte("far-0"))}})
	}
	// quotient ladder (see c13QuotientLadder): every unary run length 0..139 in the first code word and,
	// at eight bit alignments, in the second
	for _, p := range mc.Pick(c, []uint8{0, 1, 19, 20, 32}, []uint8{0, 1, 2, 7, 8, 16, 19, 20, 24, 30, 31, 32}) {
		m, sets := c13QuotientLadder(0, p)
		for _, set := range sets {
			var ih []string
			for _, it := range set {
				ih = append(ih, mc.Hex(it))
			}
			encs = append(encs, c14Enc{Key: 0, P: p, M: m, Items: ih})
		}
	}
	c.Space("encodings and serialisation round trips", int64(len(encs)))
	c.ParFor(int64(len(encs)), func(w *mc.W, i int64) {
		w.State()
		c14EvalEncode(w, encs[i])
	})
	c.Sample("encode", encs[len(encs)/2])

	// 2. fastReduction
	if hookFastReduction != nil {
		vals := []uint64{0, 1, 2, 3, 1<<31 - 1, 1 << 31, 1<<31 + 1, 1<<32 - 2, 1<<32 - 1}
		total := int64(9 * 9 * 9 * 9)
		c.Space("fastReduction: 32-bit halves over 9 boundary values", total)
		c.ParFor(total, func(w *mc.W, i int64) {
			a, b, cc, d := vals[i%9], vals[i/9%9], vals[i/81%9], vals[i/729%9]
			w.State()
			c14EvalReduce(w, c14Red{V: a<<32 | b, N: cc<<32 | d})
		})
		c.Space("fastReduction: 4-bit halves at top and bottom of each 32-bit half", 1<<16*2)
		c.ParFor(1<<16*2, func(w *mc.W, i int64) {
			top := i>>16 == 1
			x := uint64(i & 0xffff)
			h := func(k uint) uint64 {
				v := x >> (4 * k) & 0xf
				if top {
					return v << 28
				}
				return v
			}
			w.State()
			c14EvalReduce(w, c14Red{V: h(0)<<32 | h(1) | 0xfffffff&^0, N: h(2)<<32 | h(3) | 0xfffffff})
		})
		c.Sample("reduce", c14Red{V: 0xffffffffffffffff, N: 0xffffffffffffffff})
	}

	// 3. block filters
	insets := []string{"", "0", "1", "2", "00", "01", "12", "3", "04", "34"}
	outsets := []string{"", "0", "1", "2", "3", "11", "12", "01", "31", "4", "41", "5", "6", "7", "8", "71"}
	var txAlpha []string
	for _, in := range insets {
		for _, out := range outsets {
			txAlpha = append(txAlpha, in+"/"+out)
		}
	}
	var blks []c14Blk
	cb := []string{"/", "/1", "0/2", "/0"} // coinbase variants (its inputs never count, its scripts do)
	for _, c0 := range cb {
		blks = append(blks, c14Blk{Txs: []string{c0}}, c14Blk{Txs: []string{c0}, Mempool: true})
		for _, t1 := range txAlpha {
			blks = append(blks, c14Blk{Txs: []string{c0, t1}}, c14Blk{Txs: []string{c0, t1}, Mempool: true})
			if c0 == "0/2" || c.Thorough() {
				for _, t2 := range txAlpha {
					blks = append(blks, c14Blk{Txs: []string{c0, t1, t2}})
					if c.Thorough() {
						blks = append(blks, c14Blk{Txs: []string{c0, t1, t2}, Mempool: true})
					}
				}
			}
		}
	}
	blks = append(blks, c14Blk{Txs: nil, Mempool: true})
	// generated blocks with many transactions / inputs / outputs (counts beyond 2^8 and 2^16 in the
	// BUILDER: preallocation, de-duplication structures), with and without repeated entries
	for _, g := range mc.Pick(c, []string{"1:300:300:0", "300:1:1:0", "300:2:2:3", "2:40000:30000:0", "70000:1:1:7"}, []string{"1:300:300:0", "300:1:1:0", "300:2:2:3", "2:40000:30000:0", "70000:1:1:7", "1:70000:70000:0", "256:256:256:5", "1:255:0:0", "1:0:256:0", "1:65536:0:2"}) {
		blks = append(blks, c14Blk{Big: g}, c14Blk{Big: g, Mempool: true})
	}
	// header nonces chosen so that the block hash (the filter key) starts with a zero byte, ends its key
	// part with a zero byte, or has the top bit set in its first byte (found by trying nonces)
	{
		want := map[string]bool{}
		for n := uint32(0); n < 200000 && len(want) < 4; n++ {
			blk := wire.NewMsgBlock(fixedHeader(1, &chainhash.Hash{9}, &chainhash.Hash{8}, 7, 6+n))
			h := blk.BlockHash()
			kind := ""
			switch {
			case h[0] == 0 && h[1] == 0:
				kind = "two leading zero bytes"
			case h[0] == 0:
				kind = "leading zero byte"
			case h[15] == 0:
				kind = "zero at key end"
			case h[0] >= 0x80 && h[8] >= 0x80:
				kind = "top bits"
			}
			if kind != "" && !want[kind] {
				want[kind] = true
				blks = append(blks, c14Blk{Txs: []string{"0/2", "12/31"}, Nonce: n}, c14Blk{Big: "3:3:3:2", Nonce: n})
			}
		}
		c.Note("block_hash_shapes_reached_by_nonce_search", len(want))
	}
	c.Space("blocks / transaction lists for the block-filter builders", int64(len(blks)))
	c.ParFor(int64(len(blks)), func(w *mc.W, i int64) {
		w.State()
		c14EvalBlock(w, blks[i])
	})
	c.Sample("block", blks[len(blks)/2])

	// 4. builder chains
	depth := mc.Pick(c, 4, 5)
	ctors := []string{"WithKeyPNM", "WithKeyHash", "WithKey", "WithKeyPNM-badP"}
	var per int64
	for d := 0; d <= depth; d++ {
		per += ipow(len(c14Menu), d)
	}
	c.Space(fmt.Sprintf("builder chains of depth <= %d x 4 constructors", depth), per*int64(len(ctors)))
	c.ParFor(per*int64(len(ctors)), func(w *mc.W, i int64) {
		ct := ctors[i/per]
		r := i % per
		d := 0
		for r >= ipow(len(c14Menu), d) {
			r -= ipow(len(c14Menu), d)
			d++
		}
		ops := make([]string, d)
		for k := d - 1; k >= 0; k-- {
			ops[k] = c14Menu[r%int64(len(c14Menu))]
			r /= int64(len(c14Menu))
		}
		w.State()
		c14EvalBuilder(w, c14Bld{Ctor: ct, Ops: ops})
	})
	// the remaining constructors (explicit P and M, key from a hash, a random key read back once):
	// every chain of depth <= 2 (3)
	{
		more := []string{"WithKeyPM", "WithKeyHashPM", "WithKeyHashPNM", "WithRandomKey", "WithRandomKeyPM", "WithRandomKeyPNM"}
		var chains [][]string
		var rec func(ops []string)
		rec = func(ops []string) {
			chains = append(chains, append([]string{}, ops...))
			if len(ops) == mc.Pick(c, 2, 3) {
				return
			}
			for _, m := range c14Menu {
				rec(append(ops, m))
			}
		}
		rec(nil)
		c.Space("builder chains of depth <= 2 (3) x the 6 remaining constructors", int64(len(chains)*len(more)))
		c.ParFor(int64(len(chains)*len(more)), func(w *mc.W, i int64) {
			w.State()
			c14EvalBuilder(w, c14Bld{Ctor: more[i%int64(len(more))], Ops: chains[i/int64(len(more))]})
		})
	}
	// another builder's whole life inserted at every position (and at two) of a few base chains, all
	// ten constructors: builders must be independent of each other
	{
		all := []string{"WithKeyPNM", "WithKeyHash", "WithKey", "WithKeyPNM-badP", "WithKeyPM", "WithKeyHashPM", "WithKeyHashPNM", "WithRandomKey", "WithRandomKeyPM", "WithRandomKeyPNM"}
		bases := [][]string{{"AddEntry:a", "AddEntry:b", "Build"}, {"AddEntries:a,c", "SetP:32", "Build", "AddEntry:b", "Build"}, {"AddHash", "Key", "SetKey", "Build"}, {"SetM:1", "AddEntries:,b", "Build", "Key"}}
		var inter []c14Bld
		for _, ct := range all {
			for _, bs := range bases {
				for i := 0; i <= len(bs); i++ {
					for j := i; j <= len(bs); j++ {
						ops := append([]string{}, bs[:i]...)
						ops = append(ops, "Other")
						ops = append(ops, bs[i:j]...)
						if j > i {
							ops = append(ops, "Other")
						}
						ops = append(ops, bs[j:]...)
						inter = append(inter, c14Bld{Ctor: ct, Ops: ops})
					}
				}
			}
		}
		c.Space("builder chains with another builder's whole life inserted at one or two positions x 10 constructors", int64(len(inter)))
		c.ParFor(int64(len(inter)), func(w *mc.W, i int64) {
			w.State()
			c14EvalBuilder(w, inter[i])
		})
	}
	c.Sample("builder", c14Bld{Ctor: "WithKey", Ops: []string{"AddEntry:a", "SetP:33", "Build"}})
	runC14Seq(c)
}
