package props

import (
	"crypto/sha256"
	"fmt"
	"math/big"
	"strings"
	"sync"
	"time"
	"unicode"

	"github.com/gcash/bchd/chaincfg"
	"github.com/gcash/bchd/chaincfg/chainhash"
	"github.com/gcash/bchd/wire"
	"golang.org/x/crypto/ripemd160"

	"verif/ref"
)

// netParams binds the reference's hard-coded network table to the library's parameter sets.
var netParams = map[string]*chaincfg.Params{
	"mainnet":  &chaincfg.MainNetParams,
	"testnet3": &chaincfg.TestNet3Params,
	"testnet4": &chaincfg.TestNet4Params,
	"chipnet":  &chaincfg.ChipNetParams,
	"regtest":  &chaincfg.RegressionNetParams,
	"simnet":   &chaincfg.SimNetParams,
}

// customNet: a seventh network, registered with chaincfg.Register like an application would do, whose
// legacy version bytes (0x30 / 0x32) and CashAddr prefix are not those of any built-in network.  Only
// C02 uses it ("forall nets"; the other statements quantify over the six built-in networks).
var customNet = ref.Net{Name: "verifnet", CashPrefix: "verifnet", P2PKHID: 0x30, P2SHID: 0x32, WIFID: 0x64,
	HDPriv: [4]byte{0x04, 0x20, 0xb9, 0x00}, HDPub: [4]byte{0x04, 0x20, 0xbd, 0x3a}}

// siblingNet: an eighth parameter set for C02, NOT registered: a copy of the main network's parameters
// (same network magic, same legacy version bytes) under other CashAddr prefixes - what a fork of the
// chain passes to DecodeAddress.  Anything the library remembers per network must be keyed by what
// actually distinguishes parameter sets (here: the prefixes), not by the magic or the name.
var siblingNet = ref.Net{Name: "mainfork", CashPrefix: "bchfork", SlpPrefix: "slpfork", P2PKHID: 0x00, P2SHID: 0x05, WIFID: 0x80,
	HDPriv: [4]byte{0x04, 0x88, 0xad, 0xe4}, HDPub: [4]byte{0x04, 0x88, 0xb2, 0x1e}}

var customNetOnce sync.Once

func registerCustomNet() {
	customNetOnce.Do(func() {
		p := chaincfg.SimNetParams
		p.Name, p.Net = "verifnet", 0xfeedc0de
		p.LegacyPubKeyHashAddrID, p.LegacyScriptHashAddrID = customNet.P2PKHID, customNet.P2SHID
		p.CashAddressPrefix, p.SlpAddressPrefix = customNet.CashPrefix, ""
		if err := chaincfg.Register(&p); err != nil {
			panic("harness: cannot register the custom network: " + err.Error())
		}
		netParams["verifnet"] = &p
		q := chaincfg.MainNetParams
		q.CashAddressPrefix, q.SlpAddressPrefix = siblingNet.CashPrefix, siblingNet.SlpPrefix
		netParams[siblingNet.Name] = &q
	})
}

// checksumTwins: two distinct payloads gen(i), gen(j) whose Base58Check checksums (first four bytes of
// the double SHA-256) are equal, by birthday search (about 8e4 candidates).  A decoder that remembers
// results under a key derived from the already-verified checksum confuses them.
func checksumTwins(gen func(i uint32) []byte, limit uint32) (a, b []byte, ok bool) {
	seen := make(map[[4]byte]uint32, 1<<17)
	for i := uint32(0); i < limit; i++ {
		p := gen(i)
		d := ref.DoubleSHA256(p)
		k := [4]byte{d[0], d[1], d[2], d[3]}
		if j, dup := seen[k]; dup {
			return gen(j), p, true
		}
		seen[k] = i
	}
	return nil, nil, false
}

func refNet(name string) ref.Net {
	if name == customNet.Name {
		return customNet
	}
	if name == siblingNet.Name {
		return siblingNet
	}
	for _, n := range ref.Nets {
		if n.Name == name {
			return n
		}
	}
	panic("unknown net " + name)
}

func hash160(b []byte) []byte {
	s := sha256.Sum256(b)
	r := ripemd160.New()
	r.Write(s[:])
	return r.Sum(nil)
}

func hash256(b []byte) []byte {
	s := ref.DoubleSHA256(b)
	return s[:]
}

// hashFamily returns the structured hash values of n bytes: all-zero, all-one, walking one,
// walking zero, 256 byte fills, k leading zero bytes then ff.., k trailing zero bytes, counting.
// withPairs adds every two-bit pattern.
func hashFamily(n int, withPairs bool) [][]byte {
	var out [][]byte
	add := func(b []byte) { out = append(out, b) }
	z := make([]byte, n)
	add(append([]byte{}, z...))
	for f := 1; f < 256; f++ {
		b := make([]byte, n)
		for i := range b {
			b[i] = byte(f)
		}
		add(b)
	}
	for bit := 0; bit < 8*n; bit++ {
		b := make([]byte, n)
		b[bit/8] = 0x80 >> uint(bit%8)
		add(b)
		c := make([]byte, n)
		for i := range c {
			c[i] = 0xff
		}
		c[bit/8] ^= 0x80 >> uint(bit%8)
		add(c)
	}
	for k := 1; k < n; k++ {
		b := make([]byte, n)
		for i := k; i < n; i++ {
			b[i] = 0xff
		}
		add(b)
		c := make([]byte, n)
		for i := 0; i < n-k; i++ {
			c[i] = 0xff
		}
		add(c)
	}
	cnt := make([]byte, n)
	for i := range cnt {
		cnt[i] = byte(i + 1)
	}
	add(cnt)
	if withPairs {
		for i := 0; i < 8*n; i++ {
			for j := i + 1; j < 8*n; j++ {
				b := make([]byte, n)
				b[i/8] |= 0x80 >> uint(i%8)
				b[j/8] |= 0x80 >> uint(j%8)
				add(b)
			}
		}
	}
	return out
}

// testPoints: k*G for a spread of scalars plus the first points with a leading zero byte in X or Y.
type testPoint struct {
	K *big.Int
	P ref.Point
}

var (
	pointsOnce sync.Once
	points     []testPoint
)

// shortCoordScalars: scalars whose public point has a coordinate with TWO leading zero bytes (about
// one key in 65536 per coordinate; found once by scanning k = 2..400000 and re-verified here), in
// both parities of Y (k and n-k share X and have opposite Y parity).
func shortCoordScalars() []*big.Int {
	var out []*big.Int
	for _, e := range []struct {
		k     int64
		coord byte
	}{{44629, 'X'}, {63439, 'X'}, {41192, 'Y'}, {394851, 'Y'}} {
		k := big.NewInt(e.k)
		p := ref.SecBaseMulFast(k)
		if e.coord == 'X' && p.X.BitLen() > 240 || e.coord == 'Y' && p.Y.BitLen() > 240 {
			panic(fmt.Sprintf("harness: scalar %d does not have a short %c coordinate", e.k, e.coord))
		}
		out = append(out, k, new(big.Int).Sub(ref.SecN, k))
	}
	return out
}

func testPoints() []testPoint {
	pointsOnce.Do(func() {
		ks := []*big.Int{big.NewInt(1), big.NewInt(2), big.NewInt(3),
			new(big.Int).Sub(ref.SecN, big.NewInt(1)), new(big.Int).Sub(ref.SecN, big.NewInt(2)),
			new(big.Int).Lsh(big.NewInt(1), 128), new(big.Int).Lsh(big.NewInt(1), 255),
			new(big.Int).SetBytes([]byte("verif-key-0123456789abcdef-xyz!!"))}
		for _, k := range ks {
			points = append(points, testPoint{k, ref.SecBaseMul(k)})
		}
		for _, k := range shortCoordScalars() {
			points = append(points, testPoint{k, ref.SecBaseMul(k)})
		}
		// scan k = 4.. for short coordinates (leading zero byte), by repeated addition
		g := ref.SecG()
		p := ref.SecBaseMul(big.NewInt(3))
		found := 0
		// ... and for keys whose compressed hex form consists only of characters that are also in the
		// CashAddr alphabet (no '1', no 'b'): such a string is syntactically a CashAddr payload, so the
		// decoder's dispatch between the address syntaxes is exercised (about 1 key in 5000)
		ambiguous := 0
		for k := int64(4); k <= 60000 && (found < 8 || ambiguous < 3); k++ {
			p = ref.SecAdd(p, g)
			if found < 8 && (p.X.BitLen() <= 248 || p.Y.BitLen() <= 248) {
				points = append(points, testPoint{big.NewInt(k), p})
				found++
				continue
			}
			if ambiguous < 3 {
				hx := fmt.Sprintf("%x", p.Compressed())
				if !strings.ContainsAny(hx, "1b") {
					points = append(points, testPoint{big.NewInt(k), p})
					ambiguous++
				}
			}
		}
	})
	return points
}

// fixedHeader is wire.NewBlockHeader with a constant timestamp (NewBlockHeader stamps time.Now(),
// which would make block hashes — and everything derived from them — differ from run to run).
func fixedHeader(version int32, prev, merkle *chainhash.Hash, bits, nonce uint32) *wire.BlockHeader {
	h := wire.NewBlockHeader(version, prev, merkle, bits, nonce)
	h.Timestamp = time.Unix(1600000000, 0)
	return h
}

// asciiFoldRunes: every rune >= 0x80 whose simple upper/lower/title case mapping is an ASCII
// character (U+212A KELVIN SIGN -> k, U+017F LONG S -> S, U+0130/U+0131 dotted/dotless i, ...), taken
// from Go's own tables.  A decoder that case-folds with the Unicode-aware helpers turns such a rune
// into a valid ASCII symbol.
var asciiFoldRunes = func() []rune {
	var out []rune
	for r := rune(0x80); r < 0x30000; r++ {
		if unicode.ToLower(r) < 0x80 || unicode.ToUpper(r) < 0x80 || unicode.ToTitle(r) < 0x80 {
			out = append(out, r)
		}
	}
	return out
}()

// runeSubstitutions returns s with the character at each byte position replaced by each rune of
// asciiFoldRunes (UTF-8 encoded).
func runeSubstitutions(s string) []string {
	var out []string
	for pos := 0; pos < len(s); pos++ {
		for _, r := range asciiFoldRunes {
			out = append(out, s[:pos]+string(r)+s[pos+1:])
		}
		for _, r := range runeHypotheses(s[pos]) {
			out = append(out, s[:pos]+string(r)+s[pos+1:])
		}
	}
	return out
}

// runeHypotheses: the multi-byte characters that a decoder walking the string rune by rune (range
// over a string) instead of byte by byte may take for the ASCII character ch: runes whose low byte
// is ch (truncation by byte(r): U+0100+ch ... U+0800+ch, U+10000+ch, U+1F600-page), whose low seven
// bits are ch (U+0080+ch), and the fullwidth form (U+FEE0+ch).  Each is valid UTF-8, so none of its
// bytes is seen as U+FFFD.
func runeHypotheses(ch byte) []rune {
	if ch >= 0x80 {
		return nil
	}
	c := rune(ch)
	out := []rune{0x80 + c, 0x10000 + c, 0x1f600 + c, 0xe0000 + c}
	for k := rune(1); k <= 8; k++ {
		out = append(out, k<<8+c)
	}
	out = append(out, 0x2000+c, 0xff00+c)
	if c > 0x20 && c < 0x7f {
		out = append(out, 0xfee0+c)
	}
	return out
}

// checksumPatterns returns 4-byte XOR masks: every pattern of one or two flipped bits, every
// non-zero value on a single byte, and the same non-zero value on every pair (and on all four) of
// the bytes (patterns that cancel under a comparison that XOR-accumulates differences).
func checksumPatterns() [][4]byte {
	var out [][4]byte
	for a := 0; a < 32; a++ {
		var m [4]byte
		m[a/8] ^= 1 << uint(a%8)
		out = append(out, m)
		for b := a + 1; b < 32; b++ {
			m2 := m
			m2[b/8] ^= 1 << uint(b%8)
			out = append(out, m2)
		}
	}
	for v := 1; v < 256; v++ {
		for i := 0; i < 4; i++ {
			var m [4]byte
			m[i] = byte(v)
			out = append(out, m)
			for j := i + 1; j < 4; j++ {
				m2 := m
				m2[j] = byte(v)
				out = append(out, m2)
			}
		}
		out = append(out, [4]byte{byte(v), byte(v), byte(v), byte(v)})
	}
	return out
}
