package props

import (
	"bytes"
	"fmt"

	"github.com/gcash/bchd/wire"
	"github.com/gcash/bchutil/bloom"

	"verif/mc"
	"verif/ref"
)

// C09, two filters alive at once, used alternately by ONE caller.  The statement is about each
// filter: its bits and answers are BIP37's for its own size, function count and tweak, whatever
// other filter objects exist in the process and whatever was done with them in between.  Per-tweak
// or per-geometry tables shared between filters (a cache of seeds indexed by a few bits of the
// tweak, a scratch array sized by the last filter) are right for every filter on its own.
// Filter A is fixed; filter B's tweak runs through 0..1023 and a few far values (every residue a
// small table could be indexed by), its size and function count through three geometries.  The
// history is: A.Add(x); B.Add(y); B.Matches(y); A.Matches(x); A.Add(z); B.Matches(z)?; both bit
// arrays against the model.

type c09Pair struct {
	TweakA uint32 `json:"tweak_a"`
	TweakB uint32 `json:"tweak_b"`
	Geo    int    `json:"geometry_b"` // index into c09PairGeos
}

var c09PairGeos = [][2]uint32{{16, 3}, {16, 50}, {300, 3}} // (bytes, hash functions) of B; A is (16, 3)

func c09EvalPair(w *mc.W, cas c09Pair) {
	c := w.Ctx()
	w.Eval()
	g := c09PairGeos[cas.Geo]
	x, y, z := []byte("item-x"), []byte{0x02, 0x5a, 0x5a, 0x01}, []byte("zz")
	ma := ref.NewBloom(make([]byte, 16), 3, cas.TweakA, 0)
	mb := ref.NewBloom(make([]byte, g[0]), g[1], cas.TweakB, 0)
	msg, p := mc.Guard(func() {
		a := bloom.LoadFilter(wire.NewMsgFilterLoad(make([]byte, 16), 3, cas.TweakA, wire.BloomUpdateNone))
		b := bloom.LoadFilter(wire.NewMsgFilterLoad(make([]byte, g[0]), g[1], cas.TweakB, wire.BloomUpdateNone))
		a.Add(x)
		ma.Insert(x)
		b.Add(y)
		mb.Insert(y)
		w.Trans()
		if !b.Matches(y) {
			c.Violate("two-filters/false-negative", "pair", cas, "B does not contain the item it was just given")
			return
		}
		if !a.Matches(x) {
			c.Violate("two-filters/false-negative", "pair", cas, "A no longer contains its item after B was used")
			return
		}
		a.Add(z)
		ma.Insert(z)
		w.Trans()
		if got, want := b.Matches(z), mb.Contains(z); got != want {
			c.Violate("two-filters/answer-differs-from-bip37", "pair", cas, fmt.Sprintf("B.Matches(z) = %v, BIP37 on B's own bits says %v", got, want))
			return
		}
		if got, want := a.Matches(y), ma.Contains(y); got != want {
			c.Violate("two-filters/answer-differs-from-bip37", "pair", cas, fmt.Sprintf("A.Matches(y) = %v, BIP37 on A's own bits says %v", got, want))
			return
		}
		fa, fb := a.MsgFilterLoad(), b.MsgFilterLoad()
		if fa == nil || fb == nil || !bytes.Equal(fa.Filter, ma.Bytes()) || !bytes.Equal(fb.Filter, mb.Bytes()) {
			c.Violate("two-filters/bits-differ-from-bip37", "pair", cas, "after alternating use the bit array of one of the two filters is not the one BIP37 gives for its own parameters")
			return
		}
		w.Outcome("two filters used alternately: each is BIP37 for its own parameters")
	})
	if p {
		c.Violate("two-filters/panic", "pair", cas, msg)
	}
}

func runC09Pairs(c *mc.Ctx) {
	var cases []c09Pair
	for _, ta := range []uint32{0, 0x5eed0009} {
		for g := range c09PairGeos {
			for tb := uint32(0); tb < 1024; tb++ {
				cases = append(cases, c09Pair{TweakA: ta, TweakB: tb, Geo: g})
			}
			for _, tb := range []uint32{1 << 16, 1<<16 + 233, 1 << 24, 1<<31 + 1, 0xffffffff, ta + 1<<8, ta + 1<<16, ta ^ 0x80000000} {
				cases = append(cases, c09Pair{TweakA: ta, TweakB: tb, Geo: g})
			}
		}
	}
	c.Space("two filters used alternately: 2 tweaks of A x (tweaks 0..1023 and 8 far values of B) x 3 geometries of B", int64(len(cases)))
	w := c.Worker() // one after the other, in one goroutine: shared tables go from one pair to the next
	for _, cs := range cases {
		w.State()
		c09EvalPair(w, cs)
	}
	w.Done()
	c.Sample("pair", c09Pair{TweakA: 0, TweakB: 233, Geo: 0})
}
