package props

import (
	"fmt"
	"strings"
	"sync/atomic"

	"github.com/gcash/bchutil"
	"github.com/gcash/bchutil/bech32"

	"verif/mc"
	"verif/ref"
)

// C03, characters outside the alphabet.
//
// A substitution may put ANY character into the payload, not only one of the 32 letters.  A decoder
// that lets a foreign character c through necessarily turns it into some byte value v that it feeds
// to its checksum routine, and then accepts exactly the strings whose other symbols compensate for
// v at that position.  Which v that is cannot be seen from outside, and a weight-1 scan never sees
// it (the foreign character alone leaves a non-zero remainder).  So the hypothesis is enumerated:
// for every position j, every byte value v in 0..255 and every foreign character c, the unique
// string is constructed that a decoder mapping c -> v at position j would accept (its checksum
// symbols are solved for over GF(2) from the unit syndromes), and given to the real decoder, which
// must reject it.  Such a string differs in at most two positions (j, and j-1 for v >= 32, whose
// bits 5..7 overlap the previous symbol in the shift register) from a string that IS valid, so an
// acceptance is a violation of the statement.

type c03Foreign struct {
	Codec  string `json:"codec"` // "cashaddr" | "bech32"
	Str    string `json:"string_hex"`
	Pos    int    `json:"position"`
	Byte   int    `json:"foreign_byte"`
	Hyp    int    `json:"hypothetical_symbol_value"`
	Nearby string `json:"valid_string_within_two_substitutions,omitempty"`
}

func c03Decode(codec, s string) (accepted bool, panicMsg string, panicked bool) {
	var err error
	panicMsg, panicked = mc.Guard(func() {
		if codec == "bech32" {
			_, _, err = bech32.Decode(s)
		} else {
			_, _, err = bchutil.DecodeCashAddress(s)
		}
	})
	return err == nil && !panicked, panicMsg, panicked
}

func c03EvalForeign(w *mc.W, cas c03Foreign) {
	c := w.Ctx()
	w.Eval()
	w.Trace()
	s := string(mc.UnHex(cas.Str))
	ok, msg, p := c03Decode(cas.Codec, s)
	if p {
		c.Violate(cas.Codec+"-decoder-panics-on-corrupted-string", "foreign", cas, msg)
		return
	}
	if ok {
		c.Violate(cas.Codec+"-accepts-a-character-outside-the-alphabet", "foreign", cas,
			fmt.Sprintf("%q is accepted: byte %#02x at payload position %d is taken for the value %d; the valid string %q differs from it in <= 2 positions", s, cas.Byte, cas.Pos, cas.Hyp, cas.Nearby))
	}
}

// specification shift registers over arbitrary byte values
func cashPolyBytes(v []int) uint64 {
	c := uint64(1)
	for _, d := range v {
		c0 := byte(c >> 35)
		c = ((c & 0x07ffffffff) << 5) ^ uint64(d)
		for i, g := range []uint64{0x98f2bc8e61, 0x79b76d99e2, 0xf33e5fb3c4, 0xae2eabe2a8, 0x1e4f43e470} {
			if c0>>uint(i)&1 == 1 {
				c ^= g
			}
		}
	}
	return c ^ 1
}

func bechPolyInts(v []int) uint64 {
	chk := uint32(1)
	for _, d := range v {
		b := chk >> 25
		chk = (chk&0x1ffffff)<<5 ^ uint32(d)
		for i, g := range []uint32{0x3b6a57b2, 0x26508e6d, 0x1ea119fa, 0x3d4233dd, 0x2a1462b3} {
			if b>>uint(i)&1 == 1 {
				chk ^= g
			}
		}
	}
	return uint64(chk ^ 1)
}

// c03SeqSyn: remainder (0 = valid) of prefix/hrp + a sequence of byte values, through the hooked real
// routine when it is available, otherwise through the specification's shift register.
func c03SeqSyn(codec, prefix string, seq []int) uint64 {
	if codec == "bech32" {
		var v []int
		if hookBechHrpExpand != nil {
			v = hookBechHrpExpand(prefix)
		} else {
			for i := 0; i < len(prefix); i++ {
				v = append(v, int(prefix[i]>>5))
			}
			v = append(v, 0)
			for i := 0; i < len(prefix); i++ {
				v = append(v, int(prefix[i]&31))
			}
		}
		v = append(append([]int{}, v...), seq...)
		if hookBechPolymod != nil {
			return uint64(hookBechPolymod(v) ^ 1)
		}
		return bechPolyInts(v)
	}
	if hookCashPolyMod != nil {
		b := make([]byte, 0, len(prefix)+1+len(seq))
		for i := 0; i < len(prefix); i++ {
			b = append(b, prefix[i]&0x1f)
		}
		b = append(b, 0)
		for _, x := range seq {
			b = append(b, byte(x))
		}
		return hookCashPolyMod(b)
	}
	v := make([]int, 0, len(prefix)+1+len(seq))
	for i := 0; i < len(prefix); i++ {
		v = append(v, int(prefix[i]&0x1f))
	}
	v = append(v, 0)
	return cashPolyBytes(append(v, seq...))
}

type gf2Solver struct {
	piv, comb [64]uint64
	has       [64]bool
}

func (g *gf2Solver) insert(v uint64, k int) {
	m := uint64(1) << uint(k)
	for bit := 63; bit >= 0; bit-- {
		if v>>uint(bit)&1 == 0 {
			continue
		}
		if g.has[bit] {
			v ^= g.piv[bit]
			m ^= g.comb[bit]
		} else {
			g.piv[bit], g.comb[bit], g.has[bit] = v, m, true
			return
		}
	}
}

func (g *gf2Solver) solve(t uint64) (uint64, bool) {
	m := uint64(0)
	for bit := 63; bit >= 0; bit-- {
		if t>>uint(bit)&1 == 0 {
			continue
		}
		if !g.has[bit] {
			return 0, false
		}
		t ^= g.piv[bit]
		m ^= g.comb[bit]
	}
	return m, true
}

type c03Tmpl struct {
	v    int
	str  []byte // the full string; the byte at the foreign position is a placeholder
	near string // the valid string within two substitutions
}

// c03ForeignTemplates: for position j of the payload and every byte value v, the string that a
// decoder taking the character at j for v would accept.
func c03ForeignTemplates(codec, prefix, sep, payload, charset string, nck, j int) (out []c03Tmpl, unsolved int) {
	L := len(payload)
	base := make([]int, L)
	for i := 0; i < L; i++ {
		base[i] = strings.IndexByte(charset, payload[i])
	}
	// free positions: the last nck, or the last nck+1 without j
	var free []int
	for i := L - 1; i >= 0 && len(free) < nck; i-- {
		if i != j {
			free = append(free, i)
		}
	}
	zero := append([]int{}, base...)
	for _, f := range free {
		zero[f] = 0
	}
	s0 := c03SeqSyn(codec, prefix, zero)
	var g gf2Solver
	for k, f := range free {
		for b := 0; b < 5; b++ {
			m := append([]int{}, zero...)
			m[f] = 1 << uint(b)
			g.insert(c03SeqSyn(codec, prefix, m)^s0, k*5+b)
		}
	}
	off := len(prefix) + len(sep)
	for v := 0; v < 256; v++ {
		seq := append([]int{}, zero...)
		seq[j] = v
		x, ok := g.solve(c03SeqSyn(codec, prefix, seq))
		if !ok {
			unsolved++
			continue
		}
		for k, f := range free {
			seq[f] = int(x >> uint(k*5) & 31)
		}
		if c03SeqSyn(codec, prefix, seq) != 0 {
			unsolved++ // the routine is not linear here: other C03 checks report that
			continue
		}
		// the valid neighbour: v's low five bits at j, its bits 5..7 folded into position j-1
		near := make([]byte, L)
		for i := 0; i < L; i++ {
			near[i] = charset[seq[i]&31]
		}
		if j > 0 {
			near[j-1] = charset[(seq[j-1]^(v>>5))&31]
		}
		str := []byte(prefix + sep + string(near))
		for i := 0; i < L; i++ {
			if i != j {
				str[off+i] = charset[seq[i]&31]
			}
		}
		out = append(out, c03Tmpl{v: v, str: str, near: prefix + sep + string(near)})
	}
	return
}

// c03ForeignSweep runs the enumeration for one valid base string.  full = prefix + separator +
// payload part; the payload part has L symbols of which the last nck are the checksum.
func c03ForeignSweep(c *mc.Ctx, codec, prefix, sep, payload, charset string, nck int) {
	L := len(payload)
	base := make([]int, L)
	for i := 0; i < L; i++ {
		base[i] = strings.IndexByte(charset, payload[i])
	}
	if c03SeqSyn(codec, prefix, base) != 0 {
		c.Violate(codec+"-remainder-of-valid-string-is-not-zero", "foreign", c03Foreign{Codec: codec, Str: mc.Hex([]byte(prefix + sep + payload))}, "the checksum routine does not give a zero remainder on a valid string (other C03 checks report the details)")
		return
	}
	isLetter := [256]bool{}
	for i := 0; i < len(charset); i++ {
		isLetter[charset[i]] = true
	}
	var unsolved, decodes atomic.Int64
	var bad atomic.Int64
	c.Space(fmt.Sprintf("%s %q L=%d: position x hypothetical byte value 0..255 x every character outside the alphabet x {lower, upper} spelling", codec, prefix, L), int64(L*256))
	c.ParFor(int64(L), func(w *mc.W, ji int64) {
		j := int(ji)
		tmpls, uns := c03ForeignTemplates(codec, prefix, sep, payload, charset, nck, j)
		unsolved.Add(int64(uns))
		off := len(prefix) + len(sep)
		for _, t := range tmpls {
			w.State()
			v, str, near := t.v, t.str, []byte(t.near[off:])
			for spelling := 0; spelling < 2; spelling++ {
				s := append([]byte{}, str...)
				if spelling == 1 {
					s = []byte(strings.ToUpper(string(s)))
				}
				for cb := 0; cb < 256; cb++ {
					ch := byte(cb)
					lower := ch
					if ch >= 'A' && ch <= 'Z' {
						lower = ch + 32
					}
					if spelling == 0 && isLetter[ch] || spelling == 1 && !(ch >= 'a' && ch <= 'z') && isLetter[lower] {
						continue // a letter of the alphabet in the string's own case: not foreign
					}
					s[off+j] = ch
					w.Eval()
					w.Trace()
					w.Trans()
					decodes.Add(1)
					if j == 5 && v == 255 && cb == '1' && spelling == 0 {
						c.Sample("foreign", c03Foreign{Codec: codec, Str: mc.Hex(s), Pos: j, Byte: cb, Hyp: v, Nearby: prefix + sep + string(near)})
					}
					ok, msg, p := c03Decode(codec, string(s))
					if (ok || p) && bad.Add(1) <= 3 {
						cas := c03Foreign{Codec: codec, Str: mc.Hex(s), Pos: j, Byte: cb, Hyp: v, Nearby: prefix + sep + string(near)}
						if p {
							c.Violate(codec+"-decoder-panics-on-corrupted-string", "foreign", cas, msg)
						} else {
							c03EvalForeign(w, cas)
						}
					}
				}
			}
		}
		w.Outcome(codec + ": every hypothesis of a foreign character at this position rejected")
	})
	c.Note(fmt.Sprintf("foreign_characters_%s_%s_L%d", codec, prefix, L), map[string]any{"decoder_calls": decodes.Load(), "hypotheses_without_a_solution": unsolved.Load()})
}

func runC03Foreign(c *mc.Ctx) {
	// self-test of the specification shift registers against the reference long division
	{
		b := c03CashBase("bitcoincash", 42)
		seq := make([]int, len(b))
		for i := range seq {
			seq[i] = strings.IndexByte(ref.CashCharset, b[i])
		}
		v := []int{}
		for i := 0; i < len("bitcoincash"); i++ {
			v = append(v, int("bitcoincash"[i]&0x1f))
		}
		v = append(v, 0)
		if cashPolyBytes(append(v, seq...)) != 0 {
			panic("harness: cashPolyBytes does not accept a reference-encoded string")
		}
		seq[3] ^= 5
		sy := make([]byte, len(seq))
		for i := range seq {
			sy[i] = byte(seq[i])
		}
		if cashPolyBytes(append(v, seq...)) != refCashSyn("bitcoincash", sy) {
			panic("harness: cashPolyBytes disagrees with the reference remainder")
		}
	}
	cl := []int{42, 61}
	prefixes := []string{"bitcoincash"}
	if c.Thorough() {
		cl = cashLens
		prefixes = []string{"bitcoincash", "simpleledger", "bchtest"}
	}
	for _, p := range prefixes {
		for _, L := range cl {
			c03ForeignSweep(c, "cashaddr", p, ":", c03CashBase(p, L), ref.CashCharset, 8)
		}
	}
	bl := []int{14, 88}
	if c.Thorough() {
		bl = []int{7, 14, 39, 59, 88}
	}
	for _, L := range bl {
		full := c03BechBase("a", L)
		c03ForeignSweep(c, "bech32", "a", "1", full[2:], ref.Bech32Charset, 6)
	}
	if c.Thorough() {
		full := c03BechBase("bc", 59)
		c03ForeignSweep(c, "bech32", "bc", "1", full[3:], ref.Bech32Charset, 6)
	}
}

// Inputs that contain the algorithm's own constants.  A remainder routine can only be compared with
// the specification on the inputs one feeds it; besides the unit vectors and the structured base
// strings, the five generator constants of each code are spelled out as windows of symbols (most and
// least significant symbol first) at every alignment of strings of every standard length, over a
// zero background and over the base string, and the hooked routine must equal the specification's
// shift register there.  (Without the hook the family is skipped: the decoder alone does not reveal
// the remainder of an invalid string.)
func runC03Constants(c *mc.Ctx) {
	if hookCashPolyMod == nil && hookBechPolymod == nil {
		c.Note("constant_windows", "skipped: no remainder hook in this build")
		return
	}
	type job struct {
		codec, prefix string
		L, width      int
		consts        []uint64
	}
	var jobs []job
	if hookCashPolyMod != nil {
		for _, L := range cashLens {
			jobs = append(jobs, job{"cashaddr", "bitcoincash", L, 8, []uint64{0x98f2bc8e61, 0x79b76d99e2, 0xf33e5fb3c4, 0xae2eabe2a8, 0x1e4f43e470, 0x07ffffffff}})
		}
	}
	if hookBechPolymod != nil {
		for _, L := range []int{14, 39, 59, 88} {
			jobs = append(jobs, job{"bech32", "a", L, 6, []uint64{0x3b6a57b2, 0x26508e6d, 0x1ea119fa, 0x3d4233dd, 0x2a1462b3, 0x1ffffff}})
		}
	}
	var n atomic.Int64
	for _, jb := range jobs {
		jb := jb
		var base []int
		if jb.codec == "cashaddr" {
			p := c03CashBase(jb.prefix, jb.L)
			for i := 0; i < len(p); i++ {
				base = append(base, strings.IndexByte(ref.CashCharset, p[i]))
			}
		} else {
			p := c03BechBase(jb.prefix, jb.L)[len(jb.prefix)+1:]
			for i := 0; i < len(p); i++ {
				base = append(base, strings.IndexByte(ref.Bech32Charset, p[i]))
			}
		}
		c.ParFor(int64(jb.L-jb.width+1), func(w *mc.W, t int64) {
			for _, k := range jb.consts {
				for order := 0; order < 2; order++ {
					for bg := 0; bg < 2; bg++ {
						seq := make([]int, jb.L)
						if bg == 1 {
							copy(seq, base)
						}
						for i := 0; i < jb.width; i++ {
							sh := uint(5 * (jb.width - 1 - i))
							if order == 1 {
								sh = uint(5 * i)
							}
							seq[int(t)+i] = int(k >> sh & 31)
						}
						w.Eval()
						w.State()
						n.Add(1)
						got := c03SeqSyn(jb.codec, jb.prefix, seq)
						var want uint64
						if jb.codec == "cashaddr" {
							v := []int{}
							for i := 0; i < len(jb.prefix); i++ {
								v = append(v, int(jb.prefix[i]&0x1f))
							}
							want = cashPolyBytes(append(append(v, 0), seq...))
						} else {
							v := []int{}
							for i := 0; i < len(jb.prefix); i++ {
								v = append(v, int(jb.prefix[i]>>5))
							}
							v = append(v, 0)
							for i := 0; i < len(jb.prefix); i++ {
								v = append(v, int(jb.prefix[i]&31))
							}
							want = bechPolyInts(append(v, seq...))
						}
						if got != want {
							sy := make([]byte, len(seq))
							for i := range seq {
								sy[i] = byte(seq[i])
							}
							c.Violate(jb.codec+"-remainder-differs-from-spec-on-a-constant-window", "window", map[string]any{"codec": jb.codec, "prefix": jb.prefix, "symbols_hex": mc.Hex(sy)},
								fmt.Sprintf("symbols %x (the constant %#x at offset %d): routine gives %#x, the specification %#x", sy, k, t, got, want))
							return
						}
					}
				}
			}
		})
	}
	c.Space("remainder routine vs specification on strings containing the generator constants as symbol windows (every alignment, two symbol orders, two backgrounds)", n.Load())
}

type c03Window struct {
	Codec   string `json:"codec"`
	Prefix  string `json:"prefix"`
	Symbols string `json:"symbols_hex"`
}

// c03EvalWindow (replay): the hooked remainder routine against the specification on one symbol string.
func c03EvalWindow(w *mc.W, cas c03Window) {
	w.Eval()
	var seq []int
	for _, b := range mc.UnHex(cas.Symbols) {
		seq = append(seq, int(b))
	}
	got := c03SeqSyn(cas.Codec, cas.Prefix, seq)
	var v []int
	var want uint64
	if cas.Codec == "cashaddr" {
		for i := 0; i < len(cas.Prefix); i++ {
			v = append(v, int(cas.Prefix[i]&0x1f))
		}
		want = cashPolyBytes(append(append(v, 0), seq...))
	} else {
		for i := 0; i < len(cas.Prefix); i++ {
			v = append(v, int(cas.Prefix[i]>>5))
		}
		v = append(v, 0)
		for i := 0; i < len(cas.Prefix); i++ {
			v = append(v, int(cas.Prefix[i]&31))
		}
		want = bechPolyInts(append(v, seq...))
	}
	if got != want {
		w.Ctx().Violate(cas.Codec+"-remainder-differs-from-spec-on-a-constant-window", "window", cas, fmt.Sprintf("routine %#x, specification %#x", got, want))
	}
}

// Case as a substitution.  Replacing a letter by its other-case form is a substitution of a character
// too.  A uniformly upper-case spelling of a whole valid string denotes the same code word (BIP173 and
// the CashAddr specification say so; the statement's "two different valid strings" are different code
// words), but every MIXED spelling must be rejected - in particular the one that keeps the prefix in
// one case and puts the whole payload into the other, which costs only as many substitutions as the
// payload has letters.  Valid strings whose payload part has at most five (bech32: four) letters are
// constructed (data symbols that are digits, checksum searched), and every mixed-case spelling of them
// - every non-empty proper subset of the payload letters flipped, with the prefix in either case - is
// given to the decoders.
func runC03Case(c *mc.Ctx) {
	isDigitSym := func(cs string, v int) bool { return cs[v] >= '0' && cs[v] <= '9' }
	var digitSyms []int
	for v := 0; v < 32; v++ {
		if isDigitSym(ref.CashCharset, v) {
			digitSyms = append(digitSyms, v)
		}
	}
	letters := func(s string) (pos []int) {
		for i := 0; i < len(s); i++ {
			if s[i] >= 'a' && s[i] <= 'z' {
				pos = append(pos, i)
			}
		}
		return
	}
	var n atomic.Int64
	flipAll := func(codec, prefix, sep, payload string, maxLetters int) {
		lp := letters(payload)
		if len(lp) == 0 || len(lp) > maxLetters {
			return
		}
		for mask := 1; mask < 1<<uint(len(lp)); mask++ {
			b := []byte(payload)
			for k, p := range lp {
				if mask>>uint(k)&1 == 1 {
					b[p] -= 32
				}
			}
			for _, pre := range []string{prefix, strings.ToUpper(prefix)} {
				s := pre + sep + string(b)
				uniform := s == strings.ToUpper(s) || s == strings.ToLower(s)
				if uniform {
					continue // the all-upper spelling of the whole string is the same code word
				}
				n.Add(1)
				w := c.Worker()
				w.Eval()
				w.State()
				ok, msg, p := c03Decode(codec, s)
				if p {
					c.Violate(codec+"-decoder-panics-on-corrupted-string", "foreign", c03Foreign{Codec: codec, Str: mc.Hex([]byte(s))}, msg)
				} else if ok {
					c.Violate(codec+"-accepts-a-mixed-case-spelling", "foreign", c03Foreign{Codec: codec, Str: mc.Hex([]byte(s)), Nearby: prefix + sep + payload},
						fmt.Sprintf("%q is accepted; it differs from the valid string %q in %d characters of the payload part", s, prefix+sep+payload, popcount(mask)))
				}
				w.Done()
			}
		}
	}
	// CashAddr: 160-bit P2PKH, data symbols digits wherever the format allows
	found := 0
	for ctr := 0; ctr < 200000 && found < 4; ctr++ {
		sym := make([]byte, 34)
		x := ctr
		for i := 2; i < 33; i++ {
			sym[i] = byte(digitSyms[x%len(digitSyms)])
			x /= len(digitSyms)
			if x == 0 {
				x = ctr + i
			}
		}
		sym[33] = 20 // '5': the two padding bits are zero
		s := ref.CashEncodeSymbols("bitcoincash", sym)
		if len(letters(s)) <= 5 {
			found++
			if _, _, err := bchutil.DecodeCashAddress("bitcoincash:" + s); err != nil {
				continue // a decoder that refuses the base makes the family vacuous for it
			}
			flipAll("cashaddr", "bitcoincash", ":", s, 5)
		}
	}
	c.Note("mixed_case_cashaddr_bases_with_at_most_5_letters", found)
	// bech32: hrp "a", data symbols digits, checksum searched for <= 4 letters in the whole data part
	var bdig []int
	for v := 0; v < 32; v++ {
		if isDigitSym(ref.Bech32Charset, v) {
			bdig = append(bdig, v)
		}
	}
	bfound := 0
	for ctr := 0; ctr < 200000 && bfound < 4; ctr++ {
		d := make([]byte, 10)
		x := ctr
		for i := range d {
			d[i] = byte(bdig[x%len(bdig)])
			x = x/len(bdig) + i
		}
		full, _ := ref.Bech32Encode("a", d)
		if data := full[2:]; len(letters(data)) >= 1 && len(letters(data)) <= 4 {
			bfound++
			flipAll("bech32", "a", "1", data, 4)
		}
	}
	c.Note("mixed_case_bech32_bases_with_at_most_4_letters", bfound)
	// case by LETTER on ordinary strings (every symbol of the alphabet occurs): in the upper-case string
	// all occurrences of one letter in lower case, and the other way round, for every letter; every
	// single character of the upper-case string in lower case.  A case test with a slip at one end of
	// the alphabet ('a', 'z', 'A', 'Z') misses exactly these letters.
	{
		try := func(codec, s, near string) {
			if s == strings.ToUpper(s) || s == strings.ToLower(s) {
				return
			}
			n.Add(1)
			w := c.Worker()
			w.Eval()
			w.State()
			ok, msg, p := c03Decode(codec, s)
			if p {
				c.Violate(codec+"-decoder-panics-on-corrupted-string", "foreign", c03Foreign{Codec: codec, Str: mc.Hex([]byte(s))}, msg)
			} else if ok {
				c.Violate(codec+"-accepts-a-mixed-case-spelling", "foreign", c03Foreign{Codec: codec, Str: mc.Hex([]byte(s)), Nearby: near}, fmt.Sprintf("%q is accepted", s))
			}
			w.Done()
		}
		bb := c03BechBase("bc", 39)
		for _, base := range [][2]string{{"cashaddr", "bitcoincash:" + c03CashBase("bitcoincash", 42)}, {"cashaddr", "bchtest:" + c03CashBase("bchtest", 61)}, {"bech32", bb}} {
			lo, up := strings.ToLower(base[1]), strings.ToUpper(base[1])
			for ch := byte('a'); ch <= 'z'; ch++ {
				if strings.IndexByte(lo, ch) < 0 {
					continue
				}
				m1, m2 := []byte(up), []byte(lo)
				for i := range m1 {
					if lo[i] == ch {
						m1[i], m2[i] = ch, ch-32
					}
				}
				try(base[0], string(m1), lo)
				try(base[0], string(m2), lo)
			}
			for i := 0; i < len(up); i++ {
				if up[i] >= 'A' && up[i] <= 'Z' {
					m := []byte(up)
					m[i] += 32
					try(base[0], string(m), lo)
				}
			}
		}
	}
	c.Space("mixed-case spellings of valid strings whose payload has <= 5 (4) letters: every subset of the letters flipped x prefix in either case; case by letter and single lower-case characters in upper-case strings", n.Load())
}

func popcount(m int) int {
	n := 0
	for ; m != 0; m &= m - 1 {
		n++
	}
	return n
}
