package props

import (
	"fmt"

	"verif/mc"
)

// C14, builds one after the other.  Every encoded set of c14.go is judged on its own; scratch space
// that BuildGCSFilter keeps between calls (a pooled slice of hashed values that is handed out at its
// previous length, a table sized by the last set) is right for the first build of a process and for
// ascending or equal sizes.  Every ordered pair over a ladder of set sizes on both sides of 2^12,
// 2^13, 2^15 and 2^16 - so that a smaller set follows a larger one within any plausible pooling
// window - is built in one goroutine, each build through the complete single-set oracle (bytes =
// Golomb-Rice encoding of the sorted reduced hashes, N, filter hash and header).

type c14EncSeq struct {
	Counts []int  `json:"set_sizes"`
	P      uint8  `json:"p"`
	M      uint64 `json:"m"`
}

func c14EvalEncSeq(w *mc.W, cas c14EncSeq) {
	c := w.Ctx()
	for pos, n := range cas.Counts {
		before := c.Violations()
		c14EvalEncode(w, c14Enc{Key: pos % 2, P: cas.P, M: cas.M, Count: n})
		if c.Violations() > before && pos > 0 {
			c.Violate("wrong-after-an-earlier-build-of-another-set", "encseq", cas, fmt.Sprintf("build %d of the sequence (%d elements) fails the single-set oracle here; see the violation recorded for it", pos+1, n))
			return
		}
	}
	w.Outcome("sequence of builds: each judged in full, one after the other")
}

func runC14Seq(c *mc.Ctx) {
	if !mc.Shard0() {
		return
	}
	sizes := []int{300, 4095, 4096, 5000, 8192, 8193, 20000, 32768, 32769, 70000}
	var cases []c14EncSeq
	for _, a := range sizes {
		for _, b := range sizes {
			cases = append(cases, c14EncSeq{Counts: []int{a, b}, P: 19, M: 784931})
		}
	}
	cases = append(cases, c14EncSeq{Counts: []int{20000, 6000, 20000, 4096, 300}, P: 19, M: 784931},
		c14EncSeq{Counts: []int{32768, 32767, 4097, 4096, 4095}, P: 8, M: 200},
		c14EncSeq{Counts: []int{70000, 65536, 65535, 300}, P: 32, M: 1<<32 - 1})
	c.Space("ordered pairs over 10 set sizes (300 .. 70000, both sides of 2^12, 2^13, 2^15, 2^16) and 3 longer sequences, every build through the full single-set oracle, sequentially", int64(len(cases)))
	w := c.Worker()
	for _, cs := range cases {
		w.State()
		c14EvalEncSeq(w, cs)
	}
	w.Done()
	c.Sample("encseq", c14EncSeq{Counts: []int{20000, 6000}, P: 19, M: 784931})
}
