package props

import (
	"bytes"
	"fmt"

	"github.com/gcash/bchd/chaincfg/chainhash"
	"github.com/gcash/bchd/wire"
	"github.com/gcash/bchutil"
	"github.com/gcash/bchutil/bloom"

	"verif/mc"
	"verif/ref"
)

// C10, histories on ONE filter.  The statement is about every call: what MatchTxAndUpdate answers
// and inserts depends on the filter as it is at that call and on the transaction, not on which
// transactions the object was offered before.  The single-transaction family starts from a fresh
// filter every time; here every sequence of <= 4 (5) operations over a menu of insertions and
// transactions runs on one real filter and on the BIP37 model side by side: answers after every
// operation and the filter bytes at the end.  Transactions: A pays K1 and K2 (two pay-to-pubkey
// outputs), B pays H1, C spends A's second output, D spends A's first output, E is unrelated.
// The same transaction offered again after the filter gained an element must have its newly
// matching outputs' outpoints inserted.

type c10Hist struct {
	Flags int      `json:"flags"`
	Ops   []string `json:"ops"` // add:K1 | add:K2 | add:H1 | tx:A | tx:B | tx:C | tx:D | tx:E
}

var c10HistMenu = []string{"add:K1", "add:K2", "add:H1", "tx:A", "tx:B", "tx:C", "tx:D", "tx:E"}

func c10HistTx(name string) *wire.MsgTx {
	push := func(b []byte) []byte { return append([]byte{byte(len(b))}, b...) }
	tx := wire.NewMsgTx(1)
	switch name {
	case "A":
		tx.AddTxIn(wire.NewTxIn(&wire.OutPoint{Hash: chainhash.Hash{0x11, 0x11}, Index: 0}, nil))
		tx.AddTxOut(wire.NewTxOut(1, append(push(c10K1), 0xac), wire.TokenData{}))
		tx.AddTxOut(wire.NewTxOut(2, append(push(c10K2), 0xac), wire.TokenData{}))
	case "B":
		tx.AddTxIn(wire.NewTxIn(&wire.OutPoint{Hash: chainhash.Hash{0x22, 0x22}, Index: 3}, []byte{0x51}))
		tx.AddTxOut(wire.NewTxOut(3, append(append([]byte{0x76, 0xa9}, push(c10H1)...), 0x88, 0xac), wire.TokenData{}))
	case "C", "D":
		a := c10HistTx("A").TxHash()
		idx := uint32(1)
		if name == "D" {
			idx = 0
		}
		tx.AddTxIn(wire.NewTxIn(&wire.OutPoint{Hash: a, Index: idx}, nil))
		tx.AddTxOut(wire.NewTxOut(4, []byte{0x51}, wire.TokenData{}))
	case "E":
		tx.AddTxIn(wire.NewTxIn(&wire.OutPoint{Hash: chainhash.Hash{0x55}, Index: 1}, []byte{0x52}))
		tx.AddTxOut(wire.NewTxOut(5, []byte{0x52}, wire.TokenData{}))
	default:
		panic("c10: unknown history transaction " + name)
	}
	return tx
}

func c10EvalHist(w *mc.W, cas c10Hist) {
	c := w.Ctx()
	w.Eval()
	model := ref.NewBloom(make([]byte, 512), 10, 0x5eed, byte(cas.Flags))
	f := bloom.LoadFilter(wire.NewMsgFilterLoad(make([]byte, 512), 10, 0x5eed, wire.BloomUpdateType(cas.Flags)))
	data := map[string][]byte{"K1": c10K1, "K2": c10K2, "H1": c10H1}
	msg, p := mc.Guard(func() {
		for i, op := range cas.Ops {
			w.Trans()
			if op[:4] == "add:" {
				f.Add(data[op[4:]])
				model.Insert(data[op[4:]])
				continue
			}
			tx := c10HistTx(op[3:])
			got := f.MatchTxAndUpdate(bchutil.NewTx(tx))
			want := model.MatchTx(c10RefTx(tx), true, true)
			if got != want {
				c.Violate("answer-depends-on-earlier-calls", "hist", cas, fmt.Sprintf("operation %d (%s): got %v, the BIP37 scan of the filter as it is now says %v", i+1, op, got, want))
				return
			}
		}
		if m := f.MsgFilterLoad(); m == nil || !bytes.Equal(m.Filter, model.Bytes()) {
			c.Violate("filter-after-a-history-differs-from-bip37", "hist", cas, "an outpoint that the statement says is inserted is missing, or one was inserted that should not be")
			return
		}
		w.Outcome("history on one filter agrees with the model")
	})
	if p {
		c.Violate("matchtxandupdate-panics", "hist", cas, msg)
	}
}

func runC10Hist(c *mc.Ctx) {
	depth := mc.Pick(c, 4, 5)
	var cases []c10Hist
	var rec func(ops []string)
	rec = func(ops []string) {
		if len(ops) > 0 {
			for fl := 0; fl < 3; fl++ {
				cases = append(cases, c10Hist{Flags: fl, Ops: append([]string{}, ops...)})
			}
		}
		if len(ops) == depth {
			return
		}
		for _, m := range c10HistMenu {
			rec(append(ops, m))
		}
	}
	rec(nil)
	c.Space(fmt.Sprintf("histories of <= %d operations over {3 insertions, 5 transactions} on one filter x 3 update flags", depth), int64(len(cases)))
	c.ParFor(int64(len(cases)), func(w *mc.W, i int64) {
		w.State()
		c10EvalHist(w, cases[i])
	})
	c.Sample("hist", c10Hist{Flags: 1, Ops: []string{"add:K1", "tx:A", "add:K2", "tx:A", "tx:C"}})
}
