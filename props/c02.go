package props

import (
	"bytes"
	"encoding/hex"
	"encoding/json"
	"fmt"
	"math/big"
	"strings"
	"sync/atomic"
	"unicode/utf8"

	"github.com/gcash/bchutil"

	"verif/mc"
	"verif/ref"
)

// C02 — decoding is strict, canonical and network-separating.

func init() {
	register(&Prop{ID: "C02", Run: runC02, Replay: map[string]func(*mc.Ctx, json.RawMessage){
		"cash":   replayer(c02EvalCash),
		"legacy": replayer(c02EvalLegacy),
		"pubhex": replayer(c02EvalPub),
		"str":    replayer(c02EvalStr),
	}})
}

// c02Cash describes one constructed CashAddr string: valid checksum (unless Corrupt) over an
// arbitrary payload.
type c02Cash struct {
	Net     string `json:"net"`
	Prefix  string `json:"prefix"`  // prefix the checksum is computed under
	Version int    `json:"version"` // version byte 0..255
	Len     int    `json:"len"`     // payload length in bytes after the version byte
	Fill    int    `json:"fill"`    // 0: zero bytes, 1: a5 5a a5 ...
	Pad     int    `json:"pad"`     // value of the pad bits of the last symbol; -1: one extra all-zero symbol
	Corrupt bool   `json:"corrupt"` // flip one bit of the last checksum symbol
	Render  int    `json:"render"`  // 0 bare lower, 1 bare UPPER, 2 prefix:lower, 3 PREFIX:UPPER, 4 prefix:UPPER (mixed), 5 bare MiXed
}

var c02Prefixes = []string{"bitcoincash", "bchtest", "bchreg", "bchsim", "simpleledger", "slptest", "slpreg", "foo", "bchfork", "slpfork"}

func (cas c02Cash) build() (s string, prefixed string) {
	body := []byte{byte(cas.Version)}
	for i := 0; i < cas.Len; i++ {
		switch cas.Fill {
		case 0:
			body = append(body, 0)
		default:
			if i%2 == 0 {
				body = append(body, 0xa5)
			} else {
				body = append(body, 0x5a)
			}
		}
	}
	sym, _, _ := ref.Regroup(body, 8, 5, true)
	padBits := (5 - (8*len(body))%5) % 5
	if cas.Pad == -1 {
		sym = append(sym, 0)
	} else if padBits > 0 {
		sym[len(sym)-1] |= byte(cas.Pad) & (1<<uint(padBits) - 1)
	}
	payload := ref.CashEncodeSymbols(cas.Prefix, sym)
	if cas.Corrupt {
		b := []byte(payload)
		k := strings.IndexByte(ref.CashCharset, b[len(b)-1])
		b[len(b)-1] = ref.CashCharset[k^1]
		payload = string(b)
	}
	prefixed = cas.Prefix + ":" + payload
	switch cas.Render {
	case 0:
		s = payload
	case 1:
		s = strings.ToUpper(payload)
	case 2:
		s = prefixed
	case 3:
		s = strings.ToUpper(prefixed)
	case 4:
		s = cas.Prefix + ":" + strings.ToUpper(payload)
	case 5:
		b := []byte(payload)
		for i := 0; i < len(b); i += 2 {
			if b[i] >= 'a' && b[i] <= 'z' {
				b[i] -= 32
			}
		}
		s = string(b)
	}
	return
}

// fold applies the documented normalisations: ASCII lower-casing and removal of one leading
// "prefix:".
func fold(s string) string {
	b := []byte(s) // ASCII case folding only: nothing but A-Z changes
	for i, ch := range b {
		if ch >= 'A' && ch <= 'Z' {
			b[i] = ch + 32
		}
	}
	s = string(b)
	if i := strings.IndexByte(s, ':'); i >= 0 {
		s = s[i+1:]
	}
	return s
}

func kindOf(a bchutil.Address) string {
	switch a.(type) {
	case *bchutil.AddressPubKeyHash:
		return "p2pkh"
	case *bchutil.AddressScriptHash:
		return "p2sh"
	case *bchutil.AddressScriptHash32:
		return "p2sh32"
	case *bchutil.LegacyAddressPubKeyHash:
		return "legacy-p2pkh"
	case *bchutil.LegacyAddressScriptHash:
		return "legacy-p2sh"
	case *bchutil.AddressPubKey:
		return "pubkey"
	}
	return fmt.Sprintf("%T", a)
}

// c02CheckAccepted applies the statement to one accepted string (any family).
func c02CheckAccepted(w *mc.W, kind string, cas any, s string, netName string, a bchutil.Address) {
	registerCustomNet()
	c := w.Ctx()
	net := netParams[netName]
	rn := refNet(netName)
	k := kindOf(a)
	var enc string
	if msg, p := mc.Guard(func() {
		if k == "pubkey" {
			enc = a.String()
		} else {
			enc = a.EncodeAddress()
		}
	}); p {
		c.Violate("accepted-address-encode-panics", kind, cas, msg)
		return
	}
	switch k {
	case "p2pkh", "p2sh", "p2sh32":
		if fold(s) != enc {
			c.Violate("accepted-cashaddr-not-canonical", kind, cas, fmt.Sprintf("%q accepted as %s, re-encodes to %q", s, k, enc))
		}
		// strict reference decode of the prefix-qualified form(s)
		var cands []string
		if strings.Contains(s, ":") {
			cands = []string{s}
		} else {
			cands = []string{rn.CashPrefix + ":" + strings.ToLower(s)}
			if rn.SlpPrefix != "" {
				cands = append(cands, rn.SlpPrefix+":"+strings.ToLower(s))
			}
		}
		okAny := false
		reason := ""
		for _, cand := range cands {
			d, ok, why := ref.CashStrictDecode(cand)
			if !ok {
				if reason == "" || reason == "checksum" {
					reason = why
				}
				continue
			}
			if d.Prefix != rn.CashPrefix && (rn.SlpPrefix == "" || d.Prefix != rn.SlpPrefix) {
				reason = "foreign prefix " + d.Prefix
				continue
			}
			wantKind := map[string]string{"0/20": "p2pkh", "1/20": "p2sh", "1/32": "p2sh32"}[fmt.Sprintf("%d/%d", d.Type, len(d.Hash))]
			if wantKind != k {
				reason = fmt.Sprintf("spec says type %d with %d-byte hash, library returned %s", d.Type, len(d.Hash), k)
				continue
			}
			if !bytes.Equal(d.Hash, a.ScriptAddress()) {
				reason = "payload differs"
				continue
			}
			// membership: a cash-format (non-SLP) result belongs to the requested network
			if d.Prefix == rn.CashPrefix && !a.IsForNet(net) {
				c.Violate("accepted-cash-address-not-for-requested-net", kind, cas, s)
			}
			okAny = true
			break
		}
		if !okAny {
			c.Violate("accepts-cashaddr-the-spec-rejects/"+sanitizeReason(reason), kind, cas, fmt.Sprintf("%q accepted as %s (%x); strict decoder: %s", s, k, a.ScriptAddress(), reason))
		}
	case "legacy-p2pkh", "legacy-p2sh":
		if s != enc {
			c.Violate("accepted-legacy-not-canonical", kind, cas, fmt.Sprintf("%q re-encodes to %q", s, enc))
		}
		v, payload, st := ref.B58CheckDecode(s)
		if st != "ok" || len(payload) != 20 {
			c.Violate("accepts-legacy-the-spec-rejects", kind, cas, fmt.Sprintf("%q: reference says %s, payload %d bytes", s, st, len(payload)))
			return
		}
		isPK, isSH := false, false
		for _, n := range c02Nets() {
			if n.P2PKHID == v {
				isPK = true
			}
			if n.P2SHID == v {
				isSH = true
			}
		}
		if isPK == isSH {
			c.Violate("accepts-legacy-with-unregistered-or-ambiguous-version", kind, cas, fmt.Sprintf("version %#x", v))
			return
		}
		if (k == "legacy-p2pkh") != isPK {
			c.Violate("legacy-kind-wrong", kind, cas, fmt.Sprintf("version %#x decoded as %s", v, k))
		}
		if !bytes.Equal(payload, a.ScriptAddress()) {
			c.Violate("legacy-payload-wrong", kind, cas, "")
		}
		for _, n := range c02Nets() {
			want := (isPK && n.P2PKHID == v) || (isSH && n.P2SHID == v)
			if a.IsForNet(netParams[n.Name]) != want {
				c.Violate("legacy-network-membership-wrong", kind, cas, fmt.Sprintf("%q (version %#x, %s): IsForNet(%s)=%v want %v", s, v, k, n.Name, !want, want))
			}
		}
	case "pubkey":
		if strings.ToLower(s) != enc {
			c.Violate("accepted-pubkey-not-canonical", kind, cas, fmt.Sprintf("%q accepted, String() = %q", s, enc))
		}
		if !a.IsForNet(net) {
			c.Violate("accepted-pubkey-not-for-requested-net", kind, cas, s)
		}
	default:
		c.Violate("unknown-address-type", kind, cas, k)
		return
	}
	// The caller now USES its result the way the API allows (a public-key address is switched to
	// another serialisation format; the bytes handed out by ScriptAddress are overwritten), and the
	// same string is decoded once more: what the second call returns is a function of the string, not
	// of what happened to the object an earlier call returned.
	var enc2 string
	var err2 error
	if msg, p := mc.Guard(func() {
		if x, ok := a.(*bchutil.AddressPubKey); ok {
			for _, f := range []bchutil.PubKeyFormat{bchutil.PKFUncompressed, bchutil.PKFCompressed, bchutil.PKFHybrid} {
				if f != x.Format() {
					x.SetFormat(f)
					break
				}
			}
		} else {
			sa := a.ScriptAddress()
			for i := range sa {
				sa[i] ^= 0xa5
			}
		}
		var a2 bchutil.Address
		a2, err2 = bchutil.DecodeAddress(s, net)
		if err2 == nil {
			if k == "pubkey" {
				enc2 = a2.String()
			} else {
				enc2 = a2.EncodeAddress()
			}
		}
	}); p {
		c.Violate("second-decode-panics-after-the-first-result-was-used", kind, cas, msg)
		return
	}
	if err2 != nil {
		c.Violate("second-decode-of-an-accepted-string-fails-after-the-first-result-was-used", kind, cas, fmt.Sprintf("%q: %v", s, err2))
	} else if enc2 != enc {
		c.Violate("second-decode-depends-on-what-the-caller-did-with-the-first-result", kind, cas, fmt.Sprintf("%q: first decode re-encodes to %q, second (after the first object was modified by its owner) to %q", s, enc, enc2))
	}
}

func sanitizeReason(s string) string {
	if strings.HasPrefix(s, "spec says") {
		return "kind-mismatch"
	}
	if strings.HasPrefix(s, "foreign prefix") {
		return "foreign-prefix"
	}
	return strings.ReplaceAll(s, " ", "-")
}

func c02EvalCash(w *mc.W, cas c02Cash) {
	registerCustomNet()
	c := w.Ctx()
	s, _ := cas.build()
	w.Eval()
	var a bchutil.Address
	var err error
	if msg, p := mc.Guard(func() { a, err = bchutil.DecodeAddress(s, netParams[cas.Net]) }); p {
		// panics are C08's subject; record them here too (they are violations of "rejected")
		c.Violate("decode-panics", "cash", cas, fmt.Sprintf("%q: %s", s, msg))
		return
	}
	if err != nil {
		w.Outcome("cashaddr rejected")
		return
	}
	w.Outcome("cashaddr accepted as " + kindOf(a))
	w.Nontrivial(mc.HashString(s, cas.Net))
	if cas.Corrupt {
		c.Violate("accepts-failing-checksum", "cash", cas, s)
	}
	c02CheckAccepted(w, "cash", cas, s, cas.Net, a)
}

type c02Legacy struct {
	Net     string `json:"net"`
	Version int    `json:"version"`
	Len     int    `json:"len"`
	Fill    int    `json:"fill"`
	Corrupt bool   `json:"corrupt"`
}

func (cas c02Legacy) build() string {
	p := make([]byte, cas.Len)
	for i := range p {
		if cas.Fill == 1 {
			p[i] = byte(0xc3 + 7*i)
		}
	}
	if !cas.Corrupt {
		return ref.B58CheckEncode(byte(cas.Version), p)
	}
	b := append([]byte{byte(cas.Version)}, p...)
	ck := ref.DoubleSHA256(b)
	ck[3] ^= 0x10
	return ref.B58Encode(append(b, ck[:4]...))
}

// c02Nets: the six built-in networks, the custom-registered one and the unregistered sibling of the main network
func c02Nets() []ref.Net {
	registerCustomNet()
	return append(append([]ref.Net{}, ref.Nets...), customNet, siblingNet)
}

func c02EvalLegacy(w *mc.W, cas c02Legacy) {
	registerCustomNet()
	c := w.Ctx()
	s := cas.build()
	w.Eval()
	var a bchutil.Address
	var err error
	if msg, p := mc.Guard(func() { a, err = bchutil.DecodeAddress(s, netParams[cas.Net]) }); p {
		c.Violate("decode-panics", "legacy", cas, fmt.Sprintf("%q: %s", s, msg))
		return
	}
	// expected acceptance: 20 bytes, version registered for exactly one kind, good checksum
	isPK, isSH := false, false
	for _, n := range c02Nets() {
		if n.P2PKHID == byte(cas.Version) {
			isPK = true
		}
		if n.P2SHID == byte(cas.Version) {
			isSH = true
		}
	}
	should := cas.Len == 20 && isPK != isSH && !cas.Corrupt
	if err != nil {
		w.Outcome("legacy rejected")
		if should {
			// C02 is about what may be ACCEPTED; a refusal never violates it (acceptance of the strings
			// the library itself produces is C01's clause).  Counted, not reported.
			w.Outcome("legacy rejected although well-formed (allowed by C02)")
		}
		return
	}
	w.Outcome("legacy accepted as " + kindOf(a))
	w.Nontrivial(mc.HashString(s, cas.Net))
	if cas.Corrupt {
		c.Violate("accepts-failing-checksum", "legacy", cas, s)
	}
	c02CheckAccepted(w, "legacy", cas, s, cas.Net, a)
}

type c02Pub struct {
	Net   string `json:"net"`
	First int    `json:"first"` // first byte 0..255
	Shape string `json:"shape"` // x33-on, x33-off, xy65, xy65-negY, xy65-offY, x33-geP, xy65-geP, len32, len34, len64, len66
	Point int    `json:"point"` // index into testPoints
	Upper bool   `json:"upper"`
}

func (cas c02Pub) build() string {
	tp := testPoints()[cas.Point]
	x := tp.P.X
	y := tp.P.Y
	pad := func(v *big.Int) []byte {
		b := v.Bytes()
		out := make([]byte, 32)
		copy(out[32-len(b):], b)
		return out
	}
	var b []byte
	switch cas.Shape {
	case "x33-on":
		b = append([]byte{byte(cas.First)}, pad(x)...)
	case "x33-off":
		// x+? that is not on the curve: search upward
		xx := new(big.Int).Set(x)
		for {
			xx.Add(xx, big.NewInt(1))
			if _, ok := ref.SecLiftX(xx, false); !ok {
				break
			}
		}
		b = append([]byte{byte(cas.First)}, pad(xx)...)
	case "xy65":
		b = append(append([]byte{byte(cas.First)}, pad(x)...), pad(y)...)
	case "xy65-negY":
		b = append(append([]byte{byte(cas.First)}, pad(x)...), pad(new(big.Int).Sub(ref.SecP, y))...)
	case "xy65-offY":
		b = append(append([]byte{byte(cas.First)}, pad(x)...), pad(new(big.Int).Xor(y, big.NewInt(2)))...)
	case "x33-geP":
		b = append([]byte{byte(cas.First)}, pad(new(big.Int).Add(ref.SecP, big.NewInt(1)))...) // x = p+1 ≡ 1 (on curve as 1)
	case "xy65-geP":
		// (x+p, y) where x+p < 2^256 is only possible for tiny x; use x=1 lifted
		pt, _ := ref.SecLiftX(big.NewInt(1), false)
		b = append(append([]byte{byte(cas.First)}, pad(new(big.Int).Add(ref.SecP, big.NewInt(1)))...), pad(pt.Y)...)
	case "len32":
		b = append([]byte{byte(cas.First)}, pad(x)[:31]...)
	case "len34":
		b = append(append([]byte{byte(cas.First)}, pad(x)...), 0)
	case "len64":
		b = append(append([]byte{byte(cas.First)}, pad(x)...), pad(y)[:31]...)
	case "len66":
		b = append(append(append([]byte{byte(cas.First)}, pad(x)...), pad(y)...), 0)
	}
	s := hex.EncodeToString(b)
	if cas.Upper {
		s = strings.ToUpper(s)
	}
	return s
}

var c02PubShapes = []string{"x33-on", "x33-off", "xy65", "xy65-negY", "xy65-offY", "x33-geP", "xy65-geP", "len32", "len34", "len64", "len66"}

func c02EvalPub(w *mc.W, cas c02Pub) {
	registerCustomNet()
	c := w.Ctx()
	s := cas.build()
	w.Eval()
	var a bchutil.Address
	var err error
	if msg, p := mc.Guard(func() { a, err = bchutil.DecodeAddress(s, netParams[cas.Net]) }); p {
		c.Violate("decode-panics", "pubhex", cas, fmt.Sprintf("%q: %s", s, msg))
		return
	}
	if err != nil {
		w.Outcome("pubkey hex rejected (" + cas.Shape + ")")
		return
	}
	w.Outcome("pubkey hex accepted (" + cas.Shape + ") as " + kindOf(a))
	w.Nontrivial(mc.HashString(s, cas.Net))
	c02CheckAccepted(w, "pubhex", cas, s, cas.Net, a)
	// independent validity: accepted => the bytes are a valid SEC1 key of a known format
	b, _ := hex.DecodeString(s)
	valid := false
	switch {
	case len(b) == 33 && (b[0] == 2 || b[0] == 3):
		_, valid = ref.SecParseCompressed(b)
	case len(b) == 65 && (b[0] == 4 || b[0] == 6 || b[0] == 7):
		x, y := new(big.Int).SetBytes(b[1:33]), new(big.Int).SetBytes(b[33:])
		valid = ref.SecOnCurve(x, y)
		if b[0] != 4 && (y.Bit(0) == 1) != (b[0] == 7) {
			valid = false
		}
	}
	if !valid {
		c.Violate("accepts-invalid-public-key", "pubhex", cas, s)
	}
}

// c02Str: arbitrary literal strings (vectors from the CashAddr spec and hand-made edge cases).
type c02Str struct {
	Net  string `json:"net"`
	S    string `json:"s"`
	SHex string `json:"s_hex,omitempty"` // set instead of S when the string is not valid UTF-8
}

func c02StrOf(net, s string) c02Str {
	if !utf8.ValidString(s) {
		return c02Str{Net: net, SHex: mc.Hex([]byte(s))}
	}
	return c02Str{Net: net, S: s}
}

func c02EvalStr(w *mc.W, cas c02Str) {
	registerCustomNet()
	c := w.Ctx()
	w.Eval()
	if cas.SHex != "" {
		cas.S = string(mc.UnHex(cas.SHex))
	}
	var a bchutil.Address
	var err error
	if msg, p := mc.Guard(func() { a, err = bchutil.DecodeAddress(cas.S, netParams[cas.Net]) }); p {
		c.Violate("decode-panics", "str", cas, msg)
		return
	}
	if err != nil {
		w.Outcome("literal rejected")
		return
	}
	w.Outcome("literal accepted as " + kindOf(a))
	c02CheckAccepted(w, "str", cas, cas.S, cas.Net, a)
}

func runC02(c *mc.Ctx) {
	registerCustomNet()
	c.Rule("strings are constructed with the reference encoders so that they pass the checksum layer (all 256 version bytes x payload lengths 0..65 x pad-bit values x known/unknown prefixes x renderings; all Base58Check versions x lengths 0..40; all first bytes x key shapes), decoded by the real DecodeAddress on every network; every accepted string must satisfy fold(s)==re-encoding, the strict reference decoder and the membership rules; non-trivial = accepted strings")
	c.Assume("reference strict decoder (ref.CashStrictDecode) transcribes the CashAddr specification: known type 0/1, size code matches length, <5 zero pad bits")

	// (A) CashAddr
	fills := mc.Pick(c, []int{1}, []int{0, 1})
	renders := mc.Pick(c, []int{0, 3, 5}, []int{0, 1, 2, 3, 4, 5})
	var pads []int
	if c.Quick() {
		pads = []int{0, 1, -1}
	} else {
		pads = []int{0, 1, 2, 3, 4, 5, 6, 7, 8, 9, 10, 11, 12, 13, 14, 15, -1}
	}
	nNets, nPref := len(ref.Nets), len(c02Prefixes)
	// testnet4 and chipnet carry exactly testnet3's prefixes and version bytes; the quick tier
	// runs the CashAddr family on the four distinct parameter sets only
	cashNets := append(append([]ref.Net{}, ref.Nets...), siblingNet)
	if c.Quick() {
		cashNets = []ref.Net{ref.Nets[0], ref.Nets[1], ref.Nets[4], ref.Nets[5], siblingNet}
	}
	// (siblingNet: the main network's magic and version bytes under other prefixes, see common.go; the
	// main network's prefixes are foreign to it and vice versa, whichever of the two was decoded first)
	dims := []int{len(cashNets), nPref, 256, 66, len(fills), len(pads), len(renders), 2}
	total := int64(1)
	for _, d := range dims {
		total *= int64(d)
	}
	c.Space("cashaddr: net x prefix x version x length x fill x pad x rendering x {valid,corrupt checksum}", total)
	c.ParFor(total, func(w *mc.W, i int64) {
		idx := make([]int, len(dims))
		for k := len(dims) - 1; k >= 0; k-- {
			idx[k] = int(i % int64(dims[k]))
			i /= int64(dims[k])
		}
		cas := c02Cash{Net: cashNets[idx[0]].Name, Prefix: c02Prefixes[idx[1]], Version: idx[2], Len: idx[3],
			Fill: fills[idx[4]], Pad: pads[idx[5]], Render: renders[idx[6]], Corrupt: idx[7] == 1}
		// pad values beyond the available pad bits duplicate smaller ones: skip duplicates
		padBits := (5 - (8*(cas.Len+1))%5) % 5
		if cas.Pad > 0 && cas.Pad >= 1<<uint(padBits) {
			return
		}
		if cas.Corrupt && (cas.Pad != 0 || cas.Render > 1) {
			return // corrupt-checksum variant only for the plain shapes
		}
		w.State()
		c02EvalCash(w, cas)
	})
	c.Sample("cash", c02Cash{Net: "mainnet", Prefix: "bitcoincash", Version: 0x10, Len: 20, Fill: 1, Pad: 0, Render: 0})
	// which parameter set was decoded FIRST in the process: every ordered pair (and both renderings:
	// prefixed, bare) over {main network, its sibling} x {the main network's prefix, the sibling's},
	// each pair in a process of its own (inside the long-lived check process the order is whatever
	// the workers make it)
	{
		var menu []mc.KindCase
		for _, n := range []string{"mainnet", siblingNet.Name} {
			for _, p := range []string{"bitcoincash", siblingNet.CashPrefix} {
				for _, r := range []int{0, 3} {
					menu = append(menu, mc.KindCase{Kind: "cash", Case: c02Cash{Net: n, Prefix: p, Version: 0, Len: 20, Fill: 1, Pad: 0, Render: r}})
				}
			}
		}
		var seqs [][]mc.KindCase
		for _, a := range menu {
			for _, b := range menu {
				seqs = append(seqs, []mc.KindCase{a, b})
			}
		}
		c.Space("ordered pairs of decodes over {main network, sibling parameters} x {their two prefixes} x {prefixed, bare}, each pair in a process of its own", int64(len(seqs)))
		c.FreshSeqAll(seqs)
	}

	// (B) legacy
	lnets := c02Nets() // the legacy family also runs on the custom-registered network
	ldims := []int{len(lnets), 256, 41, 2, 2}
	ltotal := int64(1)
	for _, d := range ldims {
		ltotal *= int64(d)
	}
	c.Space("legacy: net x version x length x fill x {valid,corrupt checksum}", ltotal)
	c.ParFor(ltotal, func(w *mc.W, i int64) {
		idx := make([]int, len(ldims))
		for k := len(ldims) - 1; k >= 0; k-- {
			idx[k] = int(i % int64(ldims[k]))
			i /= int64(ldims[k])
		}
		w.State()
		c02EvalLegacy(w, c02Legacy{Net: lnets[idx[0]].Name, Version: idx[1], Len: idx[2], Fill: idx[3], Corrupt: idx[4] == 1})
	})
	c.Sample("legacy", c02Legacy{Net: "mainnet", Version: 5, Len: 20, Fill: 1})

	// (C) public-key hex
	npts := len(testPoints())
	usePts := mc.Pick(c, 3, npts)
	pdims := []int{nNets, 256, len(c02PubShapes), usePts, 2}
	ptotal := int64(1)
	for _, d := range pdims {
		ptotal *= int64(d)
	}
	c.Space("pubkey hex: net x first byte x shape x point x case", ptotal)
	c.ParFor(ptotal, func(w *mc.W, i int64) {
		idx := make([]int, len(pdims))
		for k := len(pdims) - 1; k >= 0; k-- {
			idx[k] = int(i % int64(pdims[k]))
			i /= int64(pdims[k])
		}
		pt := idx[3]
		if c.Quick() {
			pt = []int{0, 3, npts - 1}[idx[3]]
		}
		w.State()
		c02EvalPub(w, c02Pub{Net: ref.Nets[idx[0]].Name, First: idx[1], Shape: c02PubShapes[idx[2]], Point: pt, Upper: idx[4] == 1})
	})
	c.Sample("pubhex", c02Pub{Net: "mainnet", First: 5, Shape: "xy65", Point: 0})

	// (C2) every one of the 256 byte values substituted at every position of valid addresses (bare and
	// prefix-qualified, lower and upper case): a byte that is not the original character (up to ASCII
	// case) must never be accepted as "the same" address
	{
		type sc struct {
			net, s string
		}
		var subs []sc
		for _, nn := range []string{"mainnet", "testnet3", "simnet"} {
			rn := refNet(nn)
			h := make([]byte, 20)
			for i := range h {
				h[i] = byte(0x11 * (i%13 + 1))
			}
			pay := ref.CashEncode(rn.CashPrefix, 0, h)
			bases := []string{pay, strings.ToUpper(pay), rn.CashPrefix + ":" + pay}
			if rn.SlpPrefix != "" {
				bases = append(bases, ref.CashEncode(rn.SlpPrefix, 1, h))
			}
			// legacy Base58Check strings too (one with leading zero bytes in the hash)
			bases = append(bases, ref.B58CheckEncode(rn.P2PKHID, h), ref.B58CheckEncode(rn.P2SHID, h), ref.B58CheckEncode(rn.P2PKHID, append([]byte{0, 0}, h[2:]...)))
			for _, b := range bases {
				for pos := 0; pos < len(b); pos++ {
					for v := 0; v < 256; v++ {
						if byte(v) == b[pos] {
							continue
						}
						m := []byte(b)
						m[pos] = byte(v)
						subs = append(subs, sc{nn, string(m)})
					}
				}
				// ... and INSERTED at every position (a decoder that drops what it does not recognise still
				// sees a valid checksum)
				for pos := 0; pos <= len(b); pos++ {
					for v := 0; v < 256; v++ {
						subs = append(subs, sc{nn, b[:pos] + string([]byte{byte(v)}) + b[pos:]})
					}
				}
			}
		}
		// ... framed by what a line-oriented reader might leave or strip
		for _, nn := range []string{"mainnet", "testnet3"} {
			rn := refNet(nn)
			h := bytes.Repeat([]byte{0x42}, 20)
			pay := ref.CashEncode(rn.CashPrefix, 0, h)
			for _, b := range []string{pay, rn.CashPrefix + ":" + pay, strings.ToUpper(pay), ref.B58CheckEncode(rn.P2PKHID, h), ref.B58CheckEncode(rn.P2SHID, h), "02" + strings.Repeat("79be667ef9dcbbac55a06295ce870b07029bfcdb2dce28d959f2815b16f81798", 1)} {
				for _, fr := range []string{" ", "\t", "\n", "\r", "\r\n", "\x00", "\n\n", "\ufeff", "  "} {
					subs = append(subs, sc{nn, b + fr}, sc{nn, fr + b}, sc{nn, fr + b + fr})
				}
			}
		}
		// ... and every non-ASCII rune whose case mapping is an ASCII character, at every position
		for _, nn := range []string{"mainnet", "regtest"} {
			rn := refNet(nn)
			for _, h0 := range []byte{0x00, 0x01, 0x5a} {
				h := bytes.Repeat([]byte{h0}, 20)
				pay := ref.CashEncode(rn.CashPrefix, 0, h)
				for _, b := range []string{pay, strings.ToUpper(pay), rn.CashPrefix + ":" + pay, strings.ToUpper(rn.CashPrefix + ":" + pay), ref.B58CheckEncode(rn.P2PKHID, h), ref.B58CheckEncode(rn.P2SHID, h)} {
					for _, m := range runeSubstitutions(b) {
						subs = append(subs, sc{nn, m})
					}
				}
			}
		}
		c.Space("every byte value at every position of valid cashaddr and legacy strings / every ASCII-folding rune and every look-alike multi-byte character (low byte / low 7 bits / fullwidth form equal to the letter) at every position of valid cashaddr and legacy strings", int64(len(subs)))
		c.ParFor(int64(len(subs)), func(w *mc.W, i int64) {
			w.State()
			c02EvalStr(w, c02StrOf(subs[i].net, subs[i].s))
		})
	}
	// (C3) characters outside the alphabet, with compensation: for every payload position, every
	// byte value a lenient decoder might take a foreign character for, and every foreign character,
	// the string such a decoder would accept (see c03_foreign.go).  It must be rejected; if it is
	// accepted it does not re-encode to itself.
	{
		type fj struct {
			net, prefix, payload string
			bare                 bool
		}
		var jobs []fj
		h := make([]byte, 20)
		for i := range h {
			h[i] = byte(0x0d*i + 7)
		}
		jobs = append(jobs, fj{"mainnet", "bitcoincash", ref.CashEncode("bitcoincash", 0, h), false},
			fj{"mainnet", "bitcoincash", ref.CashEncode("bitcoincash", 1, h), true},
			fj{"regtest", "bchreg", ref.CashEncode("bchreg", 0, h), true})
		if c.Thorough() {
			h32 := append(append([]byte{}, h...), h[:12]...)
			jobs = append(jobs, fj{"testnet3", "bchtest", ref.CashEncode("bchtest", 1, h32), false},
				fj{"mainnet", "simpleledger", ref.CashEncode("simpleledger", 0, h), false})
		}
		isLetter := [256]bool{}
		for i := 0; i < len(ref.CashCharset); i++ {
			isLetter[ref.CashCharset[i]] = true
		}
		var calls atomic.Int64
		for _, jb := range jobs {
			jb := jb
			L := len(jb.payload)
			c.ParFor(int64(L), func(w *mc.W, ji int64) {
				tmpls, _ := c03ForeignTemplates("cashaddr", jb.prefix, ":", jb.payload, ref.CashCharset, 8, int(ji))
				off := len(jb.prefix) + 1
				n := int64(0)
				for _, t := range tmpls {
					w.State()
					s := append([]byte{}, t.str...)
					for cb := 0; cb < 256; cb++ {
						if isLetter[byte(cb)] {
							continue
						}
						s[off+int(ji)] = byte(cb)
						str := string(s)
						if jb.bare {
							str = str[off:]
						}
						n++
						c02EvalStr(w, c02StrOf(jb.net, str))
					}
				}
				calls.Add(n)
			})
		}
		c.Space("cashaddr strings with a character outside the alphabet and the checksum a lenient decoder would expect: position x byte value 0..255 x foreign character", calls.Load())
	}

	// (C3b) public-key hex strings: every byte value substituted and inserted at every position of the
	// strings of every shape (valid and invalid ones alike) with format bytes 02, 03, 04, 06, 07 - a
	// hex parser that stops at the first bad character, or one that takes a prefix of the string,
	// accepts something that is not the canonical spelling of a key
	{
		var ps []string
		for _, shape := range c02PubShapes {
			for _, first := range []int{2, 3, 4, 6, 7} {
				ps = append(ps, c02Pub{Net: "mainnet", First: first, Shape: shape, Point: 0}.build())
			}
		}
		var total atomic.Int64
		c.ParFor(int64(len(ps)), func(w *mc.W, i int64) {
			b := ps[i]
			n := int64(0)
			for pos := 0; pos <= len(b); pos++ {
				for v := 0; v < 256; v++ {
					w.State()
					c02EvalStr(w, c02StrOf("mainnet", b[:pos]+string([]byte{byte(v)})+b[pos:]))
					n++
					if pos < len(b) && byte(v) != b[pos] {
						m := []byte(b)
						m[pos] = byte(v)
						w.State()
						c02EvalStr(w, c02StrOf("mainnet", string(m)))
						n++
					}
				}
			}
			total.Add(n)
		})
		c.Space("public-key hex strings of 11 shapes x 5 format bytes: every byte value substituted and inserted at every position", total.Load())
	}

	// (C4) two different legacy addresses whose Base58Check checksums are equal (birthday search), and two
	// different cash addresses of one prefix whose low 20 checksum bits... are not searched (2^40): the
	// legacy pair is decoded alternately - what a decoder keeps from one call (a cache keyed by the
	// already-verified checksum) must not answer for another string
	{
		for _, ver := range []byte{0x00, 0x05} {
			a, b, ok := checksumTwins(func(i uint32) []byte {
				return append([]byte{ver, 0x01, byte(i >> 24), byte(i >> 16), byte(i >> 8), byte(i)}, bytes.Repeat([]byte{0x3c}, 15)...)
			}, 1<<20)
			if !ok {
				c.NotExhaustive("no checksum twins found within 2^20 candidates")
				continue
			}
			w := c.Worker()
			for _, p := range [][]byte{a, b, a, b} {
				w.State()
				c02EvalStr(w, c02StrOf("mainnet", ref.B58CheckEncode(p[0], p[1:])))
			}
			w.Done()
		}
		c.Space("legacy address pairs with equal checksums, decoded alternately", 8)
	}

	// (D) literals
	lits := []string{
		"bitcoincash:qpm2qsznhks23z7629mms6s4cwef74vcwvy22gdx6a",
		"bitcoincash:ppm2qsznhks23z7629mms6s4cwef74vcwvn0h829pq",
		"bchtest:pr6m7j9njldwwzlg9v7v53unlr4jkmx6eyvwc0uz5t",
		"prefix:0r6m7j9njldwwzlg9v7v53unlr4jkmx6ey3qnjwsrf",
		"bitcoincash:q9adhakpwzztepkpwp5z0dq62m6u5v5xtyj7j3h2ws4mr9g0",
		"bitcoincash:qvch8mmxy0rtfrlarg7ucrxxfzds5pamg73h7370aa87d80gyhqxq5nlegake",
		"bitcoincash:qnq8zwpj8cq05n7pytfmskuk9r4gzzel8qtsvwz79zdskftrzxtar994cgutavfklv39gr3uvz",
		"bitcoincash:qh3krj5607v3qlqh5c3wq3lrw3wnuxw0sp8dv0zugrrt5a3kj6ucysfz8kxwv2k53krr7n933jfsunqex2w82sl",
		"bitcoincash:", ":", "bitcoincash:q", "q", "", "bitcoincash::qpm2qsznhks23z7629mms6s4cwef74vcwvy22gdx6a",
		"BITCOINCASH:qpm2qsznhks23z7629mms6s4cwef74vcwvy22gdx6a",
	}
	c.Space("literal strings x nets", int64(len(lits)*nNets))
	for _, n := range ref.Nets {
		w := c.Worker()
		for _, l := range lits {
			w.State()
			c02EvalStr(w, c02Str{Net: n.Name, S: l})
		}
		w.Done()
	}
}
