package props

import (
	"bytes"
	"encoding/hex"
	"encoding/json"
	"fmt"
	"github.com/gcash/bchutil/gcs/builder"
	"github.com/gcash/bchutil/txsort"
	"runtime/metrics"
	"sort"
	"strings"
	"syscall"

	"github.com/gcash/bchd/chaincfg/chainhash"
	"github.com/gcash/bchd/wire"
	"github.com/gcash/bchutil"
	"github.com/gcash/bchutil/base58"
	"github.com/gcash/bchutil/bech32"
	"github.com/gcash/bchutil/bloom"
	"github.com/gcash/bchutil/gcs"
	"github.com/gcash/bchutil/hdkeychain"
	bjsonpb "github.com/gcash/bchutil/jsonpb"
	"github.com/gcash/bchutil/jsonpb/testpb"
	"github.com/gcash/bchutil/merkleblock"

	"verif/mc"
	"verif/ref"
)

// C08 — no parser panics, hangs or over-allocates on untrusted input.
//
// Every case is one call (or a short fixed call sequence) into an entry point with an input from
// an exhaustively enumerated family.  Oracles: no panic escapes; the deterministic step count of
// the steps-instrumented build stays below 20000 + 200*len^2 (a budget overrun is reported as a
// hang); cumulative heap bytes allocated during the call stay below 2 MiB + 256*len + len^2/16.

func init() {
	register(&Prop{ID: "C08", Run: runC08, Procs: true, Replay: map[string]func(*mc.Ctx, json.RawMessage){
		"call": replayer(c08Eval),
	}})
}

type c08Case struct {
	Family string `json:"family"`
	Input  string `json:"input_hex,omitempty"`
	Text   string `json:"text,omitempty"`
	Net    string `json:"net,omitempty"`
	A      int64  `json:"a,omitempty"`
	B      int64  `json:"b,omitempty"`
	C      int64  `json:"c,omitempty"`
	D      int64  `json:"d,omitempty"`
}

var c08Sample = []metrics.Sample{{Name: "/gc/heap/allocs:bytes"}}

func heapAllocs() uint64 {
	metrics.Read(c08Sample)
	return c08Sample[0].Value.Uint64()
}

// c08Measure runs f under the three oracles and records violations.
func c08Measure(w *mc.W, cas c08Case, inputLen int, f func()) {
	c := w.Ctx()
	w.Eval()
	n := int64(inputLen)
	budget := 20000 + 200*n*n
	if hookStepReset != nil {
		hookStepReset(budget)
	}
	a0 := heapAllocs()
	msg, p := mc.Guard(f)
	a1 := heapAllocs()
	var steps int64
	if hookStepRead != nil {
		steps = hookStepRead()
		hookStepReset(1 << 62)
	}
	if p {
		if strings.Contains(msg, "StepBudgetExceeded") {
			c.Violate("does-not-terminate-within-step-budget/"+cas.Family, "call", cas, fmt.Sprintf("more than %d steps for an input of %d bytes", budget, n))
			w.Outcome(cas.Family + ": step budget exceeded")
			return
		}
		c.Violate("panic/"+cas.Family, "call", cas, msg)
		w.Outcome(cas.Family + ": panic")
		return
	}
	// The counter is CUMULATIVE bytes allocated, not peak memory: an algorithm that is allowed to be
	// quadratic in time (base-58 conversion with math/big) may allocate quadratically many temporary
	// bytes in total.  The envelope therefore has the same quadratic term as the time envelope; for
	// the short inputs that carry inflated counts (a few hundred bytes) that term is negligible.
	if lim := uint64(2<<20 + 256*n + n*n/16); a1-a0 > lim {
		c.Violate("allocation-not-proportional-to-input/"+cas.Family, "call", cas, fmt.Sprintf("%d bytes allocated for an input of %d bytes (limit %d)", a1-a0, n, lim))
		w.Outcome(cas.Family + ": over-allocation")
		return
	}
	_ = steps
	w.Outcome(cas.Family + ": returned")
	if len(cas.Input) > 8 || cas.Text != "" || cas.A != 0 {
		w.Nontrivial(mc.HashString(cas.Family, cas.Input, cas.Text, fmt.Sprint(cas.A, cas.B, cas.C, cas.D)))
	}
}

func c08Eval(w *mc.W, cas c08Case) {
	in := mc.UnHex(cas.Input)
	switch cas.Family {
	case "DecodeAddress":
		c08Measure(w, cas, len(in), func() { bchutil.DecodeAddress(string(in), netParams[cas.Net]) })
	case "DecodeCashAddress":
		c08Measure(w, cas, len(in), func() { bchutil.DecodeCashAddress(string(in)) })
	case "DecodeWIF":
		c08Measure(w, cas, len(in), func() { bchutil.DecodeWIF(string(in)) })
	case "base58":
		c08Measure(w, cas, len(in), func() { base58.Decode(string(in)); base58.CheckDecode(string(in)) })
	case "bech32":
		c08Measure(w, cas, len(in), func() {
			_, d, err := bech32.Decode(string(in))
			if err == nil {
				bech32.ConvertBits(d, 5, 8, false)
			}
		})
	case "NewKeyFromString":
		c08Measure(w, cas, len(in), func() {
			k, err := hdkeychain.NewKeyFromString(string(in))
			if err == nil {
				_ = k.String()
				k.Child(0)
				k.Neuter()
				k.ECPubKey()
				k.Address(netParams["mainnet"])
			}
		})
	case "NewTxFromBytes":
		c08Measure(w, cas, len(in), func() {
			tx, err := bchutil.NewTxFromBytes(in)
			if err == nil {
				tx.Hash()
				tx.MsgTx()
				// what a node does with a relayed transaction: matched against a peer's filter, put into
				// the mempool filter, examined for BIP69 order
				f := bloom.LoadFilter(wire.NewMsgFilterLoad([]byte{0xff}, 1, 0, wire.BloomUpdateAll))
				f.MatchTxAndUpdate(tx)
				builder.BuildMempoolFilter([]*wire.MsgTx{tx.MsgTx()})
				txsort.IsSorted(tx.MsgTx())
				txsort.Sort(tx.MsgTx())
			}
		})
	case "NewBlockFromBytes":
		c08Measure(w, cas, len(in), func() {
			b, err := bchutil.NewBlockFromBytes(in)
			if err == nil {
				b.Hash()
				b.Transactions()
				b.TxLoc()
				b.Tx(0)
				b.Tx(1 << 30)
				b.TxHash(-1)
				b.Bytes()
				// the parsed block scanned against a peer's filter and turned into proofs
				f := bloom.LoadFilter(wire.NewMsgFilterLoad([]byte{0xff}, 1, 0, wire.BloomUpdateAll))
				bloom.GetMatchedIndices(b, f)
				bloom.NewMerkleBlock(b, f)
				merkleblock.NewMerkleBlockWithFilter(b, f)
				merkleblock.NewMerkleBlockWithTxnSet(b, nil)
				// ... and into the compact block filter and the mempool filter
				builder.BuildBasicFilter(b.MsgBlock())
				builder.BuildMempoolFilter(b.MsgBlock().Transactions)
				for _, t := range b.MsgBlock().Transactions {
					txsort.IsSorted(t)
				}
			}
		})
	case "bloom":
		c08Bloom(w, cas)
	case "bloom-reload":
		c08BloomReload(w, cas)
	case "bloom-pushes":
		c08BloomPushes(w, cas)
	case "GetMatchedIndices-growth":
		c08Growth(w, cas)
	case "merkleblock":
		c08Merkle(w, cas, in)
	case "gcs":
		c08GCS(w, cas, in)
	case "jsonpb":
		c08Measure(w, cas, len(cas.Text), func() {
			var m1 testpb.GetBlockResponse
			bjsonpb.Unmarshal(strings.NewReader(cas.Text), &m1)
			var m2 testpb.TransactionNotification
			bjsonpb.Unmarshal(strings.NewReader(cas.Text), &m2)
		})
	default:
		panic("unknown family " + cas.Family)
	}
}

// ---- bloom: filter-load messages within the wire limits and the data matched against them

func c08Bloom(w *mc.W, cas c08Case) {
	// A: filter length, B: hash funcs, C: flags, D: item/tx selector
	flen, k, flags, sel := int(cas.A), uint32(cas.B), byte(cas.C), int(cas.D)
	c08Measure(w, cas, flen+40, func() {
		msg := wire.NewMsgFilterLoad(make([]byte, flen), k, 0xffffffff, wire.BloomUpdateType(flags))
		f := bloom.LoadFilter(msg)
		item := bytes.Repeat([]byte{0xab}, sel%40)
		switch sel / 40 {
		case 0:
			f.Add(item)
			f.Matches(item)
		case 1:
			h := chainhash.Hash{1}
			f.AddHash(&h)
			o := wire.OutPoint{Hash: h, Index: 0xffffffff}
			f.AddOutPoint(&o)
			f.MatchesOutPoint(&o)
		case 2:
			// a transaction from the C10 alphabet: outputs/inputs chosen by sel
			tx := wire.NewMsgTx(1)
			tx.AddTxIn(c10In(c10InKinds[sel%len(c10InKinds)], 0))
			tx.AddTxOut(wire.NewTxOut(1, c10OutScript(c10OutKinds[sel%len(c10OutKinds)]), wire.TokenData{}))
			tx.AddTxOut(wire.NewTxOut(1, c10OutScript(c10OutKinds[(sel/3)%len(c10OutKinds)]), wire.TokenData{}))
			f.MatchTxAndUpdate(bchutil.NewTx(tx))
			blk := wire.NewMsgBlock(fixedHeader(1, &chainhash.Hash{}, &chainhash.Hash{}, 0, 0))
			blk.AddTransaction(tx)
			bloom.NewMerkleBlock(bchutil.NewBlock(blk), f)
		}
	})
}

// ---- bloom: a transaction parsed from bytes whose output script is a long run of small data pushes,
// every one of which the filter matches (cost per push must not grow with the transaction)
func c08BloomPushes(w *mc.W, cas c08Case) {
	// A: number of pushes; B: 0 = "01 42" pushes against a filter holding 0x42, 1 = OP_0 pushes against a
	// match-all filter; C: update flag
	n := int(cas.A)
	var script []byte
	for i := 0; i < n; i++ {
		if cas.B == 0 {
			script = append(script, 0x01, 0x42)
		} else {
			script = append(script, 0x00)
		}
	}
	tx := wire.NewMsgTx(1)
	tx.AddTxIn(c10In(c10InKinds[0], 0))
	tx.AddTxOut(wire.NewTxOut(1, script, wire.TokenData{}))
	var raw bytes.Buffer
	tx.Serialize(&raw)
	c08Measure(w, cas, raw.Len(), func() {
		t, err := bchutil.NewTxFromBytes(raw.Bytes())
		if err != nil {
			return
		}
		var f *bloom.Filter
		if cas.B == 0 {
			f = bloom.LoadFilter(wire.NewMsgFilterLoad(make([]byte, 512), 3, 9, wire.BloomUpdateType(cas.C)))
			f.Add([]byte{0x42})
		} else {
			f = bloom.LoadFilter(wire.NewMsgFilterLoad(bytes.Repeat([]byte{0xff}, 8), 3, 9, wire.BloomUpdateType(cas.C)))
		}
		f.MatchTxAndUpdate(t)
	})
}

// ---- bloom: a peer sends one filter-load message, has data matched, then sends another one
// (a different size and hash-function count) with or without a filterclear in between
func c08BloomReload(w *mc.W, cas c08Case) {
	// A, B: lengths of the two filters; C: kA*100+kB; D: between*6 + unload*3 + after
	lenA, lenB := int(cas.A), int(cas.B)
	kA, kB := uint32(cas.C/100), uint32(cas.C%100)
	between, unload, after := int(cas.D)/6, int(cas.D)/3%2, int(cas.D)%3
	c08Measure(w, cas, lenA+lenB+80, func() {
		item := bytes.Repeat([]byte{0xab}, 20)
		h := chainhash.Hash{1}
		o := wire.OutPoint{Hash: h, Index: 0xffffffff}
		tx := wire.NewMsgTx(1)
		tx.AddTxIn(c10In(c10InKinds[0], 0))
		tx.AddTxOut(wire.NewTxOut(1, c10OutScript("p2pk-K1"), wire.TokenData{}))
		use := func(f *bloom.Filter, how int) {
			switch how {
			case 1:
				f.Add(item)
				f.Matches(item)
				f.Matches(h[:])
			case 2:
				f.AddHash(&h)
				f.AddOutPoint(&o)
				f.MatchesOutPoint(&o)
			case 3:
				f.MatchTxAndUpdate(bchutil.NewTx(tx))
				blk := wire.NewMsgBlock(fixedHeader(1, &chainhash.Hash{}, &chainhash.Hash{}, 0, 0))
				blk.AddTransaction(tx)
				bloom.NewMerkleBlock(bchutil.NewBlock(blk), f)
			}
		}
		f := bloom.LoadFilter(wire.NewMsgFilterLoad(bytes.Repeat([]byte{0x01}, lenA), kA, 5, wire.BloomUpdateAll))
		use(f, between)
		if unload == 1 {
			f.Unload()
			use(f, between)
		}
		f.Reload(wire.NewMsgFilterLoad(bytes.Repeat([]byte{0x80}, lenB), kB, 0xfffffff0, wire.BloomUpdateP2PubkeyOnly))
		use(f, after+1)
		f.IsLoaded()
		f.MsgFilterLoad()
	})
}

// ---- growth family: transaction i+1 spends two outputs of transaction i, listed in reverse
func c08Growth(w *mc.W, cas c08Case) {
	c := w.Ctx()
	n := int(cas.A)
	var txs []*wire.MsgTx
	for i := 0; i < n; i++ {
		tx := wire.NewMsgTx(1)
		tx.LockTime = uint32(i)
		if i == 0 {
			o := c10ExtOutPoint(0)
			tx.AddTxIn(wire.NewTxIn(&o, []byte{0x51}))
		} else {
			h := txs[i-1].TxHash()
			tx.AddTxIn(wire.NewTxIn(&wire.OutPoint{Hash: h, Index: 0}, []byte{0x51}))
			tx.AddTxIn(wire.NewTxIn(&wire.OutPoint{Hash: h, Index: 1}, []byte{0x51}))
		}
		tx.AddTxOut(wire.NewTxOut(1, c10OutScript("p2pk-K1"), wire.TokenData{}))
		tx.AddTxOut(wire.NewTxOut(1, c10OutScript("p2pk-K1"), wire.TokenData{}))
		txs = append(txs, tx)
	}
	if cas.B == 1 {
		// ladder: n/2 layers of two transactions; each transaction of a layer spends one output of BOTH
		// transactions of the layer below, so the number of distinct paths from the bottom doubles per
		// layer (a scan that re-walks dependants per path rather than per transaction is exponential)
		txs = txs[:0]
		for i := 0; i < n; i++ {
			tx := wire.NewMsgTx(1)
			tx.LockTime = uint32(1000 + i)
			if i < 2 {
				o := c10ExtOutPoint(i)
				tx.AddTxIn(wire.NewTxIn(&o, []byte{0x51}))
			} else {
				layer := i / 2
				ha, hb := txs[2*(layer-1)].TxHash(), txs[2*(layer-1)+1].TxHash()
				tx.AddTxIn(wire.NewTxIn(&wire.OutPoint{Hash: ha, Index: uint32(i % 2)}, []byte{0x51}))
				tx.AddTxIn(wire.NewTxIn(&wire.OutPoint{Hash: hb, Index: uint32(i % 2)}, []byte{0x51}))
			}
			tx.AddTxOut(wire.NewTxOut(1, c10OutScript("p2pk-K1"), wire.TokenData{}))
			tx.AddTxOut(wire.NewTxOut(1, c10OutScript("p2pk-K1"), wire.TokenData{}))
			txs = append(txs, tx)
		}
	}
	blk := wire.NewMsgBlock(fixedHeader(1, &chainhash.Hash{}, &chainhash.Hash{}, 0, 0))
	for i := n - 1; i >= 0; i-- {
		blk.AddTransaction(txs[i])
	}
	model := ref.NewBloom(make([]byte, 512), 10, 7, 1)
	model.Insert(c10K1)
	f := bloom.LoadFilter(wire.NewMsgFilterLoad(model.Bytes(), 10, 7, wire.BloomUpdateAll))
	w.Eval()
	// cost in the family's own size parameter: steps <= 2000 + 400*n^2 (a per-family envelope: the
	// byte-length envelope is far too loose to see 2^n for n <= 16)
	budget := int64(2000 + 400*n*n)
	if hookStepReset == nil {
		w.Outcome("GetMatchedIndices-growth: step hook unavailable")
		return
	}
	hookStepReset(budget)
	var got map[int]bool
	msg, p := mc.Guard(func() { got = bloom.GetMatchedIndices(bchutil.NewBlock(blk), f) })
	steps := hookStepRead()
	hookStepReset(1 << 62)
	if p {
		if strings.Contains(msg, "StepBudgetExceeded") {
			c.Violate("block-scan-cost-not-polynomial/GetMatchedIndices", "call", cas, fmt.Sprintf("n=%d transactions (%s, children before parents in the block): more than %d steps", n, map[int64]string{0: "a chain, each spending two outputs of its parent", 1: "a ladder, each spending one output of both transactions of the layer below"}[cas.B], budget))
			w.Outcome("GetMatchedIndices-growth: step budget exceeded")
			return
		}
		c.Violate("panic/GetMatchedIndices-growth", "call", cas, msg)
		return
	}
	if len(got) != n {
		c.Violate("growth-family-result-wrong", "call", cas, fmt.Sprintf("reported %d of %d", len(got), n))
	}
	w.Outcome(fmt.Sprintf("GetMatchedIndices-growth: returned (n=%d: %d steps)", n, steps))
}

func c08Merkle(w *mc.W, cas c08Case, in []byte) {
	// A: declared transaction count, B: number of hashes; Input = flag bytes
	c08Measure(w, cas, len(in)+32*int(cas.B)+8, func() {
		msg := wire.MsgMerkleBlock{Transactions: uint32(cas.A), Flags: in}
		for i := 0; i < int(cas.B); i++ {
			h := chainhash.Hash{byte(i % 3)}
			msg.Hashes = append(msg.Hashes, &h)
		}
		pb := merkleblock.NewMerkleBlockFromMsg(msg)
		pb.ExtractMatches()
		pb.GetMatches()
		pb.GetItems()
	})
}

func c08GCS(w *mc.W, cas c08Case, in []byte) {
	// A: P, B: M selector, C: query size, D: 0 = FromNBytes(input), 1 = FromBytes(N = cas.D>>8, input)
	ms := []uint64{1, 784931, 1 << 32}
	p, m := uint8(cas.A), ms[cas.B]
	var q [][]byte
	for i := 0; i < int(cas.C); i++ {
		q = append(q, []byte{byte('a' + i)})
	}
	key := [16]byte{7}
	c08Measure(w, cas, len(in)+8, func() {
		var f *gcs.Filter
		var err error
		if cas.D == 0 {
			f, err = gcs.FromNBytes(p, m, in)
		} else {
			f, err = gcs.FromBytes(uint32(cas.D>>8), p, m, in)
		}
		if err != nil || f == nil {
			return
		}
		f.Match(key, []byte("a"))
		f.MatchAny(key, q)
		f.ZipMatchAny(key, q)
		if f.N() <= 1<<22 { // never ask for a 2^32-entry map: that takes the machine down, not the check
			f.HashMatchAny(key, q)
		}
		f.NBytes()
		f.NPBytes()
	})
}

// ---- valid-checksum CashAddr strings with fewer symbols than a checksum (GF(2) solve in the
// reference model)

// c08SolveShort finds, for a prefix and k < 8 symbols, the k symbols that make the 40-bit checksum
// condition hold, if they exist.
func c08SolveShort(prefix string, k int) ([]byte, bool) {
	zero := make([]byte, k)
	s0 := refCashSyn(prefix, zero)
	// columns: syndrome contribution of bit b of symbol j
	nvar := 5 * k
	rows := make([]uint64, 40) // row r: bit i set if variable i contributes to syndrome bit r; bit 63 = rhs
	for v := 0; v < nvar; v++ {
		m := make([]byte, k)
		m[v/5] = 1 << uint(v%5)
		col := refCashSyn(prefix, m) ^ s0
		for r := 0; r < 40; r++ {
			if col>>uint(r)&1 == 1 {
				rows[r] |= 1 << uint(v)
			}
		}
	}
	for r := 0; r < 40; r++ {
		if s0>>uint(r)&1 == 1 {
			rows[r] |= 1 << 63
		}
	}
	// Gaussian elimination
	piv := make([]int, 0, nvar)
	row := 0
	for v := 0; v < nvar && row < 40; v++ {
		sel := -1
		for r := row; r < 40; r++ {
			if rows[r]>>uint(v)&1 == 1 {
				sel = r
				break
			}
		}
		if sel < 0 {
			continue
		}
		rows[row], rows[sel] = rows[sel], rows[row]
		for r := 0; r < 40; r++ {
			if r != row && rows[r]>>uint(v)&1 == 1 {
				rows[r] ^= rows[row]
			}
		}
		piv = append(piv, v)
		row++
	}
	for r := row; r < 40; r++ {
		if rows[r]>>63 == 1 {
			return nil, false // inconsistent
		}
	}
	x := make([]byte, k)
	for i, v := range piv {
		if rows[i]>>63 == 1 {
			x[v/5] |= 1 << uint(v%5)
		}
	}
	if refCashSyn(prefix, x) != 0 {
		return nil, false
	}
	return x, true
}

func runC08(c *mc.Ctx) {
	cases, short := c08Cases(c)
	c.Note("checksum_valid_strings_with_fewer_than_8_symbols", short)
	c.Note("step_hook", hookStepReset != nil)
	c.Rule("each entry point that interprets external data is called on exhaustively enumerated input families (all short strings over parser-relevant alphabets, checksum-valid degenerate CashAddr strings found by a GF(2) solve, every truncation / single-byte substitution / count-field replacement of honest transactions and blocks, filter-load geometries x items x transactions, merkle-block messages, serialized GCS filters with declared N up to 2^32, JSON documents of depth <= 3) under three oracles: no panic, deterministic step count of the steps-instrumented build below 20000+200*len^2, cumulative heap bytes allocated below 2 MiB + 256*len + len^2/16; non-trivial = inputs that pass the outer validation layer")
	c.Assume("time and allocation inside dependencies (bchd/wire, bchd/txscript, math/big, OpenBazaar/jsonpb) are measured for allocation but not for steps (they are not instrumented)")
	c.Assume("a step-budget overrun is reported as a hang; budgets are two orders of magnitude above the maximum measured on the unchanged tree")
	if mc.IsShardWorker() || true {
		// keep a runaway allocation from taking the sandbox down: 24 GiB of address space per worker
		var lim syscall.Rlimit
		lim.Cur, lim.Max = 24<<30, 24<<30
		syscall.Setrlimit(syscall.RLIMIT_AS, &lim)
	}
	c.Space("calls (all families)", int64(len(cases)))
	fam := map[string]int{}
	for _, cs := range cases {
		fam[cs.Family]++
	}
	c.Note("cases_per_family", fam)
	c.ParFor(int64(len(cases)), func(w *mc.W, i int64) {
		w.State()
		c08Eval(w, cases[i])
	})
	c.Sample("call", cases[10])
	c.Sample("call", cases[len(cases)-1])
}

func symbolsString(sym []byte) string {
	var sb strings.Builder
	for _, s := range sym {
		sb.WriteByte(ref.CashCharset[s&31])
	}
	return sb.String()
}

func c08HonestTxs() []*wire.MsgTx {
	var out []*wire.MsgTx
	t1 := wire.NewMsgTx(1)
	o := wire.OutPoint{Hash: chainhash.Hash{1, 2, 3}, Index: 1}
	t1.AddTxIn(wire.NewTxIn(&o, []byte{0x51, 0x52}))
	t1.AddTxOut(wire.NewTxOut(1000, []byte{0x76, 0xa9, 0x14, 1, 2, 3, 4, 5, 6, 7, 8, 9, 10, 11, 12, 13, 14, 15, 16, 17, 18, 19, 20, 0x88, 0xac}, wire.TokenData{}))
	out = append(out, t1)
	t2 := wire.NewMsgTx(2)
	t2.AddTxIn(wire.NewTxIn(&o, nil))
	o2 := wire.OutPoint{Hash: chainhash.Hash{9}, Index: 0xffffffff}
	t2.AddTxIn(wire.NewTxIn(&o2, []byte{0x00}))
	t2.AddTxOut(wire.NewTxOut(0, nil, wire.TokenData{}))
	t2.AddTxOut(wire.NewTxOut(1, []byte{0x6a}, wire.TokenData{}))
	t2.LockTime = 7
	out = append(out, t2)
	// a transaction carrying token data on an output, taken from a round trip through wire
	t3 := wire.NewMsgTx(2)
	t3.AddTxIn(wire.NewTxIn(&o, []byte{0x51}))
	// token prefix 0xef + 32-byte category + bitfield 0x10 (fungible amount) + amount 1, then script
	script := append([]byte{0xef}, bytes.Repeat([]byte{0xcc}, 32)...)
	script = append(script, 0x10, 0x01, 0x51)
	t3.AddTxOut(&wire.TxOut{Value: 5, PkScript: script})
	var b bytes.Buffer
	t3.Serialize(&b)
	var back wire.MsgTx
	if err := back.Deserialize(bytes.NewReader(b.Bytes())); err == nil {
		out = append(out, &back)
	} else {
		out = append(out, t3)
	}
	return out
}

func c08HonestBlocks(txs []*wire.MsgTx) []*wire.MsgBlock {
	b1 := wire.NewMsgBlock(fixedHeader(1, &chainhash.Hash{1}, &chainhash.Hash{2}, 3, 4))
	b1.AddTransaction(txs[0])
	b1.AddTransaction(txs[1])
	b2 := wire.NewMsgBlock(fixedHeader(1, &chainhash.Hash{1}, &chainhash.Hash{2}, 3, 4))
	for _, t := range txs {
		b2.AddTransaction(t)
	}
	return []*wire.MsgBlock{b1, b2}
}

// all JSON values of the given depth over a small atom alphabet, as the value of keys "hash"/"x"
func c08JSONDocs(depth int) []string {
	// strings of exactly the length of a hash in hex (64) that are NOT hex, and its neighbours 63 / 65
	atoms := []string{`"ab"`, `"zz"`, `"` + strings.Repeat("0f", 32) + `"`, `1`, `true`, `null`, `{}`, `[]`,
		`"` + strings.Repeat("0", 63) + `g"`, `"` + strings.Repeat("zz", 32) + `"`, `"` + strings.Repeat("0f", 31) + `0"`, `"` + strings.Repeat("0f", 32) + `0"`, `"` + strings.Repeat(" ", 64) + `"`}
	vals := map[int][]string{0: atoms}
	for d := 1; d <= depth; d++ {
		prev := vals[d-1]
		if len(prev) > 40 {
			// keep the level finite: every atom plus the structured values of the previous level that
			// contain a string (the rewriting only looks at strings, arrays and objects)
			var keep []string
			for _, p := range prev {
				if len(keep) < 40 && (strings.Contains(p, `"ab"`) || strings.Contains(p, "[") || len(p) < 6) {
					keep = append(keep, p)
				}
			}
			prev = keep
		}
		var cur []string
		cur = append(cur, atoms...)
		for _, a := range prev {
			cur = append(cur, "["+a+"]", `{"hash":`+a+`}`, `{"x":`+a+`}`)
			for _, b := range prev[:min(len(prev), 10)] {
				cur = append(cur, "["+a+","+b+"]", `{"hash":`+a+`,"x":`+b+`}`)
			}
		}
		vals[d] = cur
	}
	docs := append([]string{}, vals[depth]...)
	// deep nesting: every wrapper (and every ordered pair of wrappers, alternating) applied d times
	// around a string leaf, d = 8..48: linear-size documents on which any re-walking of sub-documents
	// shows up as a super-polynomial step count
	wrappers := [][2]string{{"[", "]"}, {"[[],", "]"}, {"[{},", "]"}, {`["ab",`, "]"}, {"[null,", "]"}, {"[1,", "]"},
		{`{"x":`, "}"}, {`{"hash":`, "}"}, {`{"x":[`, "]}"}, {`[{"x":1},`, "]"}, {"[", ",[]]"}, {"[", ",{}]"}, {"[", `,"ab"]`}}
	for _, d := range []int{8, 16, 24, 32, 40, 48} {
		for a := range wrappers {
			for b := range wrappers {
				if b != a && d > 24 && (a > 6 || b > 6) {
					continue // pairs only among the first 7 wrappers at the largest depths
				}
				pre, post := "", ""
				for i := 0; i < d; i++ {
					w := wrappers[a]
					if i%2 == 1 {
						w = wrappers[b]
					}
					pre += w[0]
					post = w[1] + post
				}
				docs = append(docs, `{"x":`+pre+`"00"`+post+`}`, pre+`"ab"`+post)
			}
		}
	}
	// wide documents: arrays / objects with 256, 1024, 4096 elements of each atom kind
	for _, wdt := range []int{256, 1024, 4096} {
		for _, atom := range []string{`"ab"`, `"zz"`, `1`, `null`, `[]`, `{}`, `["ab"]`, `"` + strings.Repeat("0f", 32) + `"`} {
			var sb strings.Builder
			sb.WriteString(`{"x":[`)
			for i := 0; i < wdt; i++ {
				if i > 0 {
					sb.WriteString(",")
				}
				sb.WriteString(atom)
			}
			sb.WriteString(`]}`)
			docs = append(docs, sb.String())
		}
		var ob strings.Builder
		ob.WriteString("{")
		for i := 0; i < wdt; i++ {
			if i > 0 {
				ob.WriteString(",")
			}
			fmt.Fprintf(&ob, `"k%d":"ab"`, i)
		}
		ob.WriteString("}")
		docs = append(docs, ob.String())
	}
	// magnitudes claimed inside the document: a number's exponent is a count the input asserts in a
	// few bytes (expanding "1e4000000" to digits costs megabytes); long digit strings and long
	// (hex and non-hex) strings are the linear-size counterparts.  Each in every position a value can
	// take: top level, object member (plain and hash-named), array element, after a number, nested.
	{
		big := []string{`1e400`, `1e100000`, `1e1000000`, `2e4000000`, `-1e1000000`, `1E+1000000`, `1.5e1000000`, `1e-1000000`, `0e1000000`, `123456789e999999`,
			strings.Repeat("7", 100000), `0.` + strings.Repeat("3", 100000),
			`"` + strings.Repeat("0", 63) + `g"`, `"` + strings.Repeat("zz", 32) + `"`, `"` + strings.Repeat("0f", 31) + `0"`, `"` + strings.Repeat("0f", 32) + `0"`, `"` + strings.Repeat(" ", 64) + `"`, `"` + strings.Repeat("0f", 32) + `"`, `"g` + strings.Repeat("0", 63) + `"`, `"` + strings.Repeat("0F", 32) + `"`,
			`"` + strings.Repeat("0f", 50000) + `"`, `"` + strings.Repeat("0f", 500000) + `"`, `"` + strings.Repeat("zz", 500000) + `"`, `"` + strings.Repeat("0f", 49999) + `0"`}
		for _, v := range big {
			docs = append(docs, v, `{"x":`+v+`}`, `{"hash":`+v+`}`, `[`+v+`]`, `[1,`+v+`]`, `{"x":[1,`+v+`]}`, `{"x":[`+v+`,1]}`, `{"x":{"y":`+v+`}}`, `{"x":["ab",`+v+`]}`, `{"x":[{"y":`+v+`}]}`)
		}
	}
	docs = append(docs, ``, `{`, `[`, `"`, `{"hash":`, hex.EncodeToString([]byte("x")), strings.Repeat("[", 200)+strings.Repeat("]", 200))
	return docs
}

// c08Cases builds the complete, ordered case list of the tier (also used to attribute a killed
// worker to the input it was running).
func c08Cases(c *mc.Ctx) ([]c08Case, int) {
	var cases []c08Case
	add := func(cs ...c08Case) { cases = append(cases, cs...) }

	// 1. address strings
	alpha := []byte{'a', 'Q', '0', ':', '1', ' ', 0x80}
	for n := 0; n <= mc.Pick(c, 3, 5); n++ {
		for i := int64(0); i < ipow(len(alpha), n); i++ {
			s := bytesOfLen(alpha, n, i)
			add(c08Case{Family: "DecodeCashAddress", Input: mc.Hex(s)})
			for _, net := range []string{"mainnet", "simnet"} {
				add(c08Case{Family: "DecodeAddress", Input: mc.Hex(s), Net: net})
			}
			add(c08Case{Family: "DecodeWIF", Input: mc.Hex(s)}, c08Case{Family: "base58", Input: mc.Hex(s)}, c08Case{Family: "bech32", Input: mc.Hex(s)}, c08Case{Family: "NewKeyFromString", Input: mc.Hex(s)})
		}
	}
	for _, n := range ref.Nets {
		for _, pre := range []string{n.CashPrefix, n.SlpPrefix} {
			frag := []string{"", ":", "q", ":q", "::", ":qq", "q:", ":q:", strings.ToUpper(pre), pre[:len(pre)/2]}
			for _, a := range frag {
				for _, b := range frag {
					for _, s := range []string{pre + a + b, a + pre + b, strings.ToUpper(pre) + a + b} {
						add(c08Case{Family: "DecodeAddress", Input: mc.Hex([]byte(s)), Net: n.Name})
					}
				}
			}
		}
	}
	// checksum-valid strings with k symbols after the colon, k = 0..10
	letters := "abcdefghijklmnopqrstuvwxyz"
	var prefixes []string
	for _, a := range letters {
		prefixes = append(prefixes, string(a))
		for _, b := range letters {
			prefixes = append(prefixes, string(a)+string(b))
			if true {
				for _, d := range letters {
					prefixes = append(prefixes, string(a)+string(b)+string(d))
				}
			}
		}
	}
	prefixes = append(prefixes, "bitcoincash", "bchtest", "bchreg", "bchsim", "simpleledger", "slptest", "slpreg")
	short := 0
	for _, p := range prefixes {
		for k := 0; k < 8; k++ {
			if x, ok := c08SolveShort(p, k); ok {
				short++
				s := p + ":" + ref.CashEncodeSymbols(p, nil)[:0] + symbolsString(x)
				add(c08Case{Family: "DecodeCashAddress", Input: mc.Hex([]byte(s))})
				add(c08Case{Family: "DecodeCashAddress", Input: mc.Hex([]byte(strings.ToUpper(s)))})
				add(c08Case{Family: "DecodeAddress", Input: mc.Hex([]byte(s)), Net: "mainnet"})
			}
		}
		for k := 0; k <= 2; k++ { // 8..10 symbols: an empty or 1-2 symbol payload with a valid checksum
			pl := make([]byte, k)
			s := p + ":" + ref.CashEncodeSymbols(p, pl)
			add(c08Case{Family: "DecodeCashAddress", Input: mc.Hex([]byte(s))})
			for _, net := range []string{"mainnet", "testnet3", "regtest", "simnet"} {
				add(c08Case{Family: "DecodeAddress", Input: mc.Hex([]byte(s)), Net: net})
				add(c08Case{Family: "DecodeAddress", Input: mc.Hex([]byte(ref.CashEncodeSymbols(p, pl))), Net: net})
			}
		}
	}

	// 2. the string spaces of C05/C06/C07 under the panic/step/alloc oracles (structure-aware part)
	{
		x, _ := c04RefDerive(mc.UnHex(bip32Vectors[0].seed), nil, -1)
		p := x.Payload(ref.Nets[0].HDPriv)
		ck := ref.DoubleSHA256(p)
		full := append(append([]byte{}, p...), ck[:4]...)
		for L := 0; L <= 90; L++ {
			b := make([]byte, L)
			copy(b, full)
			raw := c05Raw{Hex: mc.Hex(b), FixSum: L >= 4}
			s, _ := raw.build()
			add(c08Case{Family: "NewKeyFromString", Input: mc.Hex([]byte(s))})
		}
		for t := 0; t < 256; t++ {
			m := append([]byte{}, full...)
			m[45] = byte(t)
			raw := c05Raw{Hex: mc.Hex(m), FixSum: true}
			s, _ := raw.build()
			add(c08Case{Family: "NewKeyFromString", Input: mc.Hex([]byte(s))})
		}
		for L := 0; L <= 45; L++ {
			b := make([]byte, L)
			for i := range b {
				b[i] = byte(0x80 + i)
			}
			if L >= 4 {
				ck := ref.DoubleSHA256(b[:L-4])
				copy(b[L-4:], ck[:4])
			}
			add(c08Case{Family: "DecodeWIF", Input: mc.Hex([]byte(ref.B58Encode(b)))}, c08Case{Family: "base58", Input: mc.Hex([]byte(ref.B58Encode(b)))})
		}
		for _, s := range append(append([]string{}, bip173Valid...), bip173Invalid...) {
			add(c08Case{Family: "bech32", Input: mc.Hex([]byte(s))})
		}
		for L := 0; L <= 95; L++ {
			add(c08Case{Family: "bech32", Input: mc.Hex([]byte(strings.Repeat("q", L)))}, c08Case{Family: "bech32", Input: mc.Hex([]byte("a1" + strings.Repeat("q", L)))},
				c08Case{Family: "base58", Input: mc.Hex([]byte(strings.Repeat("1", L)))}, c08Case{Family: "base58", Input: mc.Hex([]byte(strings.Repeat("z", L)))})
		}
	}

	// long inputs for every string parser (length ladder)
	for _, L := range []int{255, 256, 257, 1000, 4096, 65536} {
		for _, ch := range []string{"q", "1", "z", "a", ":", "Q"} {
			sLong := strings.Repeat(ch, L)
			for _, fam := range []string{"DecodeCashAddress", "DecodeWIF", "base58", "bech32", "NewKeyFromString"} {
				if L > 4096 && (fam == "base58" || fam == "DecodeWIF" || fam == "NewKeyFromString") && ch != "1" {
					continue // base-58 conversion of 65536 digits is quadratic big-integer work inside math/big (not counted, minutes of wall time)
				}
				add(c08Case{Family: fam, Input: mc.Hex([]byte(sLong))})
			}
			add(c08Case{Family: "DecodeAddress", Input: mc.Hex([]byte(sLong)), Net: "mainnet"})
			add(c08Case{Family: "DecodeAddress", Input: mc.Hex([]byte("bitcoincash:" + sLong)), Net: "mainnet"})
			add(c08Case{Family: "DecodeCashAddress", Input: mc.Hex([]byte("bitcoincash:" + sLong))})
		}
	}

	// 3. serialized transactions and blocks
	honest := c08HonestTxs()
	countRepl := [][]byte{{0xfc}, {0xfd, 0xff, 0xff}, {0xfe, 0x00, 0x00, 0x10, 0x00}, {0xfe, 0xff, 0xff, 0xff, 0xff}, {0xff, 0xff, 0xff, 0xff, 0xff, 0xff, 0xff, 0xff, 0xff}}
	mutate := func(family string, ser []byte, full bool) {
		for L := 0; L <= len(ser); L++ {
			add(c08Case{Family: family, Input: mc.Hex(ser[:L])})
		}
		step := 1
		if !full {
			step = 17
		}
		for pos := 0; pos < len(ser); pos++ {
			for v := 0; v < 256; v += step {
				if byte(v) == ser[pos] {
					continue
				}
				m := append([]byte{}, ser...)
				m[pos] = byte(v)
				add(c08Case{Family: family, Input: mc.Hex(m)})
			}
			for _, r := range countRepl { // replace the byte at pos by a (possibly longer) CompactSize
				m := append(append(append([]byte{}, ser[:pos]...), r...), ser[pos+1:]...)
				add(c08Case{Family: family, Input: mc.Hex(m)})
			}
		}
	}
	for _, tx := range honest {
		var b bytes.Buffer
		tx.Serialize(&b)
		mutate("NewTxFromBytes", b.Bytes(), true)
	}
	for i, blk := range c08HonestBlocks(honest) {
		var b bytes.Buffer
		blk.Serialize(&b)
		mutate("NewBlockFromBytes", b.Bytes(), i == 0 || c.Thorough())
	}

	// 3b. scripts whose push opcodes CLAIM lengths: a coinbase plus one transaction carrying the script
	// as an output script and as a signature script, parsed from bytes and sent through everything
	// that walks scripts (filter matching, proof builders, compact filters).  Claimed lengths: small
	// values, the width boundaries, 2^31 and the last sixteen values below 2^32 (an offset plus such a
	// length wraps in 32-bit arithmetic), after each of five script prefixes.
	{
		var scripts [][]byte
		le := func(v uint64, w int) []byte {
			b := make([]byte, w)
			for i := 0; i < w; i++ {
				b[i] = byte(v >> (8 * uint(i)))
			}
			return b
		}
		claims := map[byte][]uint64{
			0x4c: {0, 1, 2, 0x4b, 0x4c, 0x7f, 0x80, 0xfe, 0xff},
			0x4d: {0, 1, 0xff, 0x100, 0x7fff, 0x8000, 0xfffe, 0xffff},
			0x4e: {0, 1, 0xffff, 0x10000, 0x7fffffff, 0x80000000, 0x80000001},
		}
		for v := uint64(0xfffffff0); v <= 0xffffffff; v++ {
			claims[0x4e] = append(claims[0x4e], v)
		}
		for _, pre := range [][]byte{{}, {0x6a}, {0x6a, 0x04, 1, 2, 3, 4}, {0x51}, {0x76, 0xa9, 0x14}} {
			for op, w := range map[byte]int{0x4c: 1, 0x4d: 2, 0x4e: 4} {
				for _, v := range claims[op] {
					for _, tail := range [][]byte{{}, {0xaa, 0xbb}, bytes.Repeat([]byte{0xcc}, 40)} {
						sc := append(append(append(append([]byte{}, pre...), op), le(v, w)...), tail...)
						scripts = append(scripts, sc)
					}
				}
			}
			for op := byte(1); op <= 0x4b; op += 0x25 { // direct pushes with too little data behind them
				scripts = append(scripts, append(append([]byte{}, pre...), op), append(append([]byte{}, pre...), op, 0x01))
			}
		}
		sort.Slice(scripts, func(i, j int) bool { return bytes.Compare(scripts[i], scripts[j]) < 0 })
		for _, sc := range scripts {
			for pos := 0; pos < 2; pos++ {
				tx := wire.NewMsgTx(1)
				sig, pk := []byte{0x51}, []byte{0x51}
				if pos == 0 {
					pk = sc
				} else {
					sig = sc
				}
				tx.AddTxIn(wire.NewTxIn(&wire.OutPoint{Hash: chainhash.Hash{0x42}, Index: 1}, sig))
				tx.AddTxOut(wire.NewTxOut(7, pk, wire.TokenData{}))
				var tb bytes.Buffer
				tx.Serialize(&tb)
				add(c08Case{Family: "NewTxFromBytes", Input: mc.Hex(tb.Bytes())})
				blk := wire.NewMsgBlock(fixedHeader(1, &chainhash.Hash{1}, &chainhash.Hash{2}, 3, 4))
				blk.AddTransaction(honest[0])
				blk.AddTransaction(tx)
				var bb bytes.Buffer
				blk.Serialize(&bb)
				add(c08Case{Family: "NewBlockFromBytes", Input: mc.Hex(bb.Bytes())})
			}
		}
	}

	// 4. bloom
	for _, flen := range []int{0, 1, 2, 36000} {
		for _, k := range []int{0, 1, 50} {
			for fl := 0; fl <= 3; fl++ {
				for sel := 0; sel < 120; sel++ {
					if sel < 40 && !(sel <= 5 || sel == 32 || sel == 36) {
						continue
					}
					if sel >= 41 && sel < 80 {
						continue
					}
					add(c08Case{Family: "bloom", A: int64(flen), B: int64(k), C: int64(fl), D: int64(sel)})
				}
			}
		}
	}
	// 4a. long runs of matched data pushes in one output script
	for _, n := range []int{100, 1000, 5000, 20000, 30000} {
		for b := int64(0); b < 2; b++ {
			for fl := int64(0); fl < 3; fl++ {
				add(c08Case{Family: "bloom-pushes", A: int64(n), B: b, C: fl})
			}
		}
	}
	// 4b. two filter-load messages in a row on one filter object
	for _, la := range []int{0, 1, 2, 4, 512, 36000} {
		for _, lb := range []int{0, 1, 2, 4, 512, 36000} {
			for _, ks := range []int{0, 1, 100, 101, 150, 5001, 5050} {
				for d := 0; d < 24; d++ {
					add(c08Case{Family: "bloom-reload", A: int64(la), B: int64(lb), C: int64(ks), D: int64(d)})
				}
			}
		}
	}
	// 5. growth family
	for n := 2; n <= mc.Pick(c, 14, 18); n++ {
		add(c08Case{Family: "GetMatchedIndices-growth", A: int64(n)})
	}
	for n := 4; n <= mc.Pick(c, 40, 60); n += 2 { // the ladder shape (B = 1): n/2 layers
		add(c08Case{Family: "GetMatchedIndices-growth", A: int64(n), B: 1})
	}
	// 6. merkle-block messages
	for _, cnt := range []int64{0, 1, 2, 3, 7, int64(merkleblock.MaxTxnCount), int64(merkleblock.MaxTxnCount) + 1, 1<<32 - 1} {
		for nh := 0; nh <= 4; nh++ {
			for fb := 0; fb < 257+256; fb++ {
				var fl []byte
				switch {
				case fb == 0:
				case fb <= 256:
					fl = []byte{byte(fb - 1)}
				default:
					fl = []byte{byte(fb - 257), 0xff, 0xff, 0xff}
				}
				add(c08Case{Family: "merkleblock", Input: mc.Hex(fl), A: cnt, B: int64(nh)})
			}
		}
	}
	// 7. serialized GCS filters
	all := allBytes()
	for n := 0; n <= 2; n++ {
		for i := int64(0); i < ipow(256, n); i++ {
			if n == 2 && i%mc.Pick(c, int64(3), int64(1)) != 0 {
				continue
			}
			b := bytesOfLen(all, n, i)
			for _, p := range []int64{0, 19, 32} {
				add(c08Case{Family: "gcs", Input: mc.Hex(b), A: p, B: 1, C: 1})
			}
		}
	}
	for _, N := range []uint64{0, 1, 2, 252, 253, 1 << 16, 1 << 20, 1<<32 - 1, 1 << 32} {
		for _, tail := range [][]byte{{}, {0x00}, {0xff}, {0x55, 0xaa, 0x01}, {0xff, 0xff, 0xff}} {
			for _, p := range []int64{0, 1, 19, 32, 33} {
				for mi := int64(0); mi < 3; mi++ {
					for q := int64(0); q <= 2; q++ {
						add(c08Case{Family: "gcs", Input: mc.Hex(append(ref.CompactSize(N), tail...)), A: p, B: mi, C: q})
						if N < 1<<32 {
							add(c08Case{Family: "gcs", Input: mc.Hex(tail), A: p, B: mi, C: q, D: int64(N)<<8 | 1})
						}
					}
				}
			}
		}
	}
	// 7b. declared element counts at which 32-bit arithmetic on N wraps: N*(P+1) crossing a multiple of
	// 2^32 (a bound computed from the count and the bits per element), powers of two and 3*2^j
	{
		nset := map[uint64]bool{}
		for j := uint(16); j < 32; j++ {
			nset[1<<j], nset[3<<j&(1<<32-1)], nset[1<<j-1] = true, true, true
		}
		for _, d := range []uint64{2, 20, 21, 33, 34} {
			for k := uint64(1); k < d; k++ {
				base := (k<<32 + d - 1) / d
				nset[base], nset[base+1] = true, true
			}
		}
		var ns []uint64
		for n := range nset {
			if n > 0 && n < 1<<32 {
				ns = append(ns, n)
			}
		}
		sort.Slice(ns, func(i, j int) bool { return ns[i] < ns[j] })
		for _, N := range ns {
			for _, tail := range [][]byte{{}, {0x00, 0x00, 0x00}, {0xff, 0xff, 0xff}} {
				for _, p := range []int64{0, 1, 19, 20, 32, 33} {
					add(c08Case{Family: "gcs", Input: mc.Hex(append(ref.CompactSize(N), tail...)), A: p, B: 1, C: 1})
					add(c08Case{Family: "gcs", Input: mc.Hex(tail), A: p, B: 1, C: 1, D: int64(N)<<8 | 1})
				}
			}
		}
	}
	// 8. JSON
	for _, doc := range c08JSONDocs(mc.Pick(c, 3, 4)) {
		add(c08Case{Family: "jsonpb", Text: doc})
	}

	return cases, short
}

func init() {
	Registry["C08"].Lookup = func(c *mc.Ctx, seq, idx int64) (string, any) {
		cases, _ := c08Cases(c)
		if idx < 0 || idx >= int64(len(cases)) {
			return "unknown", map[string]int64{"index": idx}
		}
		return cases[idx].Family, cases[idx]
	}
}
