//go:build !nohook_bech32

package props

import "github.com/gcash/bchutil/bech32"

var hookBechPolymod func([]int) int = bech32.VerifPolymod
var hookBechHrpExpand func(string) []int = bech32.VerifHrpExpand
var hookBechVerify func(string, []byte) bool = bech32.VerifVerifyChecksum
