package mc

import (
	"fmt"
	"os"
	"strconv"
	"sync"
	"sync/atomic"
	"time"
)

// Watchdog.  The checks call the library under test directly; a changed library that no longer
// terminates on some input would make a check hang instead of reporting.  Every ParFor worker
// records which (ParFor call, index) it is working on and a coarse time stamp; a monitor reports a
// worker that has not moved to another index for the hang limit as a violation
// "evaluation-does-not-terminate" with that (call, index) as the replayable case, and ends the run.
// The limit is generous (quick 900 s, thorough 3600 s for ONE index; the longest index of the
// unchanged tree takes about a minute), so a loaded machine does not trip it.

var (
	watchTick  atomic.Int64 // seconds since the monitor started
	watchOnce  sync.Once
	watchMu    sync.Mutex
	watchSlots = map[*watchSlot]struct{}{}
	watchCtx   *Ctx

	onlySeq int64 // replay of one (ParFor call, index): every other index is skipped
	onlyIdx int64 = -1
)

type watchSlot struct {
	seq  int64
	idx  atomic.Int64
	beat atomic.Int64
}

// SetOnly restricts every ParFor to the given (call sequence number, index): replay of a case that is
// identified by its position in the enumeration.
func SetOnly(seq, idx int64) { onlySeq, onlyIdx = seq, idx }

func hangLimit(c *Ctx) int64 {
	if v, err := strconv.ParseInt(os.Getenv("VERIF_HANG_SECS"), 10, 64); err == nil && v > 0 {
		return v
	}
	if c != nil && c.Thorough() {
		return 3600
	}
	return 900
}

func startWatch(c *Ctx) {
	watchOnce.Do(func() {
		watchCtx = c
		go func() {
			for {
				time.Sleep(time.Second)
				now := watchTick.Add(1)
				limit := hangLimit(watchCtx)
				watchMu.Lock()
				var stuck *watchSlot
				for s := range watchSlots {
					if now-s.beat.Load() > limit {
						stuck = s
						break
					}
				}
				watchMu.Unlock()
				if stuck != nil {
					reportHang(stuck.seq, stuck.idx.Load(), limit)
				}
			}
		}()
	})
}

// ParforCase is the generic, position-based description of a case (see SetOnly).
type ParforCase struct {
	Seq   int64 `json:"parfor_call"`
	Index int64 `json:"index"`
}

func reportHang(seq, idx, limit int64) {
	if IsShardWorker() {
		// the parent attributes it (it knows how to look the case up)
		fmt.Fprintf(os.Stderr, "VERIF-HANG seq=%d index=%d: no progress for %d s\n", seq, idx, limit)
		os.Exit(4)
	}
	c := watchCtx
	c.NotExhaustive(fmt.Sprintf("the run was ended because one evaluation did not terminate within %d s", limit))
	c.Violate("evaluation-does-not-terminate", "parfor", ParforCase{seq, idx}, fmt.Sprintf("the evaluation at index %d of enumeration call %d made no progress for %d s (a call into the library under test does not return)", idx, seq, limit))
	os.Exit(c.Finish())
}

func watchEnter(c *Ctx, seq int64) *watchSlot {
	startWatch(c)
	s := &watchSlot{seq: seq}
	s.beat.Store(watchTick.Load())
	watchMu.Lock()
	watchSlots[s] = struct{}{}
	watchMu.Unlock()
	return s
}

func (s *watchSlot) at(i int64) {
	s.idx.Store(i)
	s.beat.Store(watchTick.Load())
}

func (s *watchSlot) leave() {
	watchMu.Lock()
	delete(watchSlots, s)
	watchMu.Unlock()
}
