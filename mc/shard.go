package mc

import (
	"encoding/json"
	"fmt"
	"os"
	"os/exec"
	"path/filepath"
	"strconv"
	"sync"
)

// Process sharding.  bchd/wire funnels every (de)serialisation through one global channel-based
// free list, so goroutine parallelism collapses for checks that serialise transactions.  Such
// checks run as N single-threaded worker processes; ParFor hands chunk j to shard j mod N, so the
// shards partition every index range exactly.  Each worker exports its partial counters and the
// parent merges them; nothing is sampled or skipped.

var shardK, shardN = func() (int, int) {
	k, err1 := strconv.Atoi(os.Getenv("VERIF_SHARD"))
	n, err2 := strconv.Atoi(os.Getenv("VERIF_NSHARDS"))
	if err1 != nil || err2 != nil || n < 1 || k < 0 || k >= n {
		return 0, 1
	}
	return k, n
}()

// announce file: a shard worker records (ParFor sequence number, index) of the case it is about
// to run, so that a worker killed by the runtime (out of memory, stack overflow) can be attributed
// to the input that killed it.
var announceFile = func() *os.File {
	p := os.Getenv("VERIF_ANNOUNCE")
	if p == "" {
		return nil
	}
	f, err := os.OpenFile(p, os.O_CREATE|os.O_WRONLY|os.O_TRUNC, 0o644)
	if err != nil {
		return nil
	}
	return f
}()

var parforSeq int64

func announce(seq, i int64) {
	if announceFile == nil {
		return
	}
	var b [16]byte
	for k := 0; k < 8; k++ {
		b[k] = byte(seq >> (8 * k))
		b[8+k] = byte(i >> (8 * k))
	}
	announceFile.WriteAt(b[:], 0)
}

// Death describes a shard worker that did not finish.
type Death struct {
	Shard  int
	Seq    int64 // which ParFor call of the run (1-based), 0 if none was announced
	Index  int64
	Output string
}

// IsShardWorker reports whether this process is one shard of a sharded run.
func IsShardWorker() bool { return shardN > 1 }

// Shard0 is true in unsharded runs and in shard 0: sequential sections of a sharded check that
// are not expressed through ParFor must be guarded by it so they are executed exactly once.
func Shard0() bool { return shardK == 0 }

type partial struct {
	Evals, States, Trans, Traces int64
	Outcomes                     map[string]int64
	NT                           []uint64
	NTOverflow                   int64
	Samples                      []sampleRec
	Viol                         []Violation
	ViolCount                    map[string]int64
	AllHashes                    map[string][]uint64
	Extra                        map[string]any
	Assume                       []string
	Rule                         string
	Exhaustive                   bool
	Spaces                       []string
}

// ExportPartial writes this shard's accumulated state.
func (c *Ctx) ExportPartial(path string) error {
	c.mu.Lock()
	defer c.mu.Unlock()
	p := partial{Evals: c.Evals.Load(), States: c.States.Load(), Trans: c.Transitions.Load(), Traces: c.Traces.Load(),
		Outcomes: c.outcomes, NTOverflow: c.ntOverflow, Samples: exportSamples(c.samples), Viol: c.viol, ViolCount: c.violCount,
		AllHashes: c.allHashes, Extra: c.extra, Assume: c.assume, Rule: c.rule, Exhaustive: c.Exhaustive, Spaces: c.spaces}
	for k := range c.nontrivial {
		p.NT = append(p.NT, k)
	}
	b, err := json.Marshal(p)
	if err != nil {
		return err
	}
	return os.WriteFile(path, b, 0o644)
}

func (c *Ctx) mergePartial(p *partial, first bool) {
	c.Evals.Add(p.Evals)
	c.States.Add(p.States)
	c.Transitions.Add(p.Trans)
	c.Traces.Add(p.Traces)
	c.mu.Lock()
	defer c.mu.Unlock()
	for k, v := range p.Outcomes {
		c.outcomes[k] += v
	}
	for _, k := range p.NT {
		if len(c.nontrivial) < ntCap {
			c.nontrivial[k] = struct{}{}
		} else if _, ok := c.nontrivial[k]; !ok {
			c.ntOverflow++
		}
	}
	c.ntOverflow += p.NTOverflow
	for class, n := range p.ViolCount {
		c.violCount[class] += n
	}
	for _, v := range p.Viol {
		n := 0
		for _, e := range c.viol {
			if e.Class == v.Class {
				n++
			}
		}
		if n < 50 {
			c.viol = append(c.viol, v)
		}
	}
	if c.allHashes == nil {
		c.allHashes = map[string][]uint64{}
	}
	for class, hs := range p.AllHashes {
		c.allHashes[class] = append(c.allHashes[class], hs...)
	}
	if !p.Exhaustive {
		c.Exhaustive = false
	}
	if first {
		c.samples = importSamples(p.Samples)
		c.assume = p.Assume
		c.rule = p.Rule
		c.spaces = p.Spaces
	}
	for k, v := range p.Extra {
		if _, ok := c.extra[k]; !ok || first {
			c.extra[k] = v
		}
	}
}

// RunSharded re-executes this binary as n single-threaded shard processes and merges their
// results into c.  A worker that dies is a harness error (returns an error), never a verdict.
func (c *Ctx) RunSharded(n int, args []string) ([]Death, error) {
	dir := filepath.Join(Root, ".build", "shards")
	if b := os.Getenv("VERIF_BUILD"); b != "" {
		dir = filepath.Join(b, "shards")
	}
	if err := os.MkdirAll(dir, 0o755); err != nil {
		return nil, err
	}
	paths := make([]string, n)
	ann := make([]string, n)
	errs := make([]error, n)
	outs := make([][]byte, n)
	var wg sync.WaitGroup
	for k := 0; k < n; k++ {
		paths[k] = filepath.Join(dir, fmt.Sprintf("%s-%s-%d-%d.json", c.ID, c.Tier, os.Getpid(), k))
		ann[k] = paths[k] + ".announce"
		wg.Add(1)
		go func(k int) {
			defer wg.Done()
			cmd := exec.Command(os.Args[0], args...)
			cmd.Env = append(os.Environ(), fmt.Sprintf("VERIF_SHARD=%d", k), fmt.Sprintf("VERIF_NSHARDS=%d", n),
				"GOMAXPROCS=1", "VERIF_PARTIAL="+paths[k], "VERIF_ANNOUNCE="+ann[k])
			outs[k], errs[k] = cmd.CombinedOutput()
		}(k)
	}
	wg.Wait()
	defer func() {
		for k := range paths {
			os.Remove(paths[k])
			os.Remove(ann[k])
		}
	}()
	var deaths []Death
	first := true
	for k := 0; k < n; k++ {
		b, rerr := os.ReadFile(paths[k])
		if errs[k] != nil || rerr != nil {
			d := Death{Shard: k, Output: tail(string(outs[k]), 4000)}
			if ab, err := os.ReadFile(ann[k]); err == nil && len(ab) >= 16 {
				for i := 7; i >= 0; i-- {
					d.Seq = d.Seq<<8 | int64(ab[i])
					d.Index = d.Index<<8 | int64(ab[8+i])
				}
			}
			deaths = append(deaths, d)
			continue
		}
		var p partial
		if err := json.Unmarshal(b, &p); err != nil {
			return nil, fmt.Errorf("shard %d result unreadable: %v", k, err)
		}
		c.mergePartial(&p, first)
		first = false
	}
	c.mu.Lock()
	c.extra["shard_processes"] = n
	c.mu.Unlock()
	return deaths, nil
}

func tail(s string, n int) string {
	if len(s) > n {
		return s[len(s)-n:]
	}
	return s
}

// sampleRec carries a recorded sample between processes with its case as raw JSON: decoded into
// `any`, integers above 2^53 would come back as rounded floats and no longer fit their fields.
type sampleRec struct {
	Kind string          `json:"kind"`
	Case json.RawMessage `json:"case"`
}

func exportSamples(in []any) []sampleRec {
	var out []sampleRec
	for _, s := range in {
		m, ok := s.(map[string]any)
		if !ok {
			continue
		}
		kind, _ := m["kind"].(string)
		raw, err := json.Marshal(m["case"])
		if err != nil {
			continue
		}
		out = append(out, sampleRec{kind, raw})
	}
	return out
}

func importSamples(in []sampleRec) []any {
	var out []any
	for _, r := range in {
		out = append(out, map[string]any{"kind": r.Kind, "case": r.Case})
	}
	return out
}
