package mc

import (
	"encoding/json"
	"fmt"
	"os"
	"os/exec"
	"path/filepath"
	"strconv"
	"sync"
)

// Process sharding.  bchd/wire funnels every (de)serialisation through one global channel-based
// free list, so goroutine parallelism collapses for checks that serialise transactions.  Such
// checks run as N single-threaded worker processes; ParFor hands chunk j to shard j mod N, so the
// shards partition every index range exactly.  Each worker exports its partial counters and the
// parent merges them; nothing is sampled or skipped.

var shardK, shardN = func() (int, int) {
	k, err1 := strconv.Atoi(os.Getenv("VERIF_SHARD"))
	n, err2 := strconv.Atoi(os.Getenv("VERIF_NSHARDS"))
	if err1 != nil || err2 != nil || n < 1 || k < 0 || k >= n {
		return 0, 1
	}
	return k, n
}()

// IsShardWorker reports whether this process is one shard of a sharded run.
func IsShardWorker() bool { return shardN > 1 }

// Shard0 is true in unsharded runs and in shard 0: sequential sections of a sharded check that
// are not expressed through ParFor must be guarded by it so they are executed exactly once.
func Shard0() bool { return shardK == 0 }

type partial struct {
	Evals, States, Trans, Traces int64
	Outcomes                     map[string]int64
	NT                           []uint64
	NTOverflow                   int64
	Samples                      []any
	Viol                         []Violation
	ViolCount                    map[string]int64
	AllHashes                    map[string][]uint64
	Extra                        map[string]any
	Assume                       []string
	Rule                         string
	Exhaustive                   bool
	Spaces                       []string
}

// ExportPartial writes this shard's accumulated state.
func (c *Ctx) ExportPartial(path string) error {
	c.mu.Lock()
	defer c.mu.Unlock()
	p := partial{Evals: c.Evals.Load(), States: c.States.Load(), Trans: c.Transitions.Load(), Traces: c.Traces.Load(),
		Outcomes: c.outcomes, NTOverflow: c.ntOverflow, Samples: c.samples, Viol: c.viol, ViolCount: c.violCount,
		AllHashes: c.allHashes, Extra: c.extra, Assume: c.assume, Rule: c.rule, Exhaustive: c.Exhaustive, Spaces: c.spaces}
	for k := range c.nontrivial {
		p.NT = append(p.NT, k)
	}
	b, err := json.Marshal(p)
	if err != nil {
		return err
	}
	return os.WriteFile(path, b, 0o644)
}

func (c *Ctx) mergePartial(p *partial, first bool) {
	c.Evals.Add(p.Evals)
	c.States.Add(p.States)
	c.Transitions.Add(p.Trans)
	c.Traces.Add(p.Traces)
	c.mu.Lock()
	defer c.mu.Unlock()
	for k, v := range p.Outcomes {
		c.outcomes[k] += v
	}
	for _, k := range p.NT {
		if len(c.nontrivial) < ntCap {
			c.nontrivial[k] = struct{}{}
		} else if _, ok := c.nontrivial[k]; !ok {
			c.ntOverflow++
		}
	}
	c.ntOverflow += p.NTOverflow
	for class, n := range p.ViolCount {
		c.violCount[class] += n
	}
	for _, v := range p.Viol {
		n := 0
		for _, e := range c.viol {
			if e.Class == v.Class {
				n++
			}
		}
		if n < 50 {
			c.viol = append(c.viol, v)
		}
	}
	if c.allHashes == nil {
		c.allHashes = map[string][]uint64{}
	}
	for class, hs := range p.AllHashes {
		c.allHashes[class] = append(c.allHashes[class], hs...)
	}
	if !p.Exhaustive {
		c.Exhaustive = false
	}
	if first {
		c.samples = p.Samples
		c.assume = p.Assume
		c.rule = p.Rule
		c.spaces = p.Spaces
	}
	for k, v := range p.Extra {
		if _, ok := c.extra[k]; !ok || first {
			c.extra[k] = v
		}
	}
}

// RunSharded re-executes this binary as n single-threaded shard processes and merges their
// results into c.  A worker that dies is a harness error (returns an error), never a verdict.
func (c *Ctx) RunSharded(n int, args []string) error {
	dir := filepath.Join(Root, ".build", "shards")
	if b := os.Getenv("VERIF_BUILD"); b != "" {
		dir = filepath.Join(b, "shards")
	}
	if err := os.MkdirAll(dir, 0o755); err != nil {
		return err
	}
	paths := make([]string, n)
	errs := make([]error, n)
	outs := make([][]byte, n)
	var wg sync.WaitGroup
	for k := 0; k < n; k++ {
		paths[k] = filepath.Join(dir, fmt.Sprintf("%s-%s-%d-%d.json", c.ID, c.Tier, os.Getpid(), k))
		wg.Add(1)
		go func(k int) {
			defer wg.Done()
			cmd := exec.Command(os.Args[0], args...)
			cmd.Env = append(os.Environ(), fmt.Sprintf("VERIF_SHARD=%d", k), fmt.Sprintf("VERIF_NSHARDS=%d", n),
				"GOMAXPROCS=1", "VERIF_PARTIAL="+paths[k])
			outs[k], errs[k] = cmd.CombinedOutput()
		}(k)
	}
	wg.Wait()
	defer func() {
		for _, p := range paths {
			os.Remove(p)
		}
	}()
	for k := 0; k < n; k++ {
		if errs[k] != nil {
			return fmt.Errorf("shard %d failed: %v\n%s", k, errs[k], outs[k])
		}
		b, err := os.ReadFile(paths[k])
		if err != nil {
			return fmt.Errorf("shard %d left no result: %v\n%s", k, err, outs[k])
		}
		var p partial
		if err := json.Unmarshal(b, &p); err != nil {
			return fmt.Errorf("shard %d result unreadable: %v", k, err)
		}
		c.mergePartial(&p, k == 0)
	}
	c.mu.Lock()
	c.extra["shard_processes"] = n
	c.mu.Unlock()
	return nil
}
