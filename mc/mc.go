// Package mc is the shared kernel of the bounded exhaustive checks: indexable
// enumeration, sharding over workers, evidence and violation reporting, and the
// known-findings matcher.  Nothing in here samples: every space has a size and is
// visited index by index.
package mc

import (
	"crypto/sha256"
	"encoding/hex"
	"encoding/json"
	"fmt"
	"os"
	"path/filepath"
	"runtime"
	"sort"
	"strconv"
	"strings"
	"sync"
	"sync/atomic"
	"time"
)

// Root is the /verif directory (evidence, replays, known findings live below it).
var Root = func() string {
	if r := os.Getenv("VERIF_ROOT"); r != "" {
		return r
	}
	return "/verif"
}()

// Violation is one failing case.  Class is a stable identifier of *what* failed (the
// oracle branch and the call site), Case is the replayable input / history.
type Violation struct {
	Property string          `json:"property"`
	Class    string          `json:"class"`
	Kind     string          `json:"kind"` // names the replayer that re-executes Case
	Case     json.RawMessage `json:"case"`
	Detail   string          `json:"detail"`
}

// Ctx collects what one run of one check covered.
type Ctx struct {
	ID    string
	Tier  string
	Seed  int64
	start time.Time

	Evals       atomic.Int64 // cases evaluated (calls into the code under test with an oracle)
	States      atomic.Int64 // distinct states / inputs enumerated
	Transitions atomic.Int64 // operations executed on real objects
	Traces      atomic.Int64 // traces of the reference model replayed against the implementation

	mu         sync.Mutex
	outcomes   map[string]int64
	nontrivial map[uint64]struct{}
	ntOverflow int64
	samples    []any
	viol       []Violation
	violCount  map[string]int64
	allHashes  map[string][]uint64
	extra      map[string]any
	assume     []string
	rule       string
	Exhaustive bool
	Replaying  bool
	spaces     []string
}

func NewCtx(id, tier string) *Ctx {
	seed, _ := strconv.ParseInt(os.Getenv("VERIF_SEED"), 10, 64)
	return &Ctx{ID: id, Tier: tier, Seed: seed, start: time.Now(),
		outcomes: map[string]int64{}, nontrivial: map[uint64]struct{}{},
		violCount: map[string]int64{}, extra: map[string]any{}, Exhaustive: true}
}

func (c *Ctx) Quick() bool    { return c.Tier != "thorough" }
func (c *Ctx) Thorough() bool { return c.Tier == "thorough" }

// Pick returns q on the quick tier and t on the thorough tier.
func Pick[T any](c *Ctx, q, t T) T {
	if c.Thorough() {
		return t
	}
	return q
}

func (c *Ctx) Rule(s string)   { c.rule = s }
func (c *Ctx) Assume(s string) { c.mu.Lock(); c.assume = append(c.assume, s); c.mu.Unlock() }
func (c *Ctx) Note(k string, v any) {
	c.mu.Lock()
	c.extra[k] = v
	c.mu.Unlock()
}

// Space records one enumerated space (name and size) in the evidence.
func (c *Ctx) Space(name string, size int64) {
	c.mu.Lock()
	c.spaces = append(c.spaces, fmt.Sprintf("%s: %d", name, size))
	c.mu.Unlock()
}

// NotExhaustive marks that a cap or deadline was hit.
func (c *Ctx) NotExhaustive(why string) {
	c.mu.Lock()
	c.Exhaustive = false
	c.extra["not_exhaustive_because"] = why
	c.mu.Unlock()
}

// W is a per-worker accumulator (no contention on the hot path).
type W struct {
	c        *Ctx
	outcomes map[string]int64
	nt       map[uint64]struct{}
	evals    int64
	states   int64
	trans    int64
	traces   int64
}

func (c *Ctx) Worker() *W {
	return &W{c: c, outcomes: map[string]int64{}, nt: map[uint64]struct{}{}}
}

func (w *W) Eval()                      { w.evals++ }
func (w *W) EvalN(n int64)              { w.evals += n }
func (w *W) State()                     { w.states++ }
func (w *W) StateN(n int64)             { w.states += n }
func (w *W) Trans()                     { w.trans++ }
func (w *W) TransN(n int64)             { w.trans += n }
func (w *W) Trace()                     { w.traces++ }
func (w *W) Outcome(k string)           { w.outcomes[k]++ }
func (w *W) Ctx() *Ctx                  { return w.c }
func (w *W) OutcomeN(k string, n int64) { w.outcomes[k] += n }

// Nontrivial records a case that is non-trivial by the check's rule, identified by a
// 64-bit key (distinctness is counted on the keys).
func (w *W) Nontrivial(key uint64) {
	if len(w.nt) < 1<<16 {
		w.nt[key] = struct{}{}
	} else {
		w.flushNT()
		w.nt[key] = struct{}{}
	}
}

const ntCap = 1 << 21

func (w *W) flushNT() {
	w.c.mu.Lock()
	for k := range w.nt {
		if len(w.c.nontrivial) < ntCap {
			w.c.nontrivial[k] = struct{}{}
		} else if _, ok := w.c.nontrivial[k]; !ok {
			w.c.ntOverflow++ // counted conservatively: not added to distinct count
		}
	}
	w.c.mu.Unlock()
	w.nt = map[uint64]struct{}{}
}

func (w *W) Done() {
	w.c.Evals.Add(w.evals)
	w.c.States.Add(w.states)
	w.c.Transitions.Add(w.trans)
	w.c.Traces.Add(w.traces)
	w.flushNT()
	w.c.mu.Lock()
	for k, v := range w.outcomes {
		w.c.outcomes[k] += v
	}
	w.c.mu.Unlock()
	w.evals, w.states, w.trans, w.traces = 0, 0, 0, 0
	w.outcomes = map[string]int64{}
}

// Sample keeps the first few cases of each kind so a reader can see what they look like.
func (c *Ctx) Sample(kind string, x any) {
	c.mu.Lock()
	defer c.mu.Unlock()
	n := 0
	for _, s := range c.samples {
		if m, ok := s.(map[string]any); ok && m["kind"] == kind {
			n++
		}
	}
	if n < 2 {
		c.samples = append(c.samples, map[string]any{"kind": kind, "case": x})
	}
}

// Violate records a failing case.  kind names the replayer, cas must be JSON-serialisable.
func (c *Ctx) Violate(class, kind string, cas any, detail string) {
	raw, err := json.Marshal(cas)
	if err != nil {
		raw, _ = json.Marshal(fmt.Sprintf("%#v", cas))
	}
	if len(detail) > 800 {
		detail = detail[:800] + fmt.Sprintf("... (%d more bytes)", len(detail)-800)
	}
	c.mu.Lock()
	defer c.mu.Unlock()
	c.violCount[class]++
	// keep every violation's class+case hash (needed for known-finding case sets), but
	// only the first 50 full records per class
	if c.violCount[class] <= 50 {
		c.viol = append(c.viol, Violation{Property: c.ID, Class: class, Kind: kind, Case: raw, Detail: detail})
	}
	h := CaseHash(class, raw)
	if c.allHashes == nil {
		c.allHashes = map[string][]uint64{}
	}
	c.allHashes[class] = append(c.allHashes[class], h)
}

// Violations returns the number of violations recorded so far (all classes).
func (c *Ctx) Violations() int64 {
	c.mu.Lock()
	defer c.mu.Unlock()
	var n int64
	for _, v := range c.violCount {
		n += v
	}
	return n
}

// CaseHash identifies one failing case inside a class.
func CaseHash(class string, raw []byte) uint64 {
	s := sha256.Sum256(append([]byte(class+"\x00"), raw...))
	var h uint64
	for i := 0; i < 8; i++ {
		h = h<<8 | uint64(s[i])
	}
	return h
}

// HashBytes is a small helper for Nontrivial keys.
func HashBytes(parts ...[]byte) uint64 {
	h := uint64(1469598103934665603)
	for _, p := range parts {
		for _, b := range p {
			h ^= uint64(b)
			h *= 1099511628211
		}
		h ^= 0xff
		h *= 1099511628211
	}
	return h
}

func HashString(parts ...string) uint64 {
	h := uint64(1469598103934665603)
	for _, p := range parts {
		for i := 0; i < len(p); i++ {
			h ^= uint64(p[i])
			h *= 1099511628211
		}
		h ^= 0xff
		h *= 1099511628211
	}
	return h
}

// ---------------------------------------------------------------------------------------
// Parallel enumeration: a partition of [0,n) into chunks handed to GOMAXPROCS workers.

func Workers() int {
	if s := os.Getenv("VERIF_WORKERS"); s != "" {
		if n, err := strconv.Atoi(s); err == nil && n > 0 {
			return n
		}
	}
	return runtime.GOMAXPROCS(0)
}

// ParFor visits every index of [0,n) exactly once.  f gets a per-worker accumulator.
func (c *Ctx) ParFor(n int64, f func(w *W, i int64)) {
	if n <= 0 {
		return
	}
	seq := atomic.AddInt64(&parforSeq, 1)
	if onlyIdx >= 0 { // replay of one position of the enumeration
		if seq == onlySeq && onlyIdx < n {
			w := c.Worker()
			ws := watchEnter(c, seq)
			ws.at(onlyIdx)
			f(w, onlyIdx)
			ws.leave()
			w.Done()
		}
		return
	}
	if shardN > 1 {
		// one shard of a multi-process run: this process takes chunks j with j mod N == k
		chunk := n / int64(shardN*16)
		if chunk < 1 {
			chunk = 1
		}
		w := c.Worker()
		defer w.Done()
		ws := watchEnter(c, seq)
		defer ws.leave()
		for j, lo := int64(0), int64(0); lo < n; j, lo = j+1, lo+chunk {
			if j%int64(shardN) != int64(shardK) {
				continue
			}
			hi := lo + chunk
			if hi > n {
				hi = n
			}
			for i := lo; i < hi; i++ {
				announce(seq, i)
				ws.at(i)
				f(w, i)
			}
		}
		return
	}
	nw := Workers()
	chunk := n / int64(nw*16)
	if chunk < 1 {
		chunk = 1
	}
	var next atomic.Int64
	var wg sync.WaitGroup
	for k := 0; k < nw; k++ {
		wg.Add(1)
		go func() {
			defer wg.Done()
			w := c.Worker()
			defer w.Done()
			ws := watchEnter(c, seq)
			defer ws.leave()
			for {
				lo := next.Add(chunk) - chunk
				if lo >= n {
					return
				}
				hi := lo + chunk
				if hi > n {
					hi = n
				}
				for i := lo; i < hi; i++ {
					ws.at(i)
					f(w, i)
				}
			}
		}()
	}
	wg.Wait()
}

// Guard runs f and converts a panic into a string (second result true).
func Guard(f func()) (msg string, panicked bool) {
	defer func() {
		if r := recover(); r != nil {
			msg = fmt.Sprint(r)
			panicked = true
		}
	}()
	f()
	return "", false
}

// ---------------------------------------------------------------------------------------
// Known findings

type Finding struct {
	Property string          `json:"property"`
	ID       string          `json:"id"`
	Status   string          `json:"status"` // "known" | "fixed"
	Commit   string          `json:"commit,omitempty"`
	Class    string          `json:"class"`
	What     string          `json:"what"`
	Witness  json.RawMessage `json:"witness,omitempty"`
	// CaseSets maps tier -> file (relative to /verif) listing the hashes of every case of
	// this class that fails on the unchanged tree in that tier.  When present a case is
	// covered only if its hash is listed, so new failing inputs of the same class alarm.
	CaseSets map[string]string `json:"case_sets,omitempty"`
	Line     string            `json:"line,omitempty"` // the fixed:/known: line required by the brief
}

type findingsFile struct {
	Findings []Finding `json:"findings"`
}

func LoadFindings() []Finding {
	b, err := os.ReadFile(filepath.Join(Root, "known_findings.json"))
	if err != nil {
		return nil
	}
	var ff findingsFile
	if err := json.Unmarshal(b, &ff); err != nil {
		fmt.Fprintln(os.Stderr, "known_findings.json:", err)
		os.Exit(2)
	}
	return ff.Findings
}

func loadCaseSet(rel string) map[uint64]struct{} {
	b, err := os.ReadFile(filepath.Join(Root, rel))
	if err != nil {
		return map[uint64]struct{}{}
	}
	m := map[uint64]struct{}{}
	for _, l := range strings.Fields(string(b)) {
		v, err := strconv.ParseUint(l, 16, 64)
		if err == nil {
			m[v] = struct{}{}
		}
	}
	return m
}

// ---------------------------------------------------------------------------------------
// Finish: classify violations, write evidence, print the verdict lines, return exit code.

type evidence struct {
	PropertyID  string         `json:"property_id"`
	Tier        string         `json:"tier"`
	Seed        int64          `json:"seed"`
	Level       string         `json:"level"`
	Coverage    map[string]any `json:"coverage"`
	Assumptions []string       `json:"assumptions"`
	WallS       float64        `json:"wall_s"`
	Violations  int            `json:"violations"`
}

func (c *Ctx) Finish() int {
	findings := LoadFindings()
	known := map[string]*Finding{} // class -> finding
	sets := map[string]map[uint64]struct{}{}
	for i := range findings {
		f := &findings[i]
		if f.Property == c.ID && f.Status == "known" {
			known[f.Class] = f
			if rel, ok := f.CaseSets[c.Tier]; ok {
				sets[f.Class] = loadCaseSet(rel)
			}
		}
	}

	// classify
	unknownCount := 0
	knownHit := map[string]int64{}
	var unknown []Violation
	classes := make([]string, 0, len(c.violCount))
	for k := range c.violCount {
		classes = append(classes, k)
	}
	sort.Strings(classes)
	for _, class := range classes {
		f := known[class]
		if f == nil {
			unknownCount += int(c.violCount[class])
			for _, v := range c.viol {
				if v.Class == class {
					unknown = append(unknown, v)
				}
			}
			continue
		}
		set, hasSet := sets[class]
		if !hasSet {
			knownHit[class] = c.violCount[class]
			continue
		}
		// per-case check against the committed set
		full := map[uint64]Violation{}
		for _, v := range c.viol {
			if v.Class == class {
				full[CaseHash(class, v.Case)] = v
			}
		}
		for _, h := range c.allHashes[class] {
			if _, ok := set[h]; ok {
				knownHit[class]++
				continue
			}
			unknownCount++
			if v, ok := full[h]; ok {
				unknown = append(unknown, v)
			} else {
				unknown = append(unknown, Violation{Property: c.ID, Class: class, Kind: "hash-only",
					Case: json.RawMessage(fmt.Sprintf(`"%016x"`, h)), Detail: "case not in the committed known set (record beyond the first 50 of its class)"})
			}
		}
	}

	if os.Getenv("VERIF_DUMP_CASESETS") != "" {
		// maintenance only (never part of a registered command): print the hashes per class
		dir := os.Getenv("VERIF_DUMP_CASESETS")
		os.MkdirAll(dir, 0o755)
		for class, hs := range c.allHashes {
			sort.Slice(hs, func(i, j int) bool { return hs[i] < hs[j] })
			var sb strings.Builder
			for _, h := range hs {
				fmt.Fprintf(&sb, "%016x\n", h)
			}
			os.WriteFile(filepath.Join(dir, c.ID+"."+sanitize(class)+"."+c.Tier+".txt"), []byte(sb.String()), 0o644)
		}
	}

	// evidence
	c.mu.Lock()
	cov := map[string]any{}
	for k, v := range c.extra {
		cov[k] = v
	}
	ev := c.Evals.Load()
	st := c.States.Load()
	tr := c.Transitions.Load()
	if st == 0 {
		st = ev
	}
	if tr == 0 {
		tr = ev
	}
	cov["evaluations"] = ev
	cov["states"] = st
	cov["transitions"] = tr
	// For the direct-on-implementation checks every evaluation executes the real code on one case and
	// compares it with the reference model's prediction for that case: each is one model trace
	// validated against the implementation.  Checks that count replays explicitly (C03, C20) set Traces.
	tv := c.Traces.Load()
	if tv == 0 {
		tv = ev
		cov["traces_note"] = "no separate model: every evaluation runs the real code on one case and compares it with the reference model's prediction (one validated trace per evaluation)"
	}
	cov["traces_validated_against_impl"] = tv
	cov["distinct_nontrivial"] = len(c.nontrivial)
	if c.ntOverflow > 0 {
		cov["distinct_nontrivial_note"] = fmt.Sprintf("distinct-key set capped at %d; %d further keys not counted", ntCap, c.ntOverflow)
	}
	cov["rule"] = c.rule
	cov["exhaustive"] = c.Exhaustive
	cov["outcome_histogram"] = c.outcomes
	cov["distinct_outcomes"] = len(c.outcomes)
	cov["spaces"] = c.spaces
	samples := c.samples
	if len(samples) == 0 {
		samples = []any{"(no sample recorded)"}
	}
	cov["samples"] = samples
	kf := map[string]int64{}
	for class, n := range knownHit {
		kf[known[class].ID+" "+class] = n
	}
	cov["known_findings_hit"] = kf
	cov["violation_classes"] = c.violCount
	e := evidence{PropertyID: c.ID, Tier: c.Tier, Seed: c.Seed, Level: "model_checking", Coverage: cov,
		Assumptions: append([]string{}, c.assume...), WallS: time.Since(c.start).Seconds(), Violations: unknownCount}
	if e.Tier != "quick" && e.Tier != "thorough" {
		e.Tier = "quick"
	}
	c.mu.Unlock()

	if !c.Replaying {
		b, _ := json.MarshalIndent(e, "", " ")
		os.MkdirAll(filepath.Join(Root, "evidence"), 0o755)
		if err := os.WriteFile(filepath.Join(Root, "evidence", c.ID+".json"), append(b, '\n'), 0o644); err != nil {
			fmt.Fprintln(os.Stderr, "evidence:", err)
			return 2
		}
	}

	fmt.Printf("%s %s: evaluations=%d states=%d transitions=%d traces=%d distinct_outcomes=%d nontrivial=%d exhaustive=%v wall=%.1fs\n",
		c.ID, c.Tier, ev, st, tr, c.Traces.Load(), len(c.outcomes), len(c.nontrivial), c.Exhaustive, time.Since(c.start).Seconds())
	keys := make([]string, 0, len(c.outcomes))
	for k := range c.outcomes {
		keys = append(keys, k)
	}
	sort.Strings(keys)
	for _, k := range keys {
		fmt.Printf("  outcome %-60s %d\n", k, c.outcomes[k])
	}
	for _, class := range classes {
		if n := knownHit[class]; n > 0 {
			f := known[class]
			fmt.Printf("KNOWN-FINDING: property=%s %s [%s, %d cases in this run] %s\n", c.ID, f.ID, class, n, f.What)
		}
	}
	if os.Getenv("VERIF_PRINT_ALL") != "" {
		for _, v := range c.viol {
			fmt.Printf("  ALL class=%s detail=%s\n", v.Class, trunc(v.Detail, 200))
		}
	}
	if unknownCount == 0 {
		return 0
	}
	os.MkdirAll(filepath.Join(Root, "replays"), 0o755)
	printed := map[string]int{}
	for _, v := range unknown {
		if printed[v.Class] >= 3 {
			continue
		}
		printed[v.Class]++
		name := fmt.Sprintf("%s-%s-%d.json", c.ID, sanitize(v.Class), printed[v.Class])
		path := filepath.Join(Root, "replays", name)
		b, _ := json.MarshalIndent(v, "", " ")
		os.WriteFile(path, append(b, '\n'), 0o644)
		fmt.Printf("VIOLATION property=%s replay=%s\n", c.ID, path)
		fmt.Printf("  class=%s detail=%s\n  case=%s\n", v.Class, v.Detail, trunc(string(v.Case), 600))
	}
	for _, class := range classes {
		fmt.Printf("  violation class %-50s %d cases (%d covered by known findings)\n", class, c.violCount[class], knownHit[class])
	}
	return 1
}

func trunc(s string, n int) string {
	if len(s) > n {
		return s[:n] + "…"
	}
	return s
}

func sanitize(s string) string {
	var sb strings.Builder
	for _, r := range s {
		if r >= 'a' && r <= 'z' || r >= 'A' && r <= 'Z' || r >= '0' && r <= '9' || r == '-' || r == '_' {
			sb.WriteRune(r)
		} else {
			sb.WriteByte('_')
		}
	}
	return sb.String()
}

// Hex helpers used in case descriptions.
func Hex(b []byte) string { return hex.EncodeToString(b) }
func UnHex(s string) []byte {
	b, err := hex.DecodeString(s)
	if err != nil {
		panic("bad hex in case: " + s)
	}
	return b
}
