package mc

import (
	"bytes"
	"context"
	"encoding/json"
	"fmt"
	"io"
	"os"
	"os/exec"
	"strings"
	"sync"
	"time"
)

// Fresh processes.  Every other family runs inside one long-lived process, so whatever the library
// builds lazily (a table filled on first use, a one-entry cache whose zero value looks like an entry,
// a sync.Once) has long been built by the time most cases run, and WHICH call built it is fixed by
// the order of the families.  The initial state of the process is a state too: FreshAll runs every
// given case as the first library call of a new process (the check binary re-executed in mode
// "fresh") and adopts the violations the child records.  One child = one state, one evaluation.

// FreshCase is what a child is handed and what a violation found this way carries as its case.
type FreshCase struct {
	Kind string          `json:"first_call_kind"`
	Case json.RawMessage `json:"first_call_case"`
	// Then: further cases run after the first one in the same process, in this order (which call
	// came first, and which came before which, is the point)
	Then []FreshCase `json:"then,omitempty"`
}

// KindCase names one replayable case.
type KindCase struct {
	Kind string
	Case any
}

// FreshSeqAll runs each sequence of cases in a process of its own, in order.
func (c *Ctx) FreshSeqAll(seqs [][]KindCase) {
	if IsShardWorker() && !Shard0() {
		return
	}
	exe, err := os.Executable()
	if err != nil {
		panic("harness: cannot find own executable: " + err.Error())
	}
	sem := make(chan struct{}, Workers())
	var wg sync.WaitGroup
	for _, sq := range seqs {
		if len(sq) == 0 {
			continue
		}
		var fcs []FreshCase
		for _, kc := range sq {
			raw, err := json.Marshal(kc.Case)
			if err != nil {
				panic("harness: fresh case does not marshal: " + err.Error())
			}
			fcs = append(fcs, FreshCase{Kind: kc.Kind, Case: raw})
		}
		fc := fcs[0]
		fc.Then = fcs[1:]
		wg.Add(1)
		sem <- struct{}{}
		go func() {
			defer func() { <-sem; wg.Done() }()
			c.freshOne(exe, fc)
		}()
	}
	wg.Wait()
}

// FreshAll runs each case (kind = name of a replayer of this property) in a process of its own,
// Workers() at a time.
func (c *Ctx) FreshAll(kind string, cases []any) {
	if IsShardWorker() && !Shard0() {
		return
	}
	exe, err := os.Executable()
	if err != nil {
		panic("harness: cannot find own executable: " + err.Error())
	}
	sem := make(chan struct{}, Workers())
	var wg sync.WaitGroup
	for _, cs := range cases {
		raw, err := json.Marshal(cs)
		if err != nil {
			panic("harness: fresh case does not marshal: " + err.Error())
		}
		fc := FreshCase{Kind: kind, Case: raw}
		wg.Add(1)
		sem <- struct{}{}
		go func() {
			defer func() { <-sem; wg.Done() }()
			c.freshOne(exe, fc)
		}()
	}
	wg.Wait()
}

// FreshSamples runs every sample case the run recorded (at most two per family, chosen by the
// families themselves as representative) as the first call of a process of its own: a cheap probe of
// the initial process state for every family of every property.
func (c *Ctx) FreshSamples(replayers map[string]func(*Ctx, json.RawMessage)) {
	if os.Getenv("VERIF_NO_FRESH") != "" {
		return
	}
	c.mu.Lock()
	samples := append([]any{}, c.samples...)
	c.mu.Unlock()
	n := 0
	for _, s := range samples {
		m, ok := s.(map[string]any)
		if !ok {
			continue
		}
		kind, _ := m["kind"].(string)
		if replayers[kind] == nil {
			continue
		}
		c.FreshAll(kind, []any{m["case"]})
		n++
	}
	c.Space("recorded sample cases, each re-run as the first library call of a fresh process", int64(n))
}

func (c *Ctx) freshOne(exe string, fc FreshCase) {
	arg, _ := json.Marshal(fc)
	ctx, cancel := context.WithTimeout(context.Background(), 10*time.Minute)
	defer cancel()
	cmd := exec.CommandContext(ctx, exe, c.ID, "fresh", "-")
	cmd.Stdin = bytes.NewReader(arg)
	cmd.Env = append(os.Environ(), "VERIF_SHARD=", "VERIF_NSHARDS=", "VERIF_PARTIAL=", "VERIF_ANNOUNCE=", "GOMAXPROCS=2")
	out, err := cmd.CombinedOutput()
	c.States.Add(1)
	c.Evals.Add(1)
	var res struct {
		Viol     []Violation      `json:"viol"`
		Outcomes map[string]int64 `json:"outcomes"`
	}
	line := ""
	for _, l := range strings.Split(string(out), "\n") {
		if strings.HasPrefix(l, "FRESH-RESULT ") {
			line = strings.TrimPrefix(l, "FRESH-RESULT ")
		}
	}
	if ctx.Err() != nil {
		c.NotExhaustive("a fresh-process case did not finish within 10 minutes and was abandoned (kind " + fc.Kind + ")")
		return
	}
	if line == "" || json.Unmarshal([]byte(line), &res) != nil {
		o := string(out)
		if len(o) > 400 {
			o = o[len(o)-400:]
		}
		c.Violate("first-call-of-a-fresh-process/process-died", "fresh", fc, fmt.Sprintf("the process ended without a result (%v): %s", err, o))
		return
	}
	for _, v := range res.Viol {
		if knownClass(c.ID, v.Class) {
			// a listed finding met in the child is the same finding: record it as what it is
			c.Violate(v.Class, v.Kind, v.Case, v.Detail)
			continue
		}
		c.Violate("first-call-of-a-fresh-process/"+v.Class, "fresh", fc, v.Detail)
	}
	c.mu.Lock()
	for k, n := range res.Outcomes {
		c.outcomes["fresh process: "+k] += n
	}
	c.mu.Unlock()
}

// FreshChild is the child side: run the case with r, print the result line.
func FreshChild(id string, arg string, replayers map[string]func(*Ctx, json.RawMessage)) int {
	var fc FreshCase
	if arg == "-" {
		b, _ := io.ReadAll(os.Stdin)
		arg = string(b)
	}
	if err := json.Unmarshal([]byte(arg), &fc); err != nil {
		fmt.Fprintln(os.Stderr, "fresh:", err)
		return 2
	}
	r := replayers[fc.Kind]
	if r == nil {
		fmt.Fprintln(os.Stderr, "fresh: no replayer for kind", fc.Kind)
		return 2
	}
	c := NewCtx(id, "quick")
	c.Replaying = true
	r(c, fc.Case)
	for _, nx := range fc.Then {
		rn := replayers[nx.Kind]
		if rn == nil {
			fmt.Fprintln(os.Stderr, "fresh: no replayer for kind", nx.Kind)
			return 2
		}
		rn(c, nx.Case)
	}
	c.mu.Lock()
	b, _ := json.Marshal(map[string]any{"viol": c.viol, "outcomes": c.outcomes})
	c.mu.Unlock()
	fmt.Printf("FRESH-RESULT %s\n", b)
	return 0
}

func knownClass(id, class string) bool {
	for _, f := range LoadFindings() {
		if f.Property == id && f.Status == "known" && f.Class == class {
			return true
		}
	}
	return false
}

// FreshReplay re-runs a recorded sequence in this (fresh) process and reports like a replay: exit
// code 1 and the violations on stdout if it fails again.
func FreshReplay(id, arg string, replayers map[string]func(*Ctx, json.RawMessage)) int {
	var fc FreshCase
	if err := json.Unmarshal([]byte(arg), &fc); err != nil {
		return 2
	}
	c := NewCtx(id, "quick")
	c.Replaying = true
	for _, x := range append([]FreshCase{fc}, fc.Then...) {
		r := replayers[x.Kind]
		if r == nil {
			return 2
		}
		c.Evals.Add(1)
		r(c, x.Case)
	}
	return c.Finish()
}
