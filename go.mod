module verif

go 1.23.4

require (
	github.com/gcash/bchd v0.20.0
	github.com/gcash/bchutil v0.0.0
	golang.org/x/crypto v0.32.0
)

require (
	github.com/aead/siphash v1.0.1 // indirect
	github.com/btcsuite/go-socks v0.0.0-20170105172521-4720035b7bfd // indirect
	github.com/dchest/siphash v1.2.3 // indirect
	github.com/gcash/bchlog v0.0.0-20180913005452-b4f036f92fa6 // indirect
	github.com/kkdai/bstream v1.0.0 // indirect
	github.com/zquestz/grab v0.0.0-20190224022517-abcee96e61b1 // indirect
	golang.org/x/text v0.21.0 // indirect
	lukechampine.com/uint128 v1.3.0 // indirect
)

replace github.com/gcash/bchutil => /repo
