module verif

go 1.23.4

require (
	github.com/gcash/bchd v0.20.0
	github.com/gcash/bchutil v0.0.0
	golang.org/x/crypto v0.32.0
)

require (
	github.com/OpenBazaar/jsonpb v0.0.0-20171123000858-37d32ddf4eef // indirect
	github.com/aead/siphash v1.0.1 // indirect
	github.com/btcsuite/go-socks v0.0.0-20170105172521-4720035b7bfd // indirect
	github.com/dchest/siphash v1.2.3 // indirect
	github.com/gcash/bchlog v0.0.0-20180913005452-b4f036f92fa6 // indirect
	github.com/golang/protobuf v1.5.4 // indirect
	github.com/kkdai/bstream v1.0.0 // indirect
	github.com/zquestz/grab v0.0.0-20190224022517-abcee96e61b1 // indirect
	golang.org/x/net v0.34.0 // indirect
	golang.org/x/sys v0.29.0 // indirect
	golang.org/x/text v0.21.0 // indirect
	google.golang.org/genproto/googleapis/rpc v0.0.0-20250106144421-5f5ef82da422 // indirect
	google.golang.org/grpc v1.69.4 // indirect
	google.golang.org/protobuf v1.36.2 // indirect
	lukechampine.com/uint128 v1.3.0 // indirect
)

replace github.com/gcash/bchutil => /repo
