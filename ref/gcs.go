package ref

import (
	"encoding/binary"
	"math/bits"
	"sort"
)

// SipHash24 is SipHash-2-4 with a 128-bit key and 64-bit output, written out from the paper.
func SipHash24(key [16]byte, data []byte) uint64 {
	k0 := binary.LittleEndian.Uint64(key[0:8])
	k1 := binary.LittleEndian.Uint64(key[8:16])
	v0 := k0 ^ 0x736f6d6570736575
	v1 := k1 ^ 0x646f72616e646f6d
	v2 := k0 ^ 0x6c7967656e657261
	v3 := k1 ^ 0x7465646279746573
	round := func() {
		v0 += v1
		v1 = bits.RotateLeft64(v1, 13)
		v1 ^= v0
		v0 = bits.RotateLeft64(v0, 32)
		v2 += v3
		v3 = bits.RotateLeft64(v3, 16)
		v3 ^= v2
		v0 += v3
		v3 = bits.RotateLeft64(v3, 21)
		v3 ^= v0
		v2 += v1
		v1 = bits.RotateLeft64(v1, 17)
		v1 ^= v2
		v2 = bits.RotateLeft64(v2, 32)
	}
	n := len(data)
	i := 0
	for ; i+8 <= n; i += 8 {
		m := binary.LittleEndian.Uint64(data[i:])
		v3 ^= m
		round()
		round()
		v0 ^= m
	}
	var last uint64 = uint64(n&0xff) << 56
	for j := 0; i+j < n; j++ {
		last |= uint64(data[i+j]) << (8 * uint(j))
	}
	v3 ^= last
	round()
	round()
	v0 ^= last
	v2 ^= 0xff
	round()
	round()
	round()
	round()
	return v0 ^ v1 ^ v2 ^ v3
}

// GCSReduce maps a 64-bit hash to [0, modulus): floor(hash * modulus / 2^64) (high 64 bits of the
// 128-bit product).
func GCSReduce(hash, modulus uint64) uint64 {
	hi, _ := bits.Mul64(hash, modulus)
	return hi
}

// GCSValue is the reduced value of one item for a filter with n elements and modulus factor m.
func GCSValue(key [16]byte, n uint32, m uint64, item []byte) uint64 {
	return GCSReduce(SipHash24(key, item), uint64(n)*m)
}

// GCSEncode returns the Golomb-Rice encoding (as bytes, MSB first, zero padded) of the multiset of
// items: values sorted, delta coded as unary quotient (q ones and a zero) and a P-bit remainder.
func GCSEncode(key [16]byte, p uint8, m uint64, items [][]byte) []byte {
	n := uint32(len(items))
	if n == 0 {
		return nil
	}
	vals := make([]uint64, 0, n)
	for _, it := range items {
		vals = append(vals, GCSValue(key, n, m, it))
	}
	sort.Slice(vals, func(i, j int) bool { return vals[i] < vals[j] })
	var bitsOut []byte
	var last uint64
	for _, v := range vals {
		d := v - last
		last = v
		q := d >> p
		for ; q > 0; q-- {
			bitsOut = append(bitsOut, 1)
		}
		bitsOut = append(bitsOut, 0)
		for i := int(p) - 1; i >= 0; i-- {
			bitsOut = append(bitsOut, byte(d>>uint(i))&1)
		}
	}
	out := make([]byte, (len(bitsOut)+7)/8)
	for i, b := range bitsOut {
		if b == 1 {
			out[i/8] |= 0x80 >> uint(i%8)
		}
	}
	return out
}

// GCSDecodeValues decodes up to n values from filter bytes (stops at the first incomplete code).
func GCSDecodeValues(data []byte, n uint32, p uint8) []uint64 {
	pos := 0
	total := len(data) * 8
	bit := func() (byte, bool) {
		if pos >= total {
			return 0, false
		}
		b := data[pos/8] >> uint(7-pos%8) & 1
		pos++
		return b, true
	}
	var out []uint64
	var last uint64
	for i := uint32(0); i < n; i++ {
		var q uint64
		for {
			b, ok := bit()
			if !ok {
				return out
			}
			if b == 0 {
				break
			}
			q++
		}
		var r uint64
		for j := 0; j < int(p); j++ {
			b, ok := bit()
			if !ok {
				return out
			}
			r = r<<1 | uint64(b)
		}
		last += q<<p + r
		out = append(out, last)
	}
	return out
}

// CompactSize is Bitcoin's variable-length integer.
func CompactSize(n uint64) []byte {
	switch {
	case n < 0xfd:
		return []byte{byte(n)}
	case n <= 0xffff:
		return []byte{0xfd, byte(n), byte(n >> 8)}
	case n <= 0xffffffff:
		return []byte{0xfe, byte(n), byte(n >> 8), byte(n >> 16), byte(n >> 24)}
	}
	b := []byte{0xff, 0, 0, 0, 0, 0, 0, 0, 0}
	binary.LittleEndian.PutUint64(b[1:], n)
	return b
}
