package ref

import "strings"

const Bech32Charset = "qpzry9x8gf2tvdw0s3jn54khce6mua7l"

// bech32 generator g(x) = x^6 + {29}x^5 + {22}x^4 + {20}x^3 + {21}x^2 + {29}x + {18} over
// GF(32) with a^5 = a^3 + 1 (BIP173).  The remainder is computed by explicit polynomial long
// division with GF(32) multiplication, not by the packed-integer trick.
var bech32Gen = []byte{29, 22, 20, 21, 29, 18}

// gfMulSlow multiplies in GF(32) modulo a^5 + a^3 + 1 (shift-and-add).
func gfMulSlow(a, b byte) byte {
	var r byte
	for i := 0; i < 5; i++ {
		if b>>uint(i)&1 == 1 {
			r ^= a
		}
		a <<= 1
		if a&0x20 != 0 {
			a ^= 0x29 // a^5 = a^3 + 1
		}
	}
	return r & 0x1f
}

// gfTab is the full 32x32 multiplication table, filled once from gfMulSlow.
var gfTab = func() (t [32][32]byte) {
	for a := 0; a < 32; a++ {
		for b := 0; b < 32; b++ {
			t[a][b] = gfMulSlow(byte(a), byte(b))
		}
	}
	return
}()

func gfMul(a, b byte) byte { return gfTab[a&31][b&31] }

// polyRem returns the coefficients (most significant first, len(gen)) of
// (x^k-prefixed-with-1 polynomial) mod g, where the dividend is 1, v0, v1, ... (implicit leading 1).
func polyRem(values []byte, gen []byte) []byte {
	deg := len(gen)
	rem := make([]byte, deg) // remainder so far, degree < deg, msb first
	rem[deg-1] = 1           // the implicit leading 1
	for _, v := range values {
		top := rem[0]
		copy(rem, rem[1:])
		rem[deg-1] = v & 0x1f
		if top != 0 {
			for i := 0; i < deg; i++ {
				rem[i] ^= gfMul(top, gen[i])
			}
		}
	}
	return rem
}

func bech32HrpExpand(hrp string) []byte {
	var v []byte
	for i := 0; i < len(hrp); i++ {
		v = append(v, hrp[i]>>5)
	}
	v = append(v, 0)
	for i := 0; i < len(hrp); i++ {
		v = append(v, hrp[i]&31)
	}
	return v
}

// Bech32Checksum returns the 6 checksum symbols for (hrp, data).
func Bech32Checksum(hrp string, data []byte) []byte {
	v := append(bech32HrpExpand(hrp), data...)
	v = append(v, 0, 0, 0, 0, 0, 0)
	rem := polyRem(v, bech32Gen)
	rem[5] ^= 1
	return rem
}

// Bech32Encode encodes (hrp must already be lower case; data symbols < 32).
func Bech32Encode(hrp string, data []byte) (string, bool) {
	for _, d := range data {
		if d > 31 {
			return "", false
		}
	}
	all := append(append([]byte{}, data...), Bech32Checksum(hrp, data)...)
	var sb strings.Builder
	sb.WriteString(hrp)
	sb.WriteByte('1')
	for _, d := range all {
		sb.WriteByte(Bech32Charset[d])
	}
	return sb.String(), true
}

// Bech32Decode implements BIP173 validation literally.
func Bech32Decode(s string) (hrp string, data []byte, ok bool) {
	if len(s) < 8 || len(s) > 90 {
		return "", nil, false
	}
	hasLower, hasUpper := false, false
	for i := 0; i < len(s); i++ {
		c := s[i]
		if c < 33 || c > 126 {
			return "", nil, false
		}
		if c >= 'a' && c <= 'z' {
			hasLower = true
		}
		if c >= 'A' && c <= 'Z' {
			hasUpper = true
		}
	}
	if hasLower && hasUpper {
		return "", nil, false
	}
	s = strings.ToLower(s)
	pos := strings.LastIndexByte(s, '1')
	if pos < 1 || pos+7 > len(s) {
		return "", nil, false
	}
	hrp = s[:pos]
	var vals []byte
	for i := pos + 1; i < len(s); i++ {
		k := strings.IndexByte(Bech32Charset, s[i])
		if k < 0 {
			return "", nil, false
		}
		vals = append(vals, byte(k))
	}
	v := append(bech32HrpExpand(hrp), vals...)
	rem := polyRem(v, bech32Gen)
	for i := 0; i < 5; i++ {
		if rem[i] != 0 {
			return "", nil, false
		}
	}
	if rem[5] != 1 {
		return "", nil, false
	}
	return hrp, vals[:len(vals)-6], true
}

// Regroup converts groups of `from` bits to groups of `to` bits through an explicit bit
// string.  With pad, the tail is zero-filled.  Without pad it returns the complete groups,
// the number of left-over bits and whether those are all zero.
func Regroup(data []byte, from, to uint, pad bool) (out []byte, leftover uint, leftoverZero bool) {
	var bits []byte
	for _, d := range data {
		for i := int(from) - 1; i >= 0; i-- {
			bits = append(bits, d>>uint(i)&1)
		}
	}
	leftoverZero = true
	for len(bits) >= int(to) {
		var g byte
		for i := 0; i < int(to); i++ {
			g = g<<1 | bits[i]
		}
		out = append(out, g)
		bits = bits[to:]
	}
	leftover = uint(len(bits))
	for _, b := range bits {
		if b != 0 {
			leftoverZero = false
		}
	}
	if pad && leftover > 0 {
		var g byte
		for i := 0; i < int(to); i++ {
			g <<= 1
			if i < len(bits) {
				g |= bits[i]
			}
		}
		out = append(out, g)
	}
	return
}

// Bech32Syndrome returns the 6 remainder symbols of hrp-expansion||symbols with the final 1
// removed, so a valid word has the all-zero syndrome.
func Bech32Syndrome(hrp string, symbols []byte) []byte {
	v := append(bech32HrpExpand(hrp), symbols...)
	rem := polyRem(v, bech32Gen)
	rem[5] ^= 1
	return rem
}
