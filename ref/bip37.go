package ref

import "encoding/binary"

// Murmur3 is MurmurHash3_x86_32 written from the reference description (Appleby): body in
// 4-byte little-endian blocks, 1..3 tail bytes, length mix, fmix32.
func Murmur3(seed uint32, data []byte) uint32 {
	rotl := func(x uint32, r uint) uint32 { return x<<r | x>>(32-r) }
	h := seed
	n := len(data)
	for i := 0; i+4 <= n; i += 4 {
		k := uint32(data[i]) | uint32(data[i+1])<<8 | uint32(data[i+2])<<16 | uint32(data[i+3])<<24
		k *= 0xcc9e2d51
		k = rotl(k, 15)
		k *= 0x1b873593
		h ^= k
		h = rotl(h, 13)
		h = h*5 + 0xe6546b64
	}
	tail := data[n-n%4:]
	var k uint32
	for i := len(tail) - 1; i >= 0; i-- {
		k = k<<8 | uint32(tail[i])
	}
	if len(tail) > 0 {
		k *= 0xcc9e2d51
		k = rotl(k, 15)
		k *= 0x1b873593
		h ^= k
	}
	h ^= uint32(n)
	h ^= h >> 16
	h *= 0x85ebca6b
	h ^= h >> 13
	h *= 0xc2b2ae35
	h ^= h >> 16
	return h
}

// Bloom is the BIP37 filter as a plain bit array.
type Bloom struct {
	Bits      []bool // len = 8 * filter bytes; bit i lives in byte i>>3 at 1<<(i&7)
	HashFuncs uint32
	Tweak     uint32
	Flags     byte // 0 none, 1 all, 2 p2pubkey-only
}

func NewBloom(filter []byte, hashFuncs, tweak uint32, flags byte) *Bloom {
	b := &Bloom{Bits: make([]bool, 8*len(filter)), HashFuncs: hashFuncs, Tweak: tweak, Flags: flags}
	for i := range b.Bits {
		b.Bits[i] = filter[i>>3]&(1<<uint(i&7)) != 0
	}
	return b
}

func (b *Bloom) Clone() *Bloom {
	c := *b
	c.Bits = append([]bool{}, b.Bits...)
	return &c
}

func (b *Bloom) bit(i uint32, data []byte) int {
	seed := uint32(uint64(i)*0xFBA4C795+uint64(b.Tweak)) // arithmetic mod 2^32
	return int(uint64(Murmur3(seed, data)) % uint64(len(b.Bits)))
}

func (b *Bloom) Insert(data []byte) {
	if len(b.Bits) == 0 {
		return
	}
	for i := uint32(0); i < b.HashFuncs; i++ {
		b.Bits[b.bit(i, data)] = true
	}
}

func (b *Bloom) Contains(data []byte) bool {
	if len(b.Bits) == 0 {
		return false
	}
	for i := uint32(0); i < b.HashFuncs; i++ {
		if !b.Bits[b.bit(i, data)] {
			return false
		}
	}
	return true
}

func (b *Bloom) Bytes() []byte {
	out := make([]byte, len(b.Bits)/8)
	for i, v := range b.Bits {
		if v {
			out[i>>3] |= 1 << uint(i&7)
		}
	}
	return out
}

// OutPointBytes: txid (internal byte order) followed by the little-endian index.
func OutPointBytes(txid [32]byte, index uint32) []byte {
	out := append([]byte{}, txid[:]...)
	var ix [4]byte
	binary.LittleEndian.PutUint32(ix[:], index)
	return append(out, ix[:]...)
}

// ---- script push grammar

// Pushes parses a script and returns its data pushes in order (an OP_0 push is an empty, non-nil
// entry); ok=false if a push runs past the end of the script.
func Pushes(script []byte) (pushes [][]byte, ops []byte, ok bool) {
	i := 0
	for i < len(script) {
		op := script[i]
		i++
		var n int
		switch {
		case op == 0x00:
			pushes = append(pushes, []byte{})
			ops = append(ops, op)
			continue
		case op >= 0x01 && op <= 0x4b:
			n = int(op)
		case op == 0x4c:
			if i+1 > len(script) {
				return nil, nil, false
			}
			n = int(script[i])
			i++
		case op == 0x4d:
			if i+2 > len(script) {
				return nil, nil, false
			}
			n = int(script[i]) | int(script[i+1])<<8
			i += 2
		case op == 0x4e:
			if i+4 > len(script) {
				return nil, nil, false
			}
			n = int(script[i]) | int(script[i+1])<<8 | int(script[i+2])<<16 | int(script[i+3])<<24
			i += 4
		default:
			ops = append(ops, op)
			continue
		}
		if n < 0 || i+n > len(script) {
			return nil, nil, false
		}
		pushes = append(pushes, script[i:i+n])
		ops = append(ops, op)
		i += n
	}
	return pushes, ops, true
}

// scriptItems returns one entry per opcode: (opcode, data or nil).
type scriptItem struct {
	Op   byte
	Data []byte
	Push bool
}

func scriptItems(script []byte) ([]scriptItem, bool) {
	var items []scriptItem
	i := 0
	for i < len(script) {
		op := script[i]
		i++
		n := -1
		switch {
		case op == 0x00:
			items = append(items, scriptItem{Op: op, Data: []byte{}, Push: true})
			continue
		case op >= 0x01 && op <= 0x4b:
			n = int(op)
		case op == 0x4c:
			if i+1 > len(script) {
				return nil, false
			}
			n = int(script[i])
			i++
		case op == 0x4d:
			if i+2 > len(script) {
				return nil, false
			}
			n = int(script[i]) | int(script[i+1])<<8
			i += 2
		case op == 0x4e:
			if i+4 > len(script) {
				return nil, false
			}
			n = int(script[i]) | int(script[i+1])<<8 | int(script[i+2])<<16 | int(script[i+3])<<24
			i += 4
		}
		if n < 0 {
			items = append(items, scriptItem{Op: op})
			continue
		}
		if i+n > len(script) {
			return nil, false
		}
		items = append(items, scriptItem{Op: op, Data: script[i : i+n], Push: true})
		i += n
	}
	return items, true
}

func isSmallIntOp(op byte) bool { return op == 0x00 || (op >= 0x51 && op <= 0x60) }
func smallIntVal(op byte) int {
	if op == 0 {
		return 0
	}
	return int(op) - 0x50
}

// IsP2PKOrMultisig: pay-to-pubkey (<33|65-byte push> OP_CHECKSIG) or bare multisig
// (m <pubkeys...> n OP_CHECKMULTISIG with n matching the number of 33/65-byte pushes) — the two
// classes BIP37's BLOOM_UPDATE_P2PUBKEY_ONLY updates on.
func IsP2PKOrMultisig(script []byte) bool {
	it, ok := scriptItems(script)
	if !ok {
		return false
	}
	if len(it) == 2 && it[0].Push && (len(it[0].Data) == 33 || len(it[0].Data) == 65) && it[1].Op == 0xac && !it[1].Push {
		return true
	}
	l := len(it)
	if l < 4 {
		return false
	}
	if !isSmallIntOp(it[0].Op) || !isSmallIntOp(it[l-2].Op) || it[l-1].Op != 0xae {
		return false
	}
	if l-3 != smallIntVal(it[l-2].Op) {
		return false
	}
	for _, p := range it[1 : l-2] {
		if len(p.Data) != 33 && len(p.Data) != 65 {
			return false
		}
	}
	return true
}

// ---- BIP37 transaction matching, written from the BIP text.

type RefTxIn struct {
	PrevHash  [32]byte
	PrevIndex uint32
	SigScript []byte
}

type RefTx struct {
	TxID    [32]byte
	Outputs [][]byte // pkScripts
	Inputs  []RefTxIn
}

// MatchTx runs the BIP37 relevance test on b, updating b as the flags prescribe when update is
// true.  countEmpty selects whether an empty push (OP_0) is tested against the filter.
//
//	1. the transaction id;
//	2. every data element of every output script; on the first hit of an output, depending on the
//	   flags, the outpoint (txid, output index) is inserted;
//	3. only if nothing matched so far: every spent outpoint, then every data element of every
//	   input script.
func (b *Bloom) MatchTx(tx *RefTx, update bool, countEmpty bool) bool {
	found := b.Contains(tx.TxID[:])
	for i, script := range tx.Outputs {
		pushes, _, ok := Pushes(script)
		if !ok {
			continue
		}
		for _, d := range pushes {
			if len(d) == 0 && !countEmpty {
				continue
			}
			if !b.Contains(d) {
				continue
			}
			found = true
			if update {
				switch b.Flags {
				case 1:
					b.Insert(OutPointBytes(tx.TxID, uint32(i)))
				case 2:
					if IsP2PKOrMultisig(script) {
						b.Insert(OutPointBytes(tx.TxID, uint32(i)))
					}
				}
			}
			break
		}
	}
	if found {
		return true
	}
	for _, in := range tx.Inputs {
		if b.Contains(OutPointBytes(in.PrevHash, in.PrevIndex)) {
			return true
		}
		pushes, _, ok := Pushes(in.SigScript)
		if !ok {
			continue
		}
		for _, d := range pushes {
			if len(d) == 0 && !countEmpty {
				continue
			}
			if b.Contains(d) {
				return true
			}
		}
	}
	return false
}
