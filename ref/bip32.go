package ref

import (
	"crypto/hmac"
	"crypto/sha256"
	"crypto/sha512"
	"encoding/binary"
	"math/big"
	"sync"

	"golang.org/x/crypto/ripemd160"
)

// BIP32 reference: stdlib HMAC-SHA512, the affine secp256k1 above, the byte-array Base58.

var (
	gTabOnce sync.Once
	gTab     [256]Point // 2^i * G
)

// SecBaseMulFast = k*G using a table of 2^i*G (additions only).
func SecBaseMulFast(k *big.Int) Point {
	gTabOnce.Do(func() {
		p := SecG()
		for i := 0; i < 256; i++ {
			gTab[i] = p
			p = SecAdd(p, p)
		}
	})
	kk := new(big.Int).Mod(k, SecN)
	r := Point{Inf: true}
	for i := 0; i < kk.BitLen(); i++ {
		if kk.Bit(i) == 1 {
			r = SecAdd(r, gTab[i])
		}
	}
	return r
}

func Hash160(b []byte) []byte {
	s := sha256.Sum256(b)
	r := ripemd160.New()
	r.Write(s[:])
	return r.Sum(nil)
}

// XKey is a BIP32 extended key in the reference model.
type XKey struct {
	Private   bool
	K         *big.Int // private scalar (Private) — nil otherwise
	P         Point    // public point
	ChainCode []byte
	Depth     int
	ParentFP  []byte
	ChildNum  uint32
}

func hmac512(key, data []byte) []byte {
	h := hmac.New(sha512.New, key)
	h.Write(data)
	return h.Sum(nil)
}

// BIP32Master: status "ok", "seedlen" or "unusable".
func BIP32Master(seed []byte) (*XKey, string) {
	if len(seed) < 16 || len(seed) > 64 {
		return nil, "seedlen"
	}
	I := hmac512([]byte("Bitcoin seed"), seed)
	k := new(big.Int).SetBytes(I[:32])
	if k.Sign() == 0 || k.Cmp(SecN) >= 0 {
		return nil, "unusable"
	}
	return &XKey{Private: true, K: k, P: SecBaseMulFast(k), ChainCode: I[32:], Depth: 0, ParentFP: []byte{0, 0, 0, 0}}, "ok"
}

func ser32(i uint32) []byte {
	var b [4]byte
	binary.BigEndian.PutUint32(b[:], i)
	return b[:]
}

// Child: status "ok", "depth" (beyond 255), "hardened-from-public", "invalid" (IL >= n or result 0 / infinity).
func (x *XKey) Child(i uint32) (*XKey, string) {
	if x.Depth == 255 {
		return nil, "depth"
	}
	hardened := i >= 0x80000000
	if hardened && !x.Private {
		return nil, "hardened-from-public"
	}
	var data []byte
	if hardened {
		data = append([]byte{0}, pad32(x.K.Bytes())...)
	} else {
		data = x.P.Compressed()
	}
	data = append(data, ser32(i)...)
	I := hmac512(x.ChainCode, data)
	il := new(big.Int).SetBytes(I[:32])
	if il.Cmp(SecN) >= 0 {
		return nil, "invalid"
	}
	fp := Hash160(x.P.Compressed())[:4]
	c := &XKey{Private: x.Private, ChainCode: I[32:], Depth: x.Depth + 1, ParentFP: fp, ChildNum: i}
	if x.Private {
		k := new(big.Int).Add(il, x.K)
		k.Mod(k, SecN)
		if k.Sign() == 0 {
			return nil, "invalid"
		}
		c.K = k
		c.P = SecBaseMulFast(k)
	} else {
		p := SecAdd(SecBaseMulFast(il), x.P)
		if p.Inf {
			return nil, "invalid"
		}
		c.P = p
	}
	return c, "ok"
}

func (x *XKey) Neuter() *XKey {
	return &XKey{Private: false, P: x.P, ChainCode: x.ChainCode, Depth: x.Depth, ParentFP: x.ParentFP, ChildNum: x.ChildNum}
}

// Payload returns the 78 serialized bytes for the given 4-byte version.
func (x *XKey) Payload(version [4]byte) []byte {
	b := append([]byte{}, version[:]...)
	b = append(b, byte(x.Depth))
	b = append(b, x.ParentFP...)
	b = append(b, ser32(x.ChildNum)...)
	b = append(b, x.ChainCode...)
	if x.Private {
		b = append(b, 0)
		b = append(b, pad32(x.K.Bytes())...)
	} else {
		b = append(b, x.P.Compressed()...)
	}
	return b
}

// XSerialize = Base58(payload || first 4 bytes of double-SHA256(payload)).
func XSerialize(payload []byte) string {
	c := DoubleSHA256(payload)
	return B58Encode(append(append([]byte{}, payload...), c[:4]...))
}

func (x *XKey) String(n Net) string {
	v := n.HDPub
	if x.Private {
		v = n.HDPriv
	}
	return XSerialize(x.Payload(v))
}

// XValidPayload reports whether 78 bytes carry usable key material: 0x00 || scalar in [1,n-1], or a
// compressed point on the curve.
func XValidPayload(p []byte) bool {
	if len(p) != 78 {
		return false
	}
	kd := p[45:78]
	if kd[0] == 0 {
		k := new(big.Int).SetBytes(kd[1:])
		return k.Sign() > 0 && k.Cmp(SecN) < 0
	}
	_, ok := SecParseCompressed(kd)
	return ok
}

// WIF reference.
func WIFEncode(netID byte, key32 []byte, compressed bool) string {
	b := append([]byte{netID}, key32...)
	if compressed {
		b = append(b, 1)
	}
	c := DoubleSHA256(b)
	return B58Encode(append(b, c[:4]...))
}

// WIFValid: the decoded bytes are 37 bytes, or 38 bytes with byte 33 == 0x01, and the last four
// bytes are the double-SHA256 prefix of the rest.
func WIFValid(s string) (netID byte, key []byte, compressed bool, ok bool) {
	b, good := B58Decode(s)
	if !good {
		return 0, nil, false, false
	}
	switch len(b) {
	case 37:
	case 38:
		if b[33] != 1 {
			return 0, nil, false, false
		}
		compressed = true
	default:
		return 0, nil, false, false
	}
	c := DoubleSHA256(b[:len(b)-4])
	for i := 0; i < 4; i++ {
		if c[i] != b[len(b)-4+i] {
			return 0, nil, false, false
		}
	}
	return b[0], b[1:33], compressed, true
}

// HardenedChildScalar computes only the private part of a hardened child (no point multiplication):
// used to scan very many children cheaply for scalars of a particular shape.
func HardenedChildScalar(parentK *big.Int, chain []byte, i uint32) (k *big.Int, childChain []byte, ok bool) {
	data := append([]byte{0}, pad32(parentK.Bytes())...)
	data = append(data, ser32(i)...)
	I := hmac512(chain, data)
	il := new(big.Int).SetBytes(I[:32])
	if il.Cmp(SecN) >= 0 {
		return nil, nil, false
	}
	k = new(big.Int).Add(il, parentK)
	k.Mod(k, SecN)
	if k.Sign() == 0 {
		return nil, nil, false
	}
	return k, I[32:], true
}
