package ref

import (
	"math"
	"math/big"
	"strconv"
	"strings"
)

// Exact decimal reference for the amount conversions.  No floating-point arithmetic takes
// part in the *expected* values: the exact value of a·10^−s is produced by moving the decimal
// point inside a's digit string, and rounding to the nearest integer is done on the float's
// exact value with integer logic (cross-checked with math/big).

// ShiftDecimal returns the exact decimal text of a × 10^(−s): the digits of a with the decimal
// point moved s places to the left (s > 0) or −s zeros appended (s <= 0).
func ShiftDecimal(a int64, s int) string {
	return string(AppendShiftDecimal(nil, a, s))
}

// AppendShiftDecimal appends ShiftDecimal(a, s) to buf.
func AppendShiftDecimal(buf []byte, a int64, s int) []byte {
	var mag uint64
	if a < 0 {
		mag = uint64(-(a + 1)) + 1
		buf = append(buf, '-')
	} else {
		mag = uint64(a)
	}
	var tmp [20]byte
	d := strconv.AppendUint(tmp[:0], mag, 10)
	if s <= 0 {
		buf = append(buf, d...)
		for i := 0; i < -s; i++ {
			buf = append(buf, '0')
		}
		return buf
	}
	if len(d) <= s { // 0.000ddd
		buf = append(buf, '0', '.')
		for i := len(d); i < s; i++ {
			buf = append(buf, '0')
		}
		return append(buf, d...)
	}
	buf = append(buf, d[:len(d)-s]...)
	buf = append(buf, '.')
	return append(buf, d[len(d)-s:]...)
}

// splitDecimal accepts exactly [-]digits[.digits] and returns the sign, the integer part
// without leading zeros (empty for zero) and the fraction without trailing zeros.
func splitDecimal(t string) (neg bool, ip, fp string, ok bool) {
	if len(t) > 0 && t[0] == '-' {
		neg = true
		t = t[1:]
	}
	ip = t
	hasPoint := false
	if i := strings.IndexByte(t, '.'); i >= 0 {
		ip, fp = t[:i], t[i+1:]
		hasPoint = true
	}
	if len(ip) == 0 || (hasPoint && len(fp) == 0) {
		return false, "", "", false
	}
	for i := 0; i < len(ip); i++ {
		if ip[i] < '0' || ip[i] > '9' {
			return false, "", "", false
		}
	}
	for i := 0; i < len(fp); i++ {
		if fp[i] < '0' || fp[i] > '9' {
			return false, "", "", false
		}
	}
	for len(ip) > 0 && ip[0] == '0' {
		ip = ip[1:]
	}
	for len(fp) > 0 && fp[len(fp)-1] == '0' {
		fp = fp[:len(fp)-1]
	}
	if ip == "" && fp == "" {
		neg = false // zero carries no sign
	}
	return neg, ip, fp, true
}

// NormDecimal returns the canonical text of a plain decimal: no leading zeros (a single 0 if
// the integer part is zero), no trailing fractional zeros, no point without fraction, no sign
// on zero.  Two texts denote the same number iff their canonical texts are equal.
func NormDecimal(t string) (string, bool) {
	neg, ip, fp, ok := splitDecimal(t)
	if !ok {
		return "", false
	}
	if ip == "" {
		ip = "0"
	}
	out := ip
	if fp != "" {
		out += "." + fp
	}
	if neg {
		out = "-" + out
	}
	return out, true
}

// DecimalEqual reports whether two plain decimals denote the same number (wellFormed is false
// if x is not of the form [-]digits[.digits]; y is assumed to be).
func DecimalEqual(x, y string) (equal, wellFormed bool) {
	nx, ix, fx, ok := splitDecimal(x)
	if !ok {
		return false, false
	}
	ny, iy, fy, _ := splitDecimal(y)
	return nx == ny && ix == iy && fx == fy, true
}

// UnitLabel is the label of the unit with decimal exponent u (relative to one coin), as the
// package documentation gives it.
func UnitLabel(u int) string {
	switch u {
	case 6:
		return "MBCH"
	case 3:
		return "kBCH"
	case 0:
		return "BCH"
	case -3:
		return "mBCH"
	case -6:
		return "μBCH"
	case -8:
		return "Satoshi"
	}
	return "1e" + strconv.Itoa(u) + " BCH"
}

// UnitNamed reports whether u is one of the six named units.
func UnitNamed(u int) bool {
	switch u {
	case 6, 3, 0, -3, -6, -8:
		return true
	}
	return false
}

// QuotientRat is the float64 nearest to a × 10^(−s), computed from the exact rational (used as
// a cross-check of strconv.ParseFloat(ShiftDecimal(a, s)) on a sub-window).
func QuotientRat(a int64, s int) float64 {
	num := big.NewInt(a)
	den := big.NewInt(1)
	p := new(big.Int).Exp(big.NewInt(10), big.NewInt(int64(decAbs(s))), nil)
	if s > 0 {
		den = p
	} else {
		num.Mul(num, p)
	}
	f, _ := new(big.Rat).SetFrac(num, den).Float64()
	return f
}

func decAbs(x int) int {
	if x < 0 {
		return -x
	}
	return x
}

// RoundHalfAway returns sign(p)·floor(|p| + 1/2) of the exact value of p.  ok is false for NaN
// and |p| >= 2^63.  Integer logic only: for |p| >= 2^52 every float64 is an integer; below, the
// difference |p| − floor(|p|) is exactly representable, so the comparison with 1/2 is exact.
func RoundHalfAway(p float64) (int64, bool) {
	if p != p || math.Abs(p) >= 1<<63 {
		return 0, false
	}
	m := math.Abs(p)
	var r int64
	if m >= 1<<52 {
		r = int64(m)
	} else {
		ip := math.Floor(m)
		r = int64(ip)
		if m-ip >= 0.5 {
			r++
		}
	}
	if p < 0 {
		r = -r
	}
	return r, true
}

// RoundHalfAwayBig is the same function through math/big (exact addition at 200 bits, then
// truncation).
func RoundHalfAwayBig(p float64) *big.Int {
	m := new(big.Float).SetPrec(200).SetFloat64(math.Abs(p))
	m.Add(m, new(big.Float).SetPrec(200).SetFloat64(0.5))
	i, _ := m.Int(nil)
	if p < 0 {
		i.Neg(i)
	}
	return i
}
