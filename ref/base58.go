// Package ref holds the reference models: written from the specifications, deliberately
// boring, sharing no code with the library under test.
package ref

import (
	"crypto/sha256"
)

const B58Alphabet = "123456789ABCDEFGHJKLMNPQRSTUVWXYZabcdefghijkmnopqrstuvwxyz"

// B58Encode: base-256 -> base-58 by schoolbook long division on a byte array; leading
// zero bytes become leading '1'.
func B58Encode(b []byte) string {
	zeros := 0
	for zeros < len(b) && b[zeros] == 0 {
		zeros++
	}
	num := append([]byte{}, b[zeros:]...)
	var digits []byte // least significant first
	for len(num) > 0 {
		rem := 0
		var q []byte
		for _, d := range num {
			acc := rem*256 + int(d)
			qd := acc / 58
			rem = acc % 58
			if len(q) > 0 || qd != 0 {
				q = append(q, byte(qd))
			}
		}
		digits = append(digits, B58Alphabet[rem])
		num = q
	}
	out := make([]byte, 0, zeros+len(digits))
	for i := 0; i < zeros; i++ {
		out = append(out, '1')
	}
	for i := len(digits) - 1; i >= 0; i-- {
		out = append(out, digits[i])
	}
	return string(out)
}

// B58Decode returns (bytes, ok); ok is false when s contains a foreign character.
func B58Decode(s string) ([]byte, bool) {
	ones := 0
	for ones < len(s) && s[ones] == '1' {
		ones++
	}
	var num []byte // big-endian base-256, no leading zeros
	for i := 0; i < len(s); i++ {
		v := -1
		for k := 0; k < 58; k++ {
			if B58Alphabet[k] == s[i] {
				v = k
			}
		}
		if v < 0 {
			return nil, false
		}
		carry := v
		for j := len(num) - 1; j >= 0; j-- {
			acc := int(num[j])*58 + carry
			num[j] = byte(acc & 0xff)
			carry = acc >> 8
		}
		for carry > 0 {
			num = append([]byte{byte(carry & 0xff)}, num...)
			carry >>= 8
		}
	}
	out := make([]byte, ones, ones+len(num))
	return append(out, num...), true
}

func DoubleSHA256(b []byte) [32]byte {
	h := sha256.Sum256(b)
	return sha256.Sum256(h[:])
}

// B58CheckEncode = Base58(version || payload || first 4 bytes of SHA256(SHA256(version||payload))).
func B58CheckEncode(version byte, payload []byte) string {
	b := append([]byte{version}, payload...)
	c := DoubleSHA256(b)
	return B58Encode(append(b, c[:4]...))
}

// B58CheckDecode: status "ok", "format" (fewer than 5 bytes / foreign char => empty) or "checksum".
func B58CheckDecode(s string) (version byte, payload []byte, status string) {
	b, ok := B58Decode(s)
	if !ok {
		b = nil
	}
	if len(b) < 5 {
		return 0, nil, "format"
	}
	c := DoubleSHA256(b[:len(b)-4])
	for i := 0; i < 4; i++ {
		if c[i] != b[len(b)-4+i] {
			return 0, nil, "checksum"
		}
	}
	return b[0], b[1 : len(b)-4], "ok"
}
