package ref

// Reference predicates for coin selection (C19) and the slice model of a coin set.  Plain
// integers only; nothing here knows the library's types.

// CoinSatisfies is the target predicate of the statement: the total equals the target or
// exceeds it by at least the minimum change.
func CoinSatisfies(target, minChange, total int64) bool {
	return total == target || total >= target+minChange
}

// ShortestQualifyingPrefix returns the least k with 1 <= k <= min(len(values), maxInputs)
// such that values[0]+...+values[k-1] satisfies the target predicate, or 0 when no such
// prefix exists.  (A selection has at least one coin: the empty prefix is not a candidate.)
func ShortestQualifyingPrefix(values []int64, target, minChange int64, maxInputs int) int {
	sum := int64(0)
	for k := 1; k <= len(values) && k <= maxInputs; k++ {
		sum += values[k-1]
		if CoinSatisfies(target, minChange, sum) {
			return k
		}
	}
	return 0
}

// EachDescendingOrder calls f with every permutation p of 0..len(keys)-1 for which
// keys[p[0]] >= keys[p[1]] >= ... (all ways of breaking ties).  p is reused between calls.
// f returns false to stop the enumeration.
func EachDescendingOrder(keys []int64, f func(p []int) bool) {
	n := len(keys)
	p := make([]int, 0, n)
	used := make([]bool, n)
	var rec func() bool
	rec = func() bool {
		if len(p) == n {
			return f(p)
		}
		for i := 0; i < n; i++ {
			if used[i] {
				continue
			}
			if len(p) > 0 && keys[i] > keys[p[len(p)-1]] {
				continue
			}
			// every unused key must be <= keys[i] for a descending completion to exist
			ok := true
			for j := 0; j < n; j++ {
				if !used[j] && keys[j] > keys[i] {
					ok = false
					break
				}
			}
			if !ok {
				continue
			}
			used[i] = true
			p = append(p, i)
			cont := rec()
			p = p[:len(p)-1]
			used[i] = false
			if !cont {
				return false
			}
		}
		return true
	}
	rec()
}

// CoinSetModel is the slice model of a coin set: the ids of its coins in order.
type CoinSetModel struct {
	IDs []int
}

func (m *CoinSetModel) Push(id int) { m.IDs = append(m.IDs, id) }

// Pop removes and returns the last id; ok is false on an empty model.
func (m *CoinSetModel) Pop() (id int, ok bool) {
	if len(m.IDs) == 0 {
		return 0, false
	}
	id = m.IDs[len(m.IDs)-1]
	m.IDs = m.IDs[:len(m.IDs)-1]
	return id, true
}

// Shift removes and returns the first id; ok is false on an empty model.
func (m *CoinSetModel) Shift() (id int, ok bool) {
	if len(m.IDs) == 0 {
		return 0, false
	}
	id = m.IDs[0]
	m.IDs = append([]int{}, m.IDs[1:]...)
	return id, true
}

// Sum adds table[id] over the current contents.
func (m *CoinSetModel) Sum(table map[int]int64) int64 {
	s := int64(0)
	for _, id := range m.IDs {
		s += table[id]
	}
	return s
}
