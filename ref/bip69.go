package ref

// Reference BIP69 ordering keys, written from the BIP text and independent of the library's
// comparator: no byte reversal, no copies — the previous-output hash is read as a number
// whose most significant byte is the LAST byte in memory (the hash is stored little-endian,
// the transaction id is the reversed, big-endian rendering).

// Bip69In is the sort key of one transaction input.
type Bip69In struct {
	Hash  [32]byte // as stored in memory / on the wire
	Index uint32
}

// Bip69Out is the sort key of one transaction output.
type Bip69Out struct {
	Amount int64
	Script []byte
}

// Bip69InCmp returns -1, 0, +1: (txid as big-endian number, then output index).
func Bip69InCmp(a, b Bip69In) int {
	for i := 31; i >= 0; i-- {
		if a.Hash[i] != b.Hash[i] {
			if a.Hash[i] < b.Hash[i] {
				return -1
			}
			return 1
		}
	}
	switch {
	case a.Index < b.Index:
		return -1
	case a.Index > b.Index:
		return 1
	}
	return 0
}

// Bip69OutCmp returns -1, 0, +1: (amount, then script bytes lexicographically; a proper
// prefix sorts before the longer script).
func Bip69OutCmp(a, b Bip69Out) int {
	switch {
	case a.Amount < b.Amount:
		return -1
	case a.Amount > b.Amount:
		return 1
	}
	n := len(a.Script)
	if len(b.Script) < n {
		n = len(b.Script)
	}
	for i := 0; i < n; i++ {
		if a.Script[i] != b.Script[i] {
			if a.Script[i] < b.Script[i] {
				return -1
			}
			return 1
		}
	}
	switch {
	case len(a.Script) < len(b.Script):
		return -1
	case len(a.Script) > len(b.Script):
		return 1
	}
	return 0
}

// Bip69InsSorted: non-decreasing under the input key.
func Bip69InsSorted(s []Bip69In) bool {
	for i := 1; i < len(s); i++ {
		if Bip69InCmp(s[i-1], s[i]) > 0 {
			return false
		}
	}
	return true
}

// Bip69OutsSorted: non-decreasing under the output key.
func Bip69OutsSorted(s []Bip69Out) bool {
	for i := 1; i < len(s); i++ {
		if Bip69OutCmp(s[i-1], s[i]) > 0 {
			return false
		}
	}
	return true
}

// Bip69InsHaveTie / Bip69OutsHaveTie report whether two elements carry the same key.
func Bip69InsHaveTie(s []Bip69In) bool {
	for i := range s {
		for j := i + 1; j < len(s); j++ {
			if Bip69InCmp(s[i], s[j]) == 0 {
				return true
			}
		}
	}
	return false
}

func Bip69OutsHaveTie(s []Bip69Out) bool {
	for i := range s {
		for j := i + 1; j < len(s); j++ {
			if Bip69OutCmp(s[i], s[j]) == 0 {
				return true
			}
		}
	}
	return false
}
