package ref

import (
	"math/big"
)

// secp256k1 in affine coordinates over big.Int: slow and obvious (SEC 2).
var (
	SecP, _  = new(big.Int).SetString("FFFFFFFFFFFFFFFFFFFFFFFFFFFFFFFFFFFFFFFFFFFFFFFFFFFFFFFEFFFFFC2F", 16)
	SecN, _  = new(big.Int).SetString("FFFFFFFFFFFFFFFFFFFFFFFFFFFFFFFEBAAEDCE6AF48A03BBFD25E8CD0364141", 16)
	SecGx, _ = new(big.Int).SetString("79BE667EF9DCBBAC55A06295CE870B07029BFCDB2DCE28D959F2815B16F81798", 16)
	SecGy, _ = new(big.Int).SetString("483ADA7726A3C4655DA4FBFC0E1108A8FD17B448A68554199C47D08FFB10D4B8", 16)
)

// Point is an affine point; Inf marks the point at infinity.
type Point struct {
	X, Y *big.Int
	Inf  bool
}

func SecG() Point { return Point{new(big.Int).Set(SecGx), new(big.Int).Set(SecGy), false} }

func mod(a *big.Int) *big.Int {
	r := new(big.Int).Mod(a, SecP)
	return r
}

func SecAdd(a, b Point) Point {
	if a.Inf {
		return b
	}
	if b.Inf {
		return a
	}
	if a.X.Cmp(b.X) == 0 {
		if a.Y.Cmp(b.Y) != 0 || a.Y.Sign() == 0 {
			return Point{Inf: true}
		}
		// doubling: lambda = 3x^2 / 2y
		num := mod(new(big.Int).Mul(big.NewInt(3), new(big.Int).Mul(a.X, a.X)))
		den := new(big.Int).ModInverse(mod(new(big.Int).Lsh(a.Y, 1)), SecP)
		l := mod(new(big.Int).Mul(num, den))
		x := mod(new(big.Int).Sub(new(big.Int).Mul(l, l), new(big.Int).Lsh(a.X, 1)))
		y := mod(new(big.Int).Sub(new(big.Int).Mul(l, new(big.Int).Sub(a.X, x)), a.Y))
		return Point{x, y, false}
	}
	num := mod(new(big.Int).Sub(b.Y, a.Y))
	den := new(big.Int).ModInverse(mod(new(big.Int).Sub(b.X, a.X)), SecP)
	l := mod(new(big.Int).Mul(num, den))
	x := mod(new(big.Int).Sub(new(big.Int).Sub(new(big.Int).Mul(l, l), a.X), b.X))
	y := mod(new(big.Int).Sub(new(big.Int).Mul(l, new(big.Int).Sub(a.X, x)), a.Y))
	return Point{x, y, false}
}

// SecMul computes k*P by double-and-add.
func SecMul(k *big.Int, p Point) Point {
	r := Point{Inf: true}
	kk := new(big.Int).Mod(k, SecN)
	for i := kk.BitLen() - 1; i >= 0; i-- {
		r = SecAdd(r, r)
		if kk.Bit(i) == 1 {
			r = SecAdd(r, p)
		}
	}
	return r
}

func SecBaseMul(k *big.Int) Point { return SecMul(k, SecG()) }

func pad32(b []byte) []byte {
	if len(b) >= 32 {
		return b[len(b)-32:]
	}
	out := make([]byte, 32)
	copy(out[32-len(b):], b)
	return out
}

// SerializeCompressed / Uncompressed / Hybrid per SEC 1 (hybrid: 0x06 | y parity, X, Y).
func (p Point) Compressed() []byte {
	b := []byte{0x02 | byte(p.Y.Bit(0))}
	return append(b, pad32(p.X.Bytes())...)
}
func (p Point) Uncompressed() []byte {
	b := []byte{0x04}
	b = append(b, pad32(p.X.Bytes())...)
	return append(b, pad32(p.Y.Bytes())...)
}
func (p Point) Hybrid() []byte {
	b := []byte{0x06 | byte(p.Y.Bit(0))}
	b = append(b, pad32(p.X.Bytes())...)
	return append(b, pad32(p.Y.Bytes())...)
}

// SecOnCurve reports y^2 = x^3 + 7 with 0 <= x,y < p.
func SecOnCurve(x, y *big.Int) bool {
	if x.Sign() < 0 || y.Sign() < 0 || x.Cmp(SecP) >= 0 || y.Cmp(SecP) >= 0 {
		return false
	}
	l := mod(new(big.Int).Mul(y, y))
	r := mod(new(big.Int).Add(new(big.Int).Mul(new(big.Int).Mul(x, x), x), big.NewInt(7)))
	return l.Cmp(r) == 0
}

// SecLiftX returns the point with the given x and y parity, if x is on the curve.
func SecLiftX(x *big.Int, odd bool) (Point, bool) {
	if x.Sign() < 0 || x.Cmp(SecP) >= 0 {
		return Point{}, false
	}
	r := mod(new(big.Int).Add(new(big.Int).Mul(new(big.Int).Mul(x, x), x), big.NewInt(7)))
	y := new(big.Int).ModSqrt(r, SecP)
	if y == nil {
		return Point{}, false
	}
	if (y.Bit(0) == 1) != odd {
		y = new(big.Int).Sub(SecP, y)
	}
	if !SecOnCurve(x, y) {
		return Point{}, false
	}
	return Point{new(big.Int).Set(x), y, false}, true
}

// SecParseCompressed parses a 33-byte compressed key strictly.
func SecParseCompressed(b []byte) (Point, bool) {
	if len(b) != 33 || (b[0] != 2 && b[0] != 3) {
		return Point{}, false
	}
	return SecLiftX(new(big.Int).SetBytes(b[1:]), b[0] == 3)
}
