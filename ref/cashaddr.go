package ref

import (
	"strings"
)

const CashCharset = "qpzry9x8gf2tvdw0s3jn54khce6mua7l"

// CashAddr generator x^8 + {19}x^7 + {3}x^6 + {25}x^5 + {11}x^4 + {25}x^3 + {3}x^2 + {19}x + {1}
// over GF(32), a^5 = a^3 + 1 (CashAddr specification).
var cashGen = []byte{19, 3, 25, 11, 25, 3, 19, 1}

func cashPrefixExpand(prefix string) []byte {
	v := make([]byte, 0, len(prefix)+1)
	for i := 0; i < len(prefix); i++ {
		v = append(v, prefix[i]&0x1f)
	}
	return append(v, 0)
}

// CashChecksum returns the 8 checksum symbols for a lower-case prefix and 5-bit payload.
func CashChecksum(prefix string, payload []byte) []byte {
	v := append(cashPrefixExpand(prefix), payload...)
	v = append(v, 0, 0, 0, 0, 0, 0, 0, 0)
	rem := polyRem(v, cashGen)
	rem[7] ^= 1
	return rem
}

// CashValid reports whether symbols (payload || 8 checksum symbols) verify under prefix.
func CashValid(prefix string, symbols []byte) bool {
	v := append(cashPrefixExpand(prefix), symbols...)
	rem := polyRem(v, cashGen)
	for i := 0; i < 7; i++ {
		if rem[i] != 0 {
			return false
		}
	}
	return rem[7] == 1
}

// CashSyndrome returns the 8 remainder symbols of prefix||0||symbols with the final 1 removed, so
// a valid word has the all-zero syndrome.
func CashSyndrome(prefix string, symbols []byte) []byte {
	v := append(cashPrefixExpand(prefix), symbols...)
	rem := polyRem(v, cashGen)
	rem[7] ^= 1
	return rem
}

func symbolsToString(sym []byte) string {
	var sb strings.Builder
	for _, s := range sym {
		sb.WriteByte(CashCharset[s&31])
	}
	return sb.String()
}

// CashEncodeSymbols returns the payload part (no "prefix:") for an arbitrary 5-bit payload, with a
// valid checksum.
func CashEncodeSymbols(prefix string, payload []byte) string {
	return symbolsToString(append(append([]byte{}, payload...), CashChecksum(prefix, payload)...))
}

// CashVersionByte: type bits (0 = P2PKH, 1 = P2SH) << 3 | size code; ok=false for sizes the
// specification does not define.
func CashVersionByte(typ int, hashLen int) (byte, bool) {
	sizes := map[int]byte{20: 0, 24: 1, 28: 2, 32: 3, 40: 4, 48: 5, 56: 6, 64: 7}
	sc, ok := sizes[hashLen]
	if !ok || typ < 0 || typ > 15 {
		return 0, false
	}
	return byte(typ)<<3 | sc, true
}

// CashEncode returns the specification's string (without "prefix:") for (prefix, type, hash).
func CashEncode(prefix string, typ int, hash []byte) string {
	vb, ok := CashVersionByte(typ, len(hash))
	if !ok {
		return ""
	}
	p5, _, _ := Regroup(append([]byte{vb}, hash...), 8, 5, true)
	return CashEncodeSymbols(prefix, p5)
}

// CashDecoded is the result of the strict reference decoder.
type CashDecoded struct {
	Prefix  string
	Version byte
	Type    int
	Hash    []byte
}

// CashStrictDecode decodes "prefix:payload" (single case) per the specification: charset,
// checksum, 5->8 regrouping with zero padding of fewer than 5 bits, version byte with reserved bit
// clear and known type (0,1), hash length matching the size code.  reason names the first rule
// that fails.
func CashStrictDecode(s string) (d CashDecoded, ok bool, reason string) {
	hasL, hasU := false, false
	for i := 0; i < len(s); i++ {
		if s[i] >= 'a' && s[i] <= 'z' {
			hasL = true
		}
		if s[i] >= 'A' && s[i] <= 'Z' {
			hasU = true
		}
	}
	if hasL && hasU {
		return d, false, "mixed case"
	}
	s = strings.ToLower(s)
	colon := strings.IndexByte(s, ':')
	if colon <= 0 || strings.Count(s, ":") != 1 {
		return d, false, "separator"
	}
	prefix := s[:colon]
	var sym []byte
	for i := colon + 1; i < len(s); i++ {
		k := strings.IndexByte(CashCharset, s[i])
		if k < 0 {
			return d, false, "charset"
		}
		sym = append(sym, byte(k))
	}
	if len(sym) < 8 {
		return d, false, "too short"
	}
	if !CashValid(prefix, sym) {
		return d, false, "checksum"
	}
	payload := sym[:len(sym)-8]
	b, leftover, zero := Regroup(payload, 5, 8, false)
	if leftover >= 5 {
		return d, false, "over-long padding"
	}
	if !zero {
		return d, false, "non-zero padding"
	}
	if len(b) == 0 {
		return d, false, "empty payload"
	}
	vb := b[0]
	if vb&0x80 != 0 {
		return d, false, "reserved version bit"
	}
	typ := int(vb >> 3)
	if typ != 0 && typ != 1 {
		return d, false, "unknown type"
	}
	sizes := []int{20, 24, 28, 32, 40, 48, 56, 64}
	if len(b)-1 != sizes[vb&7] {
		return d, false, "length does not match size code"
	}
	return CashDecoded{Prefix: prefix, Version: vb, Type: typ, Hash: b[1:]}, true, ""
}

// Net is the reference's own table of network constants (hard-coded, not read from chaincfg).
type Net struct {
	Name       string
	CashPrefix string
	SlpPrefix  string
	P2PKHID    byte
	P2SHID     byte
	WIFID      byte
	HDPriv     [4]byte
	HDPub      [4]byte
}

var Nets = []Net{
	{"mainnet", "bitcoincash", "simpleledger", 0x00, 0x05, 0x80, [4]byte{0x04, 0x88, 0xad, 0xe4}, [4]byte{0x04, 0x88, 0xb2, 0x1e}},
	{"testnet3", "bchtest", "slptest", 0x6f, 0xc4, 0xef, [4]byte{0x04, 0x35, 0x83, 0x94}, [4]byte{0x04, 0x35, 0x87, 0xcf}},
	{"testnet4", "bchtest", "slptest", 0x6f, 0xc4, 0xef, [4]byte{0x04, 0x35, 0x83, 0x94}, [4]byte{0x04, 0x35, 0x87, 0xcf}},
	{"chipnet", "bchtest", "slptest", 0x6f, 0xc4, 0xef, [4]byte{0x04, 0x35, 0x83, 0x94}, [4]byte{0x04, 0x35, 0x87, 0xcf}},
	{"regtest", "bchreg", "slpreg", 0x6f, 0xc4, 0xef, [4]byte{0x04, 0x35, 0x83, 0x94}, [4]byte{0x04, 0x35, 0x87, 0xcf}},
	{"simnet", "bchsim", "", 0x3f, 0x7b, 0x64, [4]byte{0x04, 0x20, 0xb9, 0x00}, [4]byte{0x04, 0x20, 0xbd, 0x3a}},
}
