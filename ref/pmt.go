package ref

// Partial merkle trees (BIP37), written from the BIP text on explicit recursion.

type Hash32 = [32]byte

func MerkleParent(l, r Hash32) Hash32 {
	return DoubleSHA256(append(append([]byte{}, l[:]...), r[:]...))
}

func treeWidth(n uint32, height uint32) uint32 { return (n + (1 << height) - 1) >> height }

func treeHeight(n uint32) uint32 {
	h := uint32(0)
	for treeWidth(n, h) > 1 {
		h++
	}
	return h
}

// MerkleRoot of a list of txids (Bitcoin rule: the last node of an odd level is paired with itself).
func MerkleRoot(ids []Hash32) Hash32 {
	level := append([]Hash32{}, ids...)
	for len(level) > 1 {
		var next []Hash32
		for i := 0; i < len(level); i += 2 {
			if i+1 < len(level) {
				next = append(next, MerkleParent(level[i], level[i+1]))
			} else {
				next = append(next, MerkleParent(level[i], level[i]))
			}
		}
		level = next
	}
	return level[0]
}

func nodeHash(ids []Hash32, height, pos uint32) Hash32 {
	if height == 0 {
		return ids[pos]
	}
	l := nodeHash(ids, height-1, 2*pos)
	r := l
	if 2*pos+1 < treeWidth(uint32(len(ids)), height-1) {
		r = nodeHash(ids, height-1, 2*pos+1)
	}
	return MerkleParent(l, r)
}

// PMTBuild returns the canonical partial merkle tree for the matched leaves: depth-first, one flag
// bit per visited node (1 = the subtree contains a match), a hash for every node whose bit is 0 and
// for every leaf; flag bits packed least-significant-bit first.
func PMTBuild(ids []Hash32, matched []bool) (hashes []Hash32, flags []byte) {
	n := uint32(len(ids))
	var bits []bool
	var rec func(height, pos uint32)
	rec = func(height, pos uint32) {
		parent := false
		for i := pos << height; i < (pos+1)<<height && i < n; i++ {
			if matched[i] {
				parent = true
			}
		}
		bits = append(bits, parent)
		if height == 0 || !parent {
			hashes = append(hashes, nodeHash(ids, height, pos))
			return
		}
		rec(height-1, 2*pos)
		if 2*pos+1 < treeWidth(n, height-1) {
			rec(height-1, 2*pos+1)
		}
	}
	rec(treeHeight(n), 0)
	flags = make([]byte, (len(bits)+7)/8)
	for i, b := range bits {
		if b {
			flags[i/8] |= 1 << uint(i%8)
		}
	}
	return
}

type PMTMatch struct {
	Pos  uint32
	Hash Hash32
}

// PMTExtract evaluates a partial merkle tree.  reason is "" on success, otherwise the first
// BIP37 rule that fails.  maxTx is the cap on the declared transaction count.
func PMTExtract(numTx uint32, hashes []Hash32, flags []byte, maxTx uint32) (root Hash32, matches []PMTMatch, reason string) {
	if numTx == 0 {
		return root, nil, "zero transactions"
	}
	if numTx > maxTx {
		return root, nil, "too many transactions"
	}
	if uint32(len(hashes)) > numTx {
		return root, nil, "more hashes than transactions"
	}
	nbits := len(flags) * 8
	if nbits < len(hashes) {
		return root, nil, "fewer flag bits than hashes"
	}
	bitsUsed, hashesUsed := 0, 0
	fail := ""
	setFail := func(s string) {
		if fail == "" {
			fail = s
		}
	}
	type path struct {
		pos  uint32
		hash Hash32
	}
	var rec func(height, pos uint32) Hash32
	rec = func(height, pos uint32) Hash32 {
		if bitsUsed >= nbits {
			setFail("ran out of flag bits")
			return Hash32{}
		}
		bit := flags[bitsUsed/8]>>(uint(bitsUsed)%8)&1 == 1
		bitsUsed++
		if height == 0 || !bit {
			if hashesUsed >= len(hashes) {
				setFail("ran out of hashes")
				return Hash32{}
			}
			h := hashes[hashesUsed]
			hashesUsed++
			if height == 0 && bit {
				matches = append(matches, PMTMatch{pos, h})
			}
			return h
		}
		l := rec(height-1, 2*pos)
		r := l
		if 2*pos+1 < treeWidth(numTx, height-1) {
			r = rec(height-1, 2*pos+1)
			if r == l {
				setFail("identical children (CVE-2012-2459)")
			}
		}
		return MerkleParent(l, r)
	}
	root = rec(treeHeight(numTx), 0)
	if fail != "" {
		return Hash32{}, nil, fail
	}
	if (bitsUsed+7)/8 != (nbits+7)/8 {
		return Hash32{}, nil, "unused whole byte of flag bits"
	}
	if hashesUsed != len(hashes) {
		return Hash32{}, nil, "unused hash"
	}
	return root, matches, ""
}

// PMTVerifyLeaf recomputes the root from a claimed leaf (pos, hash) using the sibling values that
// an evaluation of the same message yields: it re-walks the tree and, on the path to pos,
// substitutes the claimed leaf hash.  Returns the root obtained.
func PMTVerifyLeaf(numTx uint32, hashes []Hash32, flags []byte, pos uint32, leaf Hash32) (Hash32, bool) {
	bitsUsed, hashesUsed := 0, 0
	nbits := len(flags) * 8
	ok := true
	found := false
	var rec func(height, p uint32) Hash32
	rec = func(height, p uint32) Hash32 {
		if bitsUsed >= nbits {
			ok = false
			return Hash32{}
		}
		bit := flags[bitsUsed/8]>>(uint(bitsUsed)%8)&1 == 1
		bitsUsed++
		if height == 0 || !bit {
			if hashesUsed >= len(hashes) {
				ok = false
				return Hash32{}
			}
			h := hashes[hashesUsed]
			hashesUsed++
			if height == 0 && p == pos {
				found = bit
				return leaf
			}
			return h
		}
		l := rec(height-1, 2*p)
		r := l
		if 2*p+1 < treeWidth(numTx, height-1) {
			r = rec(height-1, 2*p+1)
		}
		return MerkleParent(l, r)
	}
	root := rec(treeHeight(numTx), 0)
	return root, ok && found
}
