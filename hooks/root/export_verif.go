package bchutil

// Added at build time by /verif (go build -overlay); not part of the repository.

// VerifPolyMod exposes the CashAddr remainder function to the syndrome model (C03).
func VerifPolyMod(v []byte) uint64 { return polyMod(v) }

// VerifVerifyChecksum exposes the CashAddr acceptance test itself (C03 acceptance sweep).
func VerifVerifyChecksum(prefix string, payload []byte) bool { return verifyChecksum(prefix, payload) }
