package bchutil

// Added at build time by /verif (go build -overlay); not part of the repository.

// VerifPolyMod exposes the CashAddr remainder function to the syndrome model (C03).
func VerifPolyMod(v []byte) uint64 { return polyMod(v) }
