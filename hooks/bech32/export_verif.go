package bech32

// Added at build time by /verif (go build -overlay); not part of the repository.

// VerifPolymod exposes the bech32 remainder function to the syndrome model (C03).
func VerifPolymod(values []int) int { return bech32Polymod(values) }

// VerifHrpExpand exposes the hrp expansion.
func VerifHrpExpand(hrp string) []int { return bech32HrpExpand(hrp) }

// VerifVerifyChecksum exposes the acceptance test itself.
func VerifVerifyChecksum(hrp string, data []byte) bool { return bech32VerifyChecksum(hrp, data) }
