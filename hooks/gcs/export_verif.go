package gcs

// Added at build time by /verif (go build -overlay); not part of the repository.

// VerifFastReduction exposes the 64x64->high-64 multiply (C14).
func VerifFastReduction(v, nHi, nLo uint64) uint64 { return fastReduction(v, nHi, nLo) }
