// Package vsync replaces "sync" in instrumented files: same method sets, every operation is a
// scheduling point of the verifrt scheduler.  Outside an execution it behaves like a no-op lock
// (the harness runs single-threaded there).
package vsync

import "github.com/gcash/bchutil/verifrt"

type Mutex struct{ s verifrt.MutexState }

func (m *Mutex) Lock()   { verifrt.Lock(&m.s) }
func (m *Mutex) Unlock() { verifrt.Unlock(&m.s) }

type RWMutex struct{ s verifrt.MutexState }

func (m *RWMutex) Lock()    { verifrt.Lock(&m.s) }
func (m *RWMutex) Unlock()  { verifrt.Unlock(&m.s) }
func (m *RWMutex) RLock()   { verifrt.RLock(&m.s) }
func (m *RWMutex) RUnlock() { verifrt.RUnlock(&m.s) }
