// Package vsync replaces "sync" in instrumented files: same names, but every blocking or shared
// operation is a scheduling point of the verifrt scheduler.  Outside an execution it behaves like
// the uncontended primitive (the harness runs single-threaded there).
package vsync

import (
	"sync"

	"github.com/gcash/bchutil/verifrt"
)

type Mutex struct{ s verifrt.MutexState }

// State exposes the scheduler-visible state (for verifrt.Await in harnesses).
func (m *Mutex) State() *verifrt.MutexState   { return &m.s }
func (m *RWMutex) State() *verifrt.MutexState { return &m.s }

func (m *Mutex) Lock()   { verifrt.Lock(&m.s) }
func (m *Mutex) Unlock() { verifrt.Unlock(&m.s) }
func (m *Mutex) TryLock() bool {
	verifrt.P(0)
	return verifrt.TryLock(&m.s)
}

type RWMutex struct{ s verifrt.MutexState }

func (m *RWMutex) Lock()    { verifrt.Lock(&m.s) }
func (m *RWMutex) Unlock()  { verifrt.Unlock(&m.s) }
func (m *RWMutex) RLock()   { verifrt.RLock(&m.s) }
func (m *RWMutex) RUnlock() { verifrt.RUnlock(&m.s) }

// Locker is sync.Locker.
type Locker = sync.Locker

// Pool is a deterministic model of sync.Pool: one LIFO free list shared by all logical threads, so
// that an object that was Put is handed to the very next Get (the schedule in which a use-after-Put
// is visible).  Get and Put are scheduling points; they are not reported as conflicting accesses
// because the real Pool is safe for concurrent use.
type Pool struct {
	New   func() any
	items []any
}

func (p *Pool) Get() any {
	verifrt.P(0)
	if n := len(p.items); n > 0 {
		x := p.items[n-1]
		p.items = p.items[:n-1]
		return x
	}
	if p.New != nil {
		return p.New()
	}
	return nil
}

func (p *Pool) Put(x any) {
	verifrt.P(0)
	p.items = append(p.items, x)
}

// Once: Do is a scheduling point; the function runs at most once (threads are serialised by the
// scheduler, so no inner lock is needed).
type Once struct{ done bool }

func (o *Once) Do(f func()) {
	verifrt.P(0)
	if !o.done {
		o.done = true
		f()
	}
}

// The remaining sync types are passed through unchanged.  Their blocking operations are not
// scheduling points; code that waits on them under the scheduler would stall the execution, which
// the scheduler's watchdog reports as a harness error, never as a verdict.
type (
	WaitGroup = sync.WaitGroup
	Cond      = sync.Cond
	Map       = sync.Map
)

func NewCond(l Locker) *Cond { return sync.NewCond(l) }
