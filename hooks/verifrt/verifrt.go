// Package verifrt is the cooperative scheduler runtime used by /verif's stateless model checker
// (E-SCHED).  It is added to the build with `go build -overlay`; it is not part of the repository.
//
// Logical threads are goroutines that run strictly one at a time.  Instrumented code calls P()
// before every statement (announcing the shared-memory accesses that statement will perform) and
// the vsync shim calls Lock/Unlock.  At each such scheduling point the thread parks with its
// pending operation visible and control returns to the scheduler, which asks the explorer which
// enabled thread runs next.  Outside an execution every entry point is inert.
package verifrt

import (
	"fmt"
	"time"
	"unsafe"
)

// Acc is one announced access to shared memory.
type Acc struct {
	W    bool
	Obj  unsafe.Pointer
	Path string
	Idx  int // evaluated index, -1 = unknown / whole object
	// At: made through sync/atomic.  Two atomic accesses never race; an atomic access and a plain
	// WRITE of the same location do (a plain read against an atomic store is left to the auxiliary
	// free-running -race pass, since the kind of the atomic operation is not tracked).
	At bool
	// Al: reached through a local alias of a reference-typed field (x := r.f; ... x.g).  The object
	// reached is the one r.f pointed to when the alias was taken, so a later write of the field r.f
	// itself does not conflict with it; an access to the same sub-path does.
	Al bool
}

func R(obj unsafe.Pointer, path string, idx int) Acc  { return Acc{false, obj, path, idx, false, false} }
func W(obj unsafe.Pointer, path string, idx int) Acc  { return Acc{true, obj, path, idx, false, false} }
func A(obj unsafe.Pointer, path string, idx int) Acc  { return Acc{false, obj, path, idx, true, false} }
func RA(obj unsafe.Pointer, path string, idx int) Acc { return Acc{false, obj, path, idx, false, true} }
func WA(obj unsafe.Pointer, path string, idx int) Acc { return Acc{true, obj, path, idx, false, true} }

// MutexState is the scheduler-visible state of a vsync mutex.
type MutexState struct {
	holder  int // thread id + 1, 0 = free
	readers int
	id      int
}

type Pending struct {
	Kind  int // 0 start/none, 1 statement, 2 lock, 3 rlock
	Site  int
	Accs  []Acc
	Mutex *MutexState
}

type Thread struct {
	ID      int
	Pending Pending
	Done    bool
	Panic   string
	resume  chan bool // true = continue, false = abort
	Held    int       // number of mutexes held (for diagnostics)
}

// Race is a pair of conflicting accesses of two simultaneously enabled threads.
type Race struct {
	A, B   int
	Path   string
	Idx    int
	SiteA  int
	SiteB  int
	WriteA bool
	WriteB bool
}

type Point struct {
	Enabled        []int // canonical order: running thread first if enabled, then ascending ids
	Running        int   // thread that ran last (-1 at the start)
	RunningEnabled bool
	Chosen         int // index into Enabled
}

type Exec struct {
	Threads  []*Thread
	Points   []Point
	Races    []Race
	Deadlock bool
	Steps    int
	Horizon  bool
	Writes   []Acc // every write announced by any thread (for the "immutable" oracle)
	yield    chan int
	events   int
	aborted  bool
}

var cur *Exec
var running int = -1

type abortSentinel struct{}

// Active reports whether an execution is in progress (instrumented code is being scheduled).
func Active() bool { return cur != nil }

// Event returns a fresh global timestamp (used by harness bodies to record call/return order).
func Event() int {
	if cur == nil {
		return 0
	}
	cur.events++
	return cur.events
}

// Self returns the id of the running logical thread.
func Self() int { return running }

func park(p Pending) {
	e := cur
	t := e.Threads[running]
	t.Pending = p
	e.yield <- t.ID
	if !<-t.resume {
		panic(abortSentinel{})
	}
}

// P announces the accesses of the statement about to execute and parks.
// EagerStart, when set before Run, makes Run execute every thread up to its first scheduling point
// before the first scheduling decision.  Only for bodies whose first action is a scheduling point
// (verifrt.Await) placed before anything observable, such as taking a time stamp.
var EagerStart bool

// SkipLocal, when set before Run, makes a statement that announces no shared access run on without
// parking: such a statement commutes with every step of every other thread, so the schedules that
// differ only in where it is placed have the same observable outcome (a partial-order reduction).
// It is what makes scenarios with thousands of local steps per operation explorable.  Accesses made
// through local aliases are invisible to the syntactic instrumenter in either mode.
var SkipLocal bool

// localSteps counts the statements skipped since the last park (runaway guard).
var localSteps int

func P(site int, accs ...Acc) {
	if cur == nil || running < 0 {
		return
	}
	if SkipLocal && len(accs) == 0 {
		localSteps++
		if localSteps > 50_000_000 {
			panic("verifrt: 5e7 local statements without a shared access (loop does not terminate?)")
		}
		return
	}
	localSteps = 0
	for _, a := range accs {
		if a.W {
			cur.Writes = append(cur.Writes, a)
		}
	}
	park(Pending{Kind: 1, Site: site, Accs: accs})
}

// L stands in front of a statement of an AUXILIARY file (any file of the package other than the one
// the property is anchored in) that announces no shared access: it is counted, so that a loop that
// does not terminate is noticed, and is never a scheduling point (such a statement commutes with
// every statement of every other thread).
func L(site int) {
	if cur == nil || running < 0 {
		return
	}
	localSteps++
	if localSteps > 50_000_000 {
		panic("verifrt: 5e7 local statements without a shared access (loop does not terminate?)")
	}
}

// Lock parks until the scheduler grants the mutex, then takes it.
func Lock(m *MutexState) {
	if cur == nil || running < 0 {
		return
	}
	park(Pending{Kind: 2, Mutex: m})
	if m.holder != 0 || m.readers != 0 {
		panic("verifrt: scheduler resumed a thread at a held mutex")
	}
	m.holder = running + 1
	cur.Threads[running].Held++
}

// Await parks until the mutex is free and returns WITHOUT taking it.  A harness calls it in front of
// an operation whose first action is to lock that mutex: the thread is then not "enabled" while
// another thread holds the lock, so the explorer does not branch on schedules that merely start the
// thread and let it block at once (they are equivalent to not scheduling it).  It hides accesses an
// operation makes BEFORE taking the lock, so it is only used where that is not what is explored.
func Await(m *MutexState) {
	if cur == nil || running < 0 || m == nil {
		return
	}
	park(Pending{Kind: 2, Mutex: m})
}

// TryLock takes the mutex if it is free (the caller has already passed a scheduling point).
func TryLock(m *MutexState) bool {
	if cur == nil || running < 0 {
		return true
	}
	if m.holder != 0 || m.readers != 0 {
		return false
	}
	m.holder = running + 1
	cur.Threads[running].Held++
	return true
}

func Unlock(m *MutexState) {
	if cur == nil || running < 0 {
		return
	}
	if m.holder != running+1 {
		panic(fmt.Sprintf("verifrt: unlock of a mutex not held by thread %d", running))
	}
	m.holder = 0
	cur.Threads[running].Held--
}

func RLock(m *MutexState) {
	if cur == nil || running < 0 {
		return
	}
	park(Pending{Kind: 3, Mutex: m})
	if m.holder != 0 {
		panic("verifrt: scheduler resumed a reader at a write-held mutex")
	}
	m.readers++
}

func RUnlock(m *MutexState) {
	if cur == nil || running < 0 {
		return
	}
	m.readers--
}

func (e *Exec) enabled(t *Thread) bool {
	if t.Done {
		return false
	}
	switch t.Pending.Kind {
	case 2:
		return t.Pending.Mutex.holder == 0 && t.Pending.Mutex.readers == 0
	case 3:
		return t.Pending.Mutex.holder == 0
	}
	return true
}

func conflict(a, b Acc) bool {
	if !a.W && !b.W {
		return false
	}
	if a.Obj != b.Obj || a.Path != b.Path {
		// a write to a whole field conflicts with accesses below it
		if a.Obj == b.Obj && (prefixOf(a.Path, b.Path) && a.W && !b.Al || prefixOf(b.Path, a.Path) && b.W && !a.Al) {
			return true
		}
		return false
	}
	return a.Idx == b.Idx || a.Idx < 0 || b.Idx < 0
}

func prefixOf(p, q string) bool { // p is a proper dotted prefix of q
	return len(q) > len(p) && q[:len(p)] == p && (q[len(p)] == '.' || q[len(p)] == '[')
}

// Run executes the bodies as logical threads.  choose is called at every scheduling step with the
// step number, the canonical enabled list and the index of the previously running thread in it
// (or -1); it returns an index into enabled.  maxSteps is the horizon.
func Run(bodies []func(), maxSteps int, choose func(step int, enabled []int, runningEnabled bool) int) *Exec {
	e := &Exec{yield: make(chan int)}
	cur = e
	running = -1
	defer func() { cur = nil; running = -1 }()
	for i, body := range bodies {
		t := &Thread{ID: i, resume: make(chan bool)}
		e.Threads = append(e.Threads, t)
		go func(t *Thread, body func()) {
			if !<-t.resume {
				t.Done = true
				e.yield <- t.ID
				return
			}
			defer func() {
				if r := recover(); r != nil {
					if _, ok := r.(abortSentinel); !ok {
						t.Panic = fmt.Sprint(r)
					}
				}
				t.Done = true
				e.yield <- t.ID
			}()
			body()
		}(t, body)
	}
	if EagerStart {
		// run every thread up to its first scheduling point before the first decision, so that what it
		// is about to do is known (an unstarted thread looks enabled whatever it will do first)
		for _, t := range e.Threads {
			running = t.ID
			t.resume <- true
			<-e.yield
			running = -1
		}
	}
	last := -1
	for {
		var en []int
		runningEnabled := false
		if last >= 0 && e.enabled(e.Threads[last]) {
			en = append(en, last)
			runningEnabled = true
		}
		for _, t := range e.Threads {
			if t.ID != last && e.enabled(t) {
				en = append(en, t.ID)
			}
		}
		if len(en) == 0 {
			for _, t := range e.Threads {
				if !t.Done {
					e.Deadlock = true
				}
			}
			break
		}
		// data-race oracle: conflicting pending accesses of two enabled threads
		for i := 0; i < len(en); i++ {
			for j := i + 1; j < len(en); j++ {
				ta, tb := e.Threads[en[i]], e.Threads[en[j]]
				if ta.Pending.Kind != 1 || tb.Pending.Kind != 1 {
					continue
				}
				for _, a := range ta.Pending.Accs {
					for _, b := range tb.Pending.Accs {
						if conflict(a, b) {
							e.Races = append(e.Races, Race{A: ta.ID, B: tb.ID, Path: a.Path, Idx: a.Idx, SiteA: ta.Pending.Site, SiteB: tb.Pending.Site, WriteA: a.W, WriteB: b.W})
						}
					}
				}
			}
		}
		if e.Steps >= maxSteps {
			e.Horizon = true
			break
		}
		k := choose(e.Steps, en, runningEnabled)
		if k < 0 || k >= len(en) {
			panic(fmt.Sprintf("verifrt: choice %d out of range (enabled %v) at step %d", k, en, e.Steps))
		}
		e.Points = append(e.Points, Point{Enabled: en, Running: last, RunningEnabled: runningEnabled, Chosen: k})
		e.Steps++
		last = en[k]
		running = last
		e.Threads[last].resume <- true
		select {
		case <-e.yield:
		case <-time.After(120 * time.Second):
			// the running thread is blocked on something the scheduler does not control: harness error
			panic("verifrt: a logical thread did not reach a scheduling point within 120 s (blocked on an unmodelled primitive?)")
		}
		running = -1
	}
	// abort whatever is still parked (deadlock / horizon)
	for _, t := range e.Threads {
		if !t.Done {
			running = t.ID
			t.resume <- false
			<-e.yield
			running = -1
		}
	}
	return e
}

// ---- step counting (instr -mode steps; used by C08).  Single-goroutine use only.

var Steps int64
var StepBudget int64 = 1 << 62

// StepBudgetExceeded is the panic value raised when a call exceeds its step budget.
type StepBudgetExceeded struct{}

func (StepBudgetExceeded) String() string { return "StepBudgetExceeded" }

func Step() {
	Steps++
	if Steps > StepBudget {
		panic(StepBudgetExceeded{})
	}
}
