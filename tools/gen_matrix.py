#!/usr/bin/env python3
"""Rewrites the seeded-change matrix in DESIGN.md from seeded/*/meta.json, checks.txt and NOTES.json."""
import json, glob, os, re
HERE = os.path.dirname(os.path.dirname(os.path.abspath(__file__)))
notes = json.load(open(os.path.join(HERE, 'seeded', 'NOTES.json')))
rows = []
for d in sorted(glob.glob(os.path.join(HERE, 'seeded', '*'))):
    if not os.path.isdir(d): continue
    name = os.path.basename(d)
    m = json.load(open(os.path.join(d, 'meta.json')))
    chk = open(os.path.join(d, 'checks.txt')).read().strip().splitlines() if os.path.exists(os.path.join(d, 'checks.txt')) else []
    res = []
    for l in chk:
        mm = re.match(r'(DETECTED|missed)\s+(C\d+)\s+rc=(\d+):?\s*(?:class=(\S+))?', l)
        if mm:
            res.append(f"{mm.group(2)}: {'detected, class `'+(mm.group(4) or '')+'`' if mm.group(1)=='DETECTED' else 'missed (rc='+mm.group(3)+')'}")
    summ = re.sub(r'\s+', ' ', m.get('summary', ''))[:230]
    need = re.sub(r'\s+', ' ', m.get('needs_to_manifest', ''))[:200]
    rows.append(f"| {name} | {m.get('property','')} | {summ} | {need} | {'; '.join(res)} | {notes.get(name,'')} |")
table = ("| seed | property | change | needs to manifest | result of the final checks | note |\n|---|---|---|---|---|---|\n" + "\n".join(rows))
p = os.path.join(HERE, 'DESIGN.md')
s = open(p).read()
begin, end = '<!-- SEEDED-MATRIX-BEGIN -->', '<!-- SEEDED-MATRIX-END -->'
block = begin + "\n" + table + "\n" + end
if begin in s:
    s = s[:s.index(begin)] + block + s[s.index(end) + len(end):]
else:
    s = s.replace('SEEDED-MATRIX-PLACEHOLDER', block)
open(p, 'w').write(s)
print(len(rows), "seeds")
