// Command shortx searches, offline, for the fixtures of props/c04.go (c04ShortX): non-hardened child
// indices of the BIP32 vector masters whose child public key has an X coordinate with two or more
// leading zero bytes (1 in 65536; each candidate costs a point multiplication, so the search is not
// part of the check).  Uses the library itself for speed; the check re-verifies every fixture with
// the reference implementation and panics if X is not short.  Maintenance only.
package main

import (
	"encoding/hex"
	"fmt"
	"os"
	"sync"

	"github.com/gcash/bchd/chaincfg"
	"github.com/gcash/bchutil/hdkeychain"
)

func main() {
	for _, s := range os.Args[1:] {
		seed, _ := hex.DecodeString(s)
		m, err := hdkeychain.NewMaster(seed, &chaincfg.MainNetParams)
		if err != nil {
			panic(err)
		}
		pub, _ := m.Neuter()
		var wg sync.WaitGroup
		var mu sync.Mutex
		const N = 600000
		for g := 0; g < 16; g++ {
			wg.Add(1)
			go func(g int) {
				defer wg.Done()
				for i := uint32(g); i < N; i += 16 {
					c, err := pub.Child(i)
					if err != nil {
						continue
					}
					pk, _ := c.ECPubKey()
					b := pk.SerializeCompressed()
					if b[1] == 0 && b[2] == 0 {
						mu.Lock()
						fmt.Printf("seed %s.. index %d X=%x\n", s[:8], i, b[1:])
						mu.Unlock()
					}
				}
			}(g)
		}
		wg.Wait()
	}
}
