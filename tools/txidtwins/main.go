// Command txidtwins searches, offline, for the lock-time pairs hard-wired in props/c11.go
// (c11TwinFixtures): two transactions of the c11 twin shape whose identifiers agree in their first
// six ("head6") or last six ("tail6") bytes.  Birthday search over 2^25.6 lock times, sorted array.
// The check does not trust the result: it recomputes both identifiers with the real code and
// panics if they do not agree.  Maintenance only; never part of a registered command.
package main

import (
	"bytes"
	"crypto/sha256"
	"encoding/binary"
	"fmt"
	"sort"
	"sync"

	"github.com/gcash/bchd/chaincfg/chainhash"
	"github.com/gcash/bchd/wire"
)

func mk(lt uint32) *wire.MsgTx {
	tx := wire.NewMsgTx(1)
	o := wire.OutPoint{Hash: chainhash.Hash{0x7a, 0x7b}, Index: lt}
	tx.AddTxIn(wire.NewTxIn(&o, []byte{0x51}))
	tx.AddTxOut(wire.NewTxOut(9, []byte{0x51}, wire.TokenData{}))
	tx.LockTime = lt
	return tx
}

type ent struct {
	p  uint64
	lt uint32
}

func main() {
	var buf bytes.Buffer
	mk(0xa1b2c3d4).Serialize(&buf)
	tmpl := buf.Bytes()
	pat := []byte{0xd4, 0xc3, 0xb2, 0xa1}
	p1 := bytes.Index(tmpl, pat)
	p2 := bytes.LastIndex(tmpl, pat)
	if p1 < 0 || p1 == p2 {
		panic("template")
	}
	const N = 50_000_000
	for _, kind := range []string{"head6", "tail6"} {
		es := make([]ent, N)
		var wg sync.WaitGroup
		for g := 0; g < 16; g++ {
			wg.Add(1)
			go func(g int) {
				defer wg.Done()
				b := append([]byte{}, tmpl...)
				for i := g; i < N; i += 16 {
					lt := uint32(i + 1)
					binary.LittleEndian.PutUint32(b[p1:], lt)
					binary.LittleEndian.PutUint32(b[p2:], lt)
					h := sha256.Sum256(b)
					h = sha256.Sum256(h[:])
					var p uint64
					if kind == "head6" {
						for k := 0; k < 6; k++ {
							p = p<<8 | uint64(h[k])
						}
					} else {
						for k := 26; k < 32; k++ {
							p = p<<8 | uint64(h[k])
						}
					}
					es[i] = ent{p, lt}
				}
			}(g)
		}
		wg.Wait()
		sort.Slice(es, func(i, j int) bool { return es[i].p < es[j].p })
		for i := 1; i < N; i++ {
			if es[i].p == es[i-1].p {
				a, b := mk(es[i-1].lt).TxHash(), mk(es[i].lt).TxHash()
				fmt.Printf("%s: lt %d and %d\n  %x\n  %x\n", kind, es[i-1].lt, es[i].lt, a[:], b[:])
			}
		}
	}
}
