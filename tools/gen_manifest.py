#!/usr/bin/env python3
"""Regenerates /verif/MANIFEST.json from the table below (kept valid at all times)."""
import json, os, sys
HERE = os.path.dirname(os.path.dirname(os.path.abspath(__file__)))
props = [json.loads(l) for l in open(os.path.join(HERE, 'properties.jsonl'))]
ids = [p['id'] for p in props]

# id -> (engine, technique, level text, level note, design ref)
CHECKS = {}
def chk(id, engine, technique, text, note, ref):
    CHECKS[id] = dict(engine=engine, technique=technique, text=text, note=note, ref=ref)

exec(open(os.path.join(HERE, 'tools', 'manifest_table.py')).read())

man = {
  "version": 1,
  "setup_cmd": "./run setup",
  "hooks": {
    "guard": "none in /repo: hooks are files added at build time with `go build -overlay` (hooks/*/export_verif.go, generated instrumented copies); /repo carries no instrumentation commit",
    "enable": "./run builds cmd/check with -overlay .build/overlay.json mapping hooks/root/export_verif.go -> /repo/export_verif.go, hooks/bech32/export_verif.go -> /repo/bech32/export_verif.go, hooks/gcs/export_verif.go -> /repo/gcs/export_verif.go (each only while the unexported function it exposes exists; otherwise the black-box variant is built)",
    "baseline_off_cmd": "cd /repo && GOFLAGS=-mod=mod GOPROXY=off GOSUMDB=off go test -vet=off -count=1 -timeout 25m ./...",
    "source_commits": [],
    "add_only": True
  },
  "engines": [
    {"name": "E-ENUM", "path": "mc/ props/", "serves_properties": [i for i in ids if i in CHECKS and CHECKS[i]['engine']=='E-ENUM'], "kind_free_text": "indexable small-scope exhaustive enumeration of inputs/configurations, every case executed on the real code and compared with a reference model"},
    {"name": "E-SEQ", "path": "mc/ props/", "serves_properties": [i for i in ids if i in CHECKS and CHECKS[i]['engine']=='E-SEQ'], "kind_free_text": "explicit-state breadth-first search over operation histories on real objects (successor = replay on a fresh object + one op) against a reference model"},
    {"name": "E-SCHED", "path": "sched/ instr/ hooks/verifrt", "serves_properties": [i for i in ids if i in CHECKS and CHECKS[i]['engine']=='E-SCHED'], "kind_free_text": "stateless model checking: cooperative scheduler + DFS over interleavings with iterative preemption bounding on AST-instrumented real code"},
  ],
  "checks": [],
  "not_applicable": [],
  "notes": "See DESIGN.md. Exit codes: 0 held, 1 violation (VIOLATION line), 2 harness error. known_findings.json lists fixed and recorded defects."
}
for i in ids:
    if i in CHECKS:
        c = CHECKS[i]
        man["checks"].append({
            "property_id": i,
            "quick_cmd": f"./run {i} quick",
            "thorough_cmd": f"./run {i} thorough",
            "evidence_file": f"/verif/evidence/{i}.json",
            "replay_cmd_template": f"./run {i} replay {{path}}",
            "engine": c['engine'],
            "level_claimed": {"category": "model_checking", "text": c['text'], "design_ref": c['ref']},
            "level_note": c['note'],
            "technique": c['technique'],
        })
    else:
        man["not_applicable"].append({"property_id": i, "reason": "check not built yet in this round (planned in DESIGN.md section 5); not claimed until it runs"})
json.dump(man, open(os.path.join(HERE, 'MANIFEST.json'), 'w'), indent=1)
print("checks:", len(man["checks"]), "not_applicable:", len(man["not_applicable"]))
