#!/bin/bash
# tools/mutant.sh <patch-file> <ID> [<ID>...]  — applies a patch to /repo, runs the quick checks,
# reverts.  Prints one line per check: DETECTED / missed.
P="$(readlink -f "$1")"; shift
cd /repo || exit 2
if ! git diff --quiet; then echo "/repo has uncommitted changes" >&2; exit 2; fi
git apply "$P" || { echo "patch does not apply" >&2; exit 2; }
trap 'git -C /repo checkout -- . ; git -C /repo clean -fdq' EXIT
for id in "$@"; do
  out=$(cd /verif && VERIF_ROOT_EVIDENCE_SKIP=1 ./run "$id" ${TIER:-quick} 2>&1); rc=$?
  if [ $rc -eq 1 ] && echo "$out" | grep -q "^VIOLATION property=$id"; then
    echo "DETECTED $id rc=$rc: $(echo "$out" | grep -m1 'class=')"
  else
    echo "missed   $id rc=$rc"; echo "$out" | tail -3
  fi
done
