#!/bin/bash
# tools/seed_eval.sh <worktree> <name> <ID> [<ID>...]
# 1. copies <worktree>/SEED to /verif/seeded/<name>/ ; 2. confirms that the repository's own tests
# pass in a FRESH scratch worktree with the patch applied; 3. applies the patch to /repo, runs the
# given checks (quick), reverts.  Demo confirmation is done separately (its placement differs).
set -u
export GOFLAGS=-mod=mod GOPROXY=off GOSUMDB=off GOTOOLCHAIN=local
WT="$1"; NAME="$2"; shift 2
DST=/verif/seeded/$NAME
mkdir -p "$DST"
cp -r "$WT"/SEED/. "$DST"/ || exit 2
# regenerate the patch from the worktree itself (library files only) to be sure it is what is applied there
git -C "$WT" diff -- . ':(exclude)SEED' > "$DST/patch.diff"
[ -s "$DST/patch.diff" ] || { echo "empty patch"; exit 2; }
SCR=/tmp/confirm-$NAME
git -C /repo worktree remove --force "$SCR" 2>/dev/null
git -C /repo worktree add -q --detach "$SCR" HEAD || exit 2
( cd "$SCR" && git apply "$DST/patch.diff" ) || { echo "patch does not apply to HEAD"; exit 2; }
echo "--- repository tests with the patch:"
( cd "$SCR" && go build ./... && go test -vet=off -count=1 ./... 2>&1 | grep -v "no test files" | tail -14 ) | tee "$DST/tests_with_patch.txt"
# demonstration (convention of the seed authors: SEED/ package behind the build tag seeddemo)
mkdir -p "$SCR/SEED" && cp "$DST"/*.go "$SCR/SEED/" 2>/dev/null
echo "--- demo WITH the patch (must fail):" | tee "$DST/demo.txt"
( cd "$SCR" && go test -vet=off -count=1 -tags seeddemo ./SEED/ 2>&1 | tail -4 ) | tee -a "$DST/demo.txt"
( cd "$SCR" && git apply -R "$DST/patch.diff" )
echo "--- demo WITHOUT the patch (must pass):" | tee -a "$DST/demo.txt"
( cd "$SCR" && go test -vet=off -count=1 -tags seeddemo ./SEED/ 2>&1 | tail -4 ) | tee -a "$DST/demo.txt"
git -C /repo worktree remove --force "$SCR"
echo "--- checks:"
/verif/tools/iso_check.sh "$DST/patch.diff" "$@" | tee "$DST/checks.txt"
