#!/bin/bash
# tools/reeval_all.sh [jobs] — re-runs, for every seeded change, the checks recorded in its checks.txt
# against a snapshot of /verif (so that /verif can be edited meanwhile), <jobs> seeds in parallel,
# and rewrites checks.txt.  Prints one line per (seed, check).
J=${1:-4}
SNAP=/tmp/iso-snap
rsync -a --delete --exclude .build --exclude .git --exclude replays /verif/ $SNAP/
ls -d /verif/seeded/*/ | while read d; do
  n=$(basename $d); [ -f $d/patch.diff ] || continue
  ids=$(grep -oE "^(DETECTED|missed) +C[0-9]+" $d/checks.txt 2>/dev/null | awk '{print $2}' | sort -u | tr '\n' ' ')
  [ -z "$ids" ] && ids=$(jq -r .property $d/meta.json)
  echo "$n $ids" | sed "s| *$||"
done > /tmp/reeval.list
run_one() { n=$1; shift; slot=$1; shift
  ISO_TAG=-re$slot ISO_SRC=/tmp/iso-snap /verif/tools/iso_check.sh /verif/seeded/$n/patch.diff "$@" > /tmp/reeval-$n.txt 2>&1
  cp /tmp/reeval-$n.txt /verif/seeded/$n/checks.txt
  grep -E "^DETECTED|^missed|does not apply" /tmp/reeval-$n.txt | cut -c1-120 | sed "s/^/$n: /"; rm -f /tmp/reeval-$n.txt; }
export -f run_one
cat /tmp/reeval.list | xargs -P $J -L 1 bash -c 'slot=$$; run_one "$0" $slot "$@"'
for t in /tmp/iso-verif-re* ; do rm -rf "$t"; done
git -C /repo worktree prune
