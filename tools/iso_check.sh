#!/bin/bash
# tools/iso_check.sh <patch|-> <ID> [<ID>...] — runs quick checks against an ISOLATED copy: a scratch
# worktree of /repo (/tmp/iso-repo$T) with the patch applied and a copy of /verif (/tmp/iso-verif$T)
# whose go.mod points at it.  /repo and /verif/evidence are not touched.  For development only;
# registered commands always run /verif against /repo itself.
set -u
P="${1:-}"; shift
T="${ISO_TAG:-}"; SRC="${ISO_SRC:-/verif}"   # ISO_TAG: suffix of the scratch directories (parallel runs); ISO_SRC: snapshot of /verif to use
[ "$P" != "-" ] && P="$(readlink -f "$P")"
git -C /repo worktree remove --force /tmp/iso-repo$T 2>/dev/null
git -C /repo worktree add -q --detach /tmp/iso-repo$T HEAD || exit 2
if [ "$P" != "-" ]; then ( cd /tmp/iso-repo$T && git apply "$P" ) || { echo "patch does not apply"; exit 2; }; fi
rsync -a --delete --exclude .build --exclude .git --exclude replays "$SRC"/ /tmp/iso-verif$T/
sed -i "s|=> /repo|=> /tmp/iso-repo$T|" /tmp/iso-verif$T/go.mod
for id in "$@"; do
  out=$(cd /tmp/iso-verif$T && VERIF_REPO=/tmp/iso-repo$T timeout 1800 ./run "$id" ${TIER:-quick} 2>&1); rc=$?
  if [ $rc -eq 1 ] && echo "$out" | grep -q "^VIOLATION property=$id"; then
    echo "DETECTED $id rc=$rc: $(echo "$out" | grep -m1 'class=')"
  else
    echo "missed   $id rc=$rc"; echo "$out" | tail -4
  fi
done
git -C /repo worktree remove --force /tmp/iso-repo$T
