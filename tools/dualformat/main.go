// Command dualformat searches for hashes whose BARE CashAddr string is at the same time a valid
// Base58Check string (all 42 characters in the Base58 alphabet and the last four decoded bytes equal
// to the double-SHA256 prefix of the rest): a string that is valid in two formats at once, which a
// decoder that tries the formats in the wrong order sends down the wrong branch.  Such strings have
// probability about 2^-32 among eligible ones; the witnesses found are committed as fixtures in
// props/dualformat.go and re-verified with the reference codecs on every run.
//
//	go run ./tools/dualformat -prefix bitcoincash -type 0 -upper=false
package main

import (
	"crypto/sha256"
	"encoding/binary"
	"encoding/hex"
	"flag"
	"fmt"
	"os"
	"runtime"
	"strings"
	"sync"
	"sync/atomic"
)

const charset = "qpzry9x8gf2tvdw0s3jn54khce6mua7l"
const b58 = "123456789ABCDEFGHJKLMNPQRSTUVWXYZabcdefghijkmnopqrstuvwxyz"

func polymod(v []byte) uint64 {
	c := uint64(1)
	for _, d := range v {
		c0 := byte(c >> 35)
		c = (c&0x07ffffffff)<<5 ^ uint64(d)
		if c0&1 != 0 {
			c ^= 0x98f2bc8e61
		}
		if c0&2 != 0 {
			c ^= 0x79b76d99e2
		}
		if c0&4 != 0 {
			c ^= 0xf33e5fb3c4
		}
		if c0&8 != 0 {
			c ^= 0xae2eabe2a8
		}
		if c0&16 != 0 {
			c ^= 0x1e4f43e470
		}
	}
	return c ^ 1
}

func main() {
	prefix := flag.String("prefix", "bitcoincash", "cashaddr prefix")
	typ := flag.Int("type", 0, "0 = P2PKH, 1 = P2SH")
	upper := flag.Bool("upper", false, "search the upper-case rendering")
	flag.Parse()
	var idx58 [256]int8
	for i := range idx58 {
		idx58[i] = -1
	}
	for i := 0; i < len(b58); i++ {
		idx58[b58[i]] = int8(i)
	}
	cs := charset
	if *upper {
		cs = strings.ToUpper(charset)
	}
	var ok58 [32]bool
	var dig [32]uint32
	for i := 0; i < 32; i++ {
		ok58[i] = idx58[cs[i]] >= 0
		if ok58[i] {
			dig[i] = uint32(idx58[cs[i]])
		}
	}
	pre := make([]byte, 0, 64)
	for i := 0; i < len(*prefix); i++ {
		pre = append(pre, (*prefix)[i]&0x1f)
	}
	pre = append(pre, 0)
	var found atomic.Bool
	var wg sync.WaitGroup
	nw := runtime.NumCPU()
	for wk := 0; wk < nw; wk++ {
		wg.Add(1)
		go func(wk int) {
			defer wg.Done()
			buf := make([]byte, len(pre)+42)
			copy(buf, pre)
			sym := buf[len(pre):]
			var hash [21]byte
			hash[0] = byte(*typ << 3)
			for ctr := uint64(wk); !found.Load(); ctr += uint64(nw) {
				binary.LittleEndian.PutUint64(hash[1:], ctr*0x9e3779b97f4a7c15)
				binary.LittleEndian.PutUint64(hash[9:], ctr^0x5555aaaa5555aaaa)
				binary.LittleEndian.PutUint32(hash[17:], uint32(ctr>>7)*2654435761)
				// 21 bytes -> 34 five-bit symbols
				acc, bits, n := uint32(0), 0, 0
				good := true
				for _, b := range hash {
					acc = acc<<8 | uint32(b)
					bits += 8
					for bits >= 5 {
						bits -= 5
						s := byte(acc >> uint(bits) & 31)
						if !ok58[s] {
							good = false
						}
						sym[n] = s
						n++
					}
				}
				if bits > 0 {
					s := byte(acc << uint(5-bits) & 31)
					if !ok58[s] {
						good = false
					}
					sym[n] = s
					n++
				}
				if !good {
					continue
				}
				for i := 34; i < 42; i++ {
					sym[i] = 0
				}
				pm := polymod(buf)
				for i := 0; i < 8; i++ {
					s := byte(pm >> uint(5*(7-i)) & 31)
					if !ok58[s] {
						good = false
					}
					sym[34+i] = s
				}
				if !good {
					continue
				}
				// base58 -> bytes (10 limbs of 32 bits, big-endian significance in limb[0])
				var limb [10]uint32
				for _, s := range sym {
					carry := uint64(dig[s])
					for i := 9; i >= 0; i-- {
						t := uint64(limb[i])*58 + carry
						limb[i] = uint32(t)
						carry = t >> 32
					}
				}
				var raw [40]byte
				for i := 0; i < 10; i++ {
					binary.BigEndian.PutUint32(raw[4*i:], limb[i])
				}
				// strip leading zero bytes, then account for leading '1' characters (zero digits)
				k := 0
				for k < 40 && raw[k] == 0 {
					k++
				}
				ones := 0
				for ones < 42 && dig[sym[ones]] == 0 && idx58[cs[sym[ones]]] == 0 {
					ones++
				}
				dec := append(make([]byte, ones), raw[k:]...)
				if len(dec) < 5 {
					continue
				}
				h1 := sha256.Sum256(dec[:len(dec)-4])
				h2 := sha256.Sum256(h1[:])
				if h2[0] == dec[len(dec)-4] && h2[1] == dec[len(dec)-3] && h2[2] == dec[len(dec)-2] && h2[3] == dec[len(dec)-1] {
					if found.CompareAndSwap(false, true) {
						str := make([]byte, 42)
						for i, s := range sym {
							str[i] = cs[s]
						}
						fmt.Printf("prefix=%s type=%d upper=%v hash=%s string=%s base58check_version=%#02x payload_len=%d\n", *prefix, *typ, *upper, hex.EncodeToString(hash[1:]), str, dec[0], len(dec)-5)
					}
					return
				}
			}
		}(wk)
	}
	wg.Wait()
	if !found.Load() {
		os.Exit(1)
	}
}
