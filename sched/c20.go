package sched

import (
	"encoding/json"
	"fmt"
	"os"

	"verif/mc"
)

// c20Case is a replayable violation: the configuration and the exact choice sequence.
type c20Case struct {
	Kind    string       `json:"system"` // bloom | gcs
	Bloom   *BloomConfig `json:"bloom,omitempty"`
	GCS     *GCSConfig   `json:"gcs,omitempty"`
	Choices []int        `json:"schedule"`
	Bound   int          `json:"preemption_bound"`
}

func runCase(cas c20Case, choose func(int, []int, bool) int) *Outcome {
	if cas.Kind == "gcs" {
		return RunGCS(*cas.GCS, choose)
	}
	return RunBloom(*cas.Bloom, choose)
}

func replayChoices(cas c20Case) (*Outcome, string) {
	div := ""
	o := runCase(cas, func(step int, enabled []int, _ bool) int {
		if step < len(cas.Choices) {
			if cas.Choices[step] >= len(enabled) {
				div = fmt.Sprintf("divergence at step %d", step)
				return 0
			}
			return cas.Choices[step]
		}
		return 0
	})
	return o, div
}

// Replay re-executes a recorded schedule without the explorer.
func Replay(c *mc.Ctx, kind string, raw json.RawMessage) {
	var cas c20Case
	if err := json.Unmarshal(raw, &cas); err != nil {
		panic(err)
	}
	o, div := replayChoices(cas)
	if div != "" {
		fmt.Println("replay:", div)
	}
	if o.Problem != "" {
		c.Violate(o.Class, "schedule", cas, o.Problem)
	}
}

func programs(alpha []string, maxLen int) [][]string {
	var out [][]string
	var rec func(cur []string)
	rec = func(cur []string) {
		if len(cur) > 0 {
			out = append(out, append([]string{}, cur...))
		}
		if len(cur) == maxLen {
			return
		}
		for _, a := range alpha {
			rec(append(cur, a))
		}
	}
	rec(nil)
	return out
}

func exploreCase(c *mc.Ctx, w *mc.W, cas c20Case, maxExecs int) {
	distinct := map[string]bool{}
	reported := map[string]bool{}
	ex := &Explorer{Bound: cas.Bound, MaxExecs: maxExecs}
	ex.StopOnProblem = cas.Kind == "gcs" && cas.GCS != nil && cas.GCS.Big || cas.Kind == "bloom" && cas.Bloom != nil && cas.Bloom.Geom == "big"
	ex.Run = func(choose func(int, []int, bool) int) *Outcome { return runCase(cas, choose) }
	ex.OnOutcome = func(o *Outcome) {
		w.Eval()
		w.Trace()
		distinct[o.Summary] = true
		if o.Problem == "" || reported[o.Class] {
			return
		}
		// a failure is believed only if the recorded schedule fails again, identically, twice
		v := cas
		v.Choices = o.Choices
		o1, d1 := replayChoices(v)
		o2, d2 := replayChoices(v)
		if d1 != "" || d2 != "" || o1.Class != o.Class || o2.Class != o.Class || o1.Summary != o.Summary || o2.Summary != o.Summary {
			c.NotExhaustive("a failing schedule did not replay identically (harness nondeterminism): " + o.Class)
			c.Note("nondeterministic_replay", fmt.Sprintf("%v", v))
			return
		}
		reported[o.Class] = true
		c.Violate(o.Class, "schedule", v, o.Problem)
	}
	ex.Explore()
	w.StateN(ex.Points)
	w.TransN(ex.Points)
	if ex.Divergence != "" {
		c.NotExhaustive("replay divergence: " + ex.Divergence)
		c.Note("divergence", fmt.Sprintf("%v: %s", cas, ex.Divergence))
	}
	if ex.Capped {
		c.NotExhaustive(fmt.Sprintf("execution cap %d reached for a configuration", maxExecs))
	}
	if os.Getenv("VERIF_DEBUG_C20") != "" {
		fmt.Fprintf(os.Stderr, "debug: %v %v execs=%d points=%d contended=%d capped=%v\n", cas.Bloom, cas.GCS, ex.Execs, ex.Points, ex.Contended, ex.Capped)
	}
	w.OutcomeN("executions", int64(ex.Execs))
	w.OutcomeN("scheduling points with >= 2 enabled threads", ex.Contended)
	w.OutcomeN(fmt.Sprintf("configurations with %d distinct observable outcomes", min(len(distinct), 5)), 1)
	if len(distinct) > 1 {
		w.Nontrivial(mc.HashString(fmt.Sprint(cas.Bloom), fmt.Sprint(cas.GCS)))
	}
}

// RunC20 enumerates the configurations (every one explored to completion of the preemption bound).
func RunC20(c *mc.Ctx) {
	bound2 := mc.Pick(c, 2, 3)
	c.Rule(fmt.Sprintf("stateless model checking on the instrumented real bloom/filter.go and gcs/gcs.go: every unordered pair of thread programs of 1-2 operations over the 12 documented-safe filter operations (2 geometries; all schedules with <= %d preemptions), every triple of 1-operation programs and of one 2-operation program with two 1-operation programs over a write-heavy 6-op sub-alphabet (3 threads, <= %d preemptions), GCS: pairs (triples thorough) of query programs on one shared filter; oracles on every complete execution: linearizability against the sequential BIP37 model incl. final filter bytes, co-enabled conflicting accesses (data race), panic, deadlock, termination; non-trivial = configurations with more than one distinct observable outcome", bound2, mc.Pick(c, 2, 2)))
	c.Assume("sequential consistency (Go's DRF-SC guarantee; race freedom is one of the checked oracles); accesses through local aliases invisible to the syntactic instrumenter are left to the auxiliary free-running -race pass")
	c.Assume("statement-granular interleaving: a statement's shared accesses are announced together before it executes")
	c.Note("preemption_bound_pairs", bound2)

	onlyBig := os.Getenv("VERIF_DEBUG_C20") == "big"
	// ---- bloom: all unordered pairs of programs
	progs := programs(BloomOps, 2)
	if onlyBig {
		progs = nil
	}
	type pair struct{ a, b int }
	var pairs []pair
	for i := range progs {
		for j := i; j < len(progs); j++ {
			pairs = append(pairs, pair{i, j})
		}
	}
	geoms := []string{"1x2", "2x1"}
	c.Space("bloom: unordered pairs of 1-2 op programs x 2 geometries", int64(len(pairs)*len(geoms)))
	c.ParFor(int64(len(pairs)*len(geoms)), func(w *mc.W, i int64) {
		p := pairs[i/int64(len(geoms))]
		cfg := &BloomConfig{Geom: geoms[i%int64(len(geoms))], Progs: [][]string{progs[p.a], progs[p.b]}}
		exploreCase(c, w, c20Case{Kind: "bloom", Bloom: cfg, Bound: bound2}, 200000)
	})
	// ---- bloom: triples over the write-heavy sub-alphabet
	sub := []string{"Add:x", "Add:y", "Matches:x", "MatchTx", "Reload", "Unload"}
	sp := programs(sub, 1)
	type triple struct{ a, b, c int }
	var triples []triple
	for i := range sp {
		for j := i; j < len(sp); j++ {
			for k := j; k < len(sp); k++ {
				triples = append(triples, triple{i, j, k})
			}
		}
	}
	// one thread with a 2-op program next to two 1-op threads: 4 chosen programs on quick, all 36 on thorough
	two := [][]string{{"Add:x", "Matches:x"}, {"Unload", "Add:x"}, {"Reload", "Matches:y"}, {"MatchTx", "Matches:x"}}
	if c.Thorough() {
		two = nil
		for _, a := range sub {
			for _, b := range sub {
				two = append(two, []string{a, b})
			}
		}
	}
	n1 := len(sp)
	for _, t := range two {
		sp = append(sp, t)
		for j := 0; j < n1; j++ {
			for k := j; k < n1; k++ {
				triples = append(triples, triple{len(sp) - 1, j, k})
			}
		}
	}
	c.Space("bloom: unordered triples of programs over the write-heavy sub-alphabet", int64(len(triples)))
	c.ParFor(int64(len(triples)), func(w *mc.W, i int64) {
		t := triples[i]
		cfg := &BloomConfig{Geom: "1x2", Progs: [][]string{sp[t.a], sp[t.b], sp[t.c]}}
		exploreCase(c, w, c20Case{Kind: "bloom", Bloom: cfg, Bound: 2}, 200000)
	})
	c.Sample("schedule", c20Case{Kind: "bloom", Bloom: &BloomConfig{Geom: "1x2", Progs: [][]string{{"Add:x", "Matches:x"}, {"Unload"}}}, Choices: []int{0, 1, 0}, Bound: bound2})

	// ---- bloom: a transaction with more than a thousand outputs (MatchTxAndUpdate must stay one atomic
	// step however long it runs) against every other operation, on a 4096-byte filter that the
	// insertions do not saturate
	{
		var bigs []*BloomConfig
		for _, other := range [][]string{{"Reload"}, {"Unload"}, {"Add:y"}, {"AddOutPoint"}, {"Matches:x"}, {"MatchesOutPoint"}, {"Msg"}, {"IsLoaded"}, {"Reload", "Matches:x"}, {"Unload", "Reload"}} {
			for _, mine := range [][]string{{"Add:x", "MatchTxBig"}, {"MatchTxBig"}} {
				bigs = append(bigs, &BloomConfig{Geom: "big", Progs: [][]string{mine, other}})
			}
		}
		c.Space("bloom: a 1030-output transaction against every other operation (4096-byte filter)", int64(len(bigs)))
		c.ParFor(int64(len(bigs)), func(w *mc.W, i int64) {
			exploreCase(c, w, c20Case{Kind: "bloom", Bloom: bigs[i], Bound: 2}, 300) // long executions: the cap bounds the damage when a changed tree makes every step a branch point (never reached on the unchanged tree: <= 26 executions)
		})
	}

	// ---- bloom: a LONG item (520 bytes) inserted / queried against every 1-2 op program over a 7-op
	// sub-alphabet, both geometries
	{
		pl := [][]string{{"Add:L"}, {"Matches:L"}, {"Add:L", "Matches:L"}, {"Reload", "Add:L"}, {"Add:L", "Add:x"}, {"Unload", "Add:L"}}
		po := programs([]string{"Reload", "Unload", "Add:x", "Matches:x", "AddOutPoint", "MatchTx", "Msg", "Add:L", "Matches:L"}, 2)
		var cl []*BloomConfig
		for _, g := range geoms {
			for _, a := range pl {
				for _, b := range po {
					if c.Quick() && len(a) == 2 && len(b) == 2 {
						continue
					}
					cl = append(cl, &BloomConfig{Geom: g, Progs: [][]string{a, b}})
				}
			}
		}
		if onlyBig {
			cl = nil
		}
		c.Space("bloom: programs with a 520-byte item against programs over a 9-op sub-alphabet x 2 geometries", int64(len(cl)))
		c.ParFor(int64(len(cl)), func(w *mc.W, i int64) {
			exploreCase(c, w, c20Case{Kind: "bloom", Bloom: cl[i], Bound: bound2}, 200000)
		})
	}

	// ---- bloom: FIFTY hash functions, a 520-byte item (length x functions = 26000 hash steps per call)
	// and a reload message of the same size with another tweak: pairs of 1-op programs over a 7-op
	// sub-alphabet and the 2-op programs that end in a query of the long item
	{
		s50 := []string{"Add:L", "Matches:L", "Reload", "Unload", "Add:x", "Matches:x", "Msg"}
		p50 := programs(s50, 1)
		p50 = append(p50, []string{"Add:L", "Matches:L"}, []string{"Reload", "Matches:L"}, []string{"Reload", "Add:L"})
		var c50 []*BloomConfig
		for i := range p50 {
			for j := i; j < len(p50); j++ {
				if len(p50[i]) == 2 && len(p50[j]) == 2 {
					continue
				}
				c50 = append(c50, &BloomConfig{Geom: "4x50", Progs: [][]string{p50[i], p50[j]}})
			}
		}
		if onlyBig {
			c50 = nil
		}
		c.Space("bloom: 50 hash functions, long item, same-size reload: pairs of programs over a 7-op sub-alphabet", int64(len(c50)))
		c.ParFor(int64(len(c50)), func(w *mc.W, i int64) {
			exploreCase(c, w, c20Case{Kind: "bloom", Bloom: c50[i], Bound: 2}, 200000)
		})
	}

	// ---- bloom: update mode P2PubkeyOnly and a transaction whose only output is bare multisig (the
	// other script class that mode inserts outpoints for): pairs of 1-2 op programs over a 7-op alphabet
	{
		sp := []string{"Add:x", "MatchTxMS", "MatchTx", "MatchesOutPointMS", "Matches:x", "Reload", "IsLoaded"}
		pp := programs(sp, 2)
		var cp []*BloomConfig
		for i := range pp {
			for j := i; j < len(pp); j++ {
				if c.Quick() && len(pp[i]) == 2 && len(pp[j]) == 2 {
					continue
				}
				cp = append(cp, &BloomConfig{Geom: "8x2p", Progs: [][]string{pp[i], pp[j]}})
			}
		}
		if onlyBig {
			cp = nil
		}
		c.Space("bloom: update mode P2PubkeyOnly with pay-to-pubkey and bare-multisig transactions: pairs of programs over a 7-op alphabet", int64(len(cp)))
		c.ParFor(int64(len(cp)), func(w *mc.W, i int64) {
			exploreCase(c, w, c20Case{Kind: "bloom", Bloom: cp[i], Bound: bound2}, 200000)
		})
	}

	// ---- bloom: a filter with EIGHT hash functions and 20..40-byte items (every item of the alphabet
	// except "y"): all unordered pairs of 1-2 op programs over a 6-op sub-alphabet
	{
		sub8 := []string{"Add:x", "AddHash", "AddOutPoint", "Matches:x", "MatchesOutPoint", "Reload"}
		p8 := programs(sub8, 2)
		var c8 []*BloomConfig
		for i := range p8 {
			for j := i; j < len(p8); j++ {
				if c.Quick() && len(p8[i]) == 2 && len(p8[j]) == 2 {
					continue // quick: a 2-op program against every 1-op program; thorough: also 2 against 2
				}
				c8 = append(c8, &BloomConfig{Geom: "4x8", Progs: [][]string{p8[i], p8[j]}})
			}
		}
		if onlyBig {
			c8 = nil
		}
		c.Space("bloom: 8 hash functions: unordered pairs of programs over a 6-op sub-alphabet", int64(len(c8)))
		c.ParFor(int64(len(c8)), func(w *mc.W, i int64) {
			exploreCase(c, w, c20Case{Kind: "bloom", Bloom: c8[i], Bound: 2}, 200000)
		})
	}

	// ---- bloom: two filters, each used by its own goroutine.  The statement's data-race freedom is
	// about executions, and the per-filter mutex protects only what belongs to one filter: state the
	// package shares between ALL filters (a scratch buffer, a pool, a table filled lazily) is reached
	// under two different locks.  Every unordered pair of 1-op programs over the full alphabet, and
	// (thorough: every, quick: chosen) pairs of 2-op programs.
	{
		p1 := programs(BloomOps, 1)
		var tf []*BloomConfig
		for i := range p1 {
			for j := range p1 { // ordered: the two filters have different items
				tf = append(tf, &BloomConfig{Geom: "8x2", Filters: 2, Progs: [][]string{p1[i], p1[j]}})
			}
		}
		wsub := []string{"Add:y", "AddHash", "AddOutPoint", "MatchesOutPoint", "MatchTx", "Reload"}
		p2 := programs(wsub, 2)[len(wsub):]
		if !c.Thorough() {
			p2 = [][]string{{"AddOutPoint", "MatchesOutPoint"}, {"Add:y", "Matches:y"}, {"AddHash", "MatchTx"}, {"Reload", "AddOutPoint"}, {"MatchTx", "MatchesOutPoint"}}
		}
		for i := range p2 {
			for j := range p2 {
				tf = append(tf, &BloomConfig{Geom: "8x2", Filters: 2, Progs: [][]string{p2[i], p2[j]}})
			}
		}
		if onlyBig {
			tf = nil
		}
		c.Space("bloom: two filters, one goroutine each (package-level state shared between filters)", int64(len(tf)))
		c.ParFor(int64(len(tf)), func(w *mc.W, i int64) {
			exploreCase(c, w, c20Case{Kind: "bloom", Bloom: tf[i], Bound: mc.Pick(c, 1, 2)}, 200000)
		})
	}

	// ---- gcs
	gp := programs(GCSOps, 1)
	var gpairs []pair
	for i := range gp {
		for j := i; j < len(gp); j++ {
			gpairs = append(gpairs, pair{i, j})
		}
	}
	c.Space("gcs: unordered pairs of single-query programs", int64(len(gpairs)))
	c.ParFor(int64(len(gpairs)), func(w *mc.W, i int64) {
		p := gpairs[i]
		cfg := &GCSConfig{Progs: [][]string{gp[p.a], gp[p.b]}}
		exploreCase(c, w, c20Case{Kind: "gcs", GCS: cfg, Bound: mc.Pick(c, 1, 2)}, 300000)
	})
	// two filters, one goroutine each, with and without an earlier query on a malformed filter
	{
		t1 := programs(GCSTwoOps, 1)
		var tw []*GCSConfig
		for _, poison := range []bool{false, true} {
			for i := range t1 {
				for j := range t1 {
					tw = append(tw, &GCSConfig{Two: true, Poison: poison, Progs: [][]string{t1[i], t1[j]}})
				}
			}
			tw = append(tw, &GCSConfig{Two: true, Poison: poison, Progs: [][]string{{"Match:own", "HashMatchAny:own"}, {"ZipMatchAny:own", "Match:own"}}})
		}
		if onlyBig {
			tw = nil
		}
		c.Space("gcs: two filters of equal size, one goroutine each, with and without an earlier query on a malformed filter", int64(len(tw)))
		c.ParFor(int64(len(tw)), func(w *mc.W, i int64) {
			exploreCase(c, w, c20Case{Kind: "gcs", GCS: tw[i], Bound: 1}, 300000)
		})
	}
	if c.Thorough() {
		g3 := [][]string{{"Match:a"}, {"HashMatchAny"}, {"ZipMatchAny"}, {"NBytes"}}
		var gt []triple
		for i := range g3 {
			for j := i; j < len(g3); j++ {
				for k := j; k < len(g3); k++ {
					gt = append(gt, triple{i, j, k})
				}
			}
		}
		c.Space("gcs: triples of query programs", int64(len(gt)))
		c.ParFor(int64(len(gt)), func(w *mc.W, i int64) {
			t := gt[i]
			cfg := &GCSConfig{Progs: [][]string{g3[t.a], g3[t.b], g3[t.c]}}
			exploreCase(c, w, c20Case{Kind: "gcs", GCS: cfg, Bound: 1}, 300000)
		})
	}
	// a filter of 1100 elements (code paths that depend on the element count: lazily built or cached
	// decodings, strategy switches), explored with local statements not being scheduling points:
	// every unordered pair of single-query programs, and every ordered pair "two queries in one thread
	// against one query in another"
	{
		bp := programs(GCSBigOps, 1)
		type bcase struct{ a, b []string }
		var bcs []bcase
		for i := range bp {
			for j := i; j < len(bp); j++ {
				bcs = append(bcs, bcase{bp[i], bp[j]})
			}
		}
		for _, x := range []string{"HashMatchAny:m", "MatchAny:long", "Match:m0"} {
			for _, y := range []string{"HashMatchAny:m", "HashMatchAny:miss", "MatchAny:long", "ZipMatchAny:m"} {
				for _, z := range []string{"HashMatchAny:m", "MatchAny:long", "Match:mLast"} {
					bcs = append(bcs, bcase{[]string{x, y}, []string{z}})
				}
			}
		}
		c.Space("gcs, 1100-element filter: pairs of query programs (local statements are not scheduling points)", int64(len(bcs)))
		c.ParFor(int64(len(bcs)), func(w *mc.W, i int64) {
			cfg := &GCSConfig{Progs: [][]string{bcs[i].a, bcs[i].b}, Big: true}
			exploreCase(c, w, c20Case{Kind: "gcs", GCS: cfg, Bound: mc.Pick(c, 2, 3)}, 5000)
		})
	}
	c.Sample("schedule", c20Case{Kind: "gcs", GCS: &GCSConfig{Progs: [][]string{{"Match:a"}, {"HashMatchAny"}}}, Choices: []int{0, 0, 1}, Bound: 1})
}
