package sched

import (
	"bytes"
	"fmt"
	"reflect"
	"sort"
	"strings"
	"unsafe"

	"github.com/gcash/bchd/chaincfg/chainhash"
	"github.com/gcash/bchd/wire"
	"github.com/gcash/bchutil"
	"github.com/gcash/bchutil/bloom"
	"github.com/gcash/bchutil/verifrt"

	"verif/ref"
)

// BloomConfig is one closed system: a shared filter and the programs of the logical threads.
type BloomConfig struct {
	Geom  string     `json:"geometry"` // "1x2": 1 byte, 2 hash functions; "2x1": 2 bytes, 1 function
	Progs [][]string `json:"programs"`
	// Filters > 1: thread i works on its OWN filter (number i mod Filters) with its own items.  Nothing
	// is shared between the threads except what the package shares between all filters (package-level
	// scratch buffers, pools, tables): every thread's results and every filter's final bytes must be
	// those of running its program alone.
	Filters int `json:"filters,omitempty"`
}

var BloomOps = []string{"Add:x", "Add:y", "AddHash", "AddOutPoint", "Matches:x", "Matches:y", "MatchesOutPoint", "MatchTx", "Reload", "Unload", "IsLoaded", "Msg"}

var (
	itemX = append([]byte{0x02}, bytes.Repeat([]byte{0x5a}, 32)...) // 33 bytes: also a P2PK key push
	itemY = []byte("y-item")
	// itemL: 520 non-uniform bytes (the largest script element; longer than any key, hash or outpoint: a path that treats long
	// items specially - hashing them outside the critical section, say - is taken by this item only)
	itemL = func() []byte {
		b := make([]byte, 520)
		for i := range b {
			b[i] = byte(i*131+i>>3) ^ 0x5c
		}
		return b
	}()
	hashH = chainhash.Hash{0x11, 0x22, 0x33}
	outO  = wire.OutPoint{Hash: chainhash.Hash{0x44, 0x55}, Index: 7}
	// the items of the second filter of a two-filter configuration (same lengths, other contents)
	itemY2 = []byte("Y-ITEM")
	hashH2 = chainhash.Hash{0xee, 0xdd, 0xcc, 0x01}
	outO2  = wire.OutPoint{Hash: chainhash.Hash{0xbb, 0xaa, 0x07}, Index: 0x01020304}
)

// items of filter number v
func itemsOf(v int) (y []byte, h chainhash.Hash, o wire.OutPoint) {
	if v%2 == 1 {
		return itemY2, hashH2, outO2
	}
	return itemY, hashH, outO
}

// geomFlags: the update mode of the geometry's messages ("…p": pay-to-pubkey / bare multisig only)
func geomFlags(g string) wire.BloomUpdateType {
	if strings.HasSuffix(g, "p") {
		return wire.BloomUpdateP2PubkeyOnly
	}
	return wire.BloomUpdateAll
}

func geom(g string) (int, uint32) {
	switch g {
	case "8x2p": // 8 bytes, two functions, update mode P2PubkeyOnly
		return 8, 2
	case "2x1":
		return 2, 1
	case "big": // 4096 bytes, one hash function: a thousand insertions do not saturate it
		return 4096, 1
	case "8x2": // 8 bytes, two functions: the items of one filter are (almost surely) absent from the other
		return 8, 2
	case "4x8": // 4 bytes, EIGHT functions (the usual counts are 5..20: code may treat "many functions" specially)
		return 4, 8
	case "4x50": // 4 bytes, FIFTY functions (the wire maximum): item length x function count is large
		return 4, 50
	}
	return 1, 2
}

// reloadBytes is the bit array of the message installed by Reload.  Geometry "1x2": two bytes, every
// bit set (larger than the first message; every query then tells "m1 loaded" from "m0 loaded" and
// from "nothing loaded").  Geometry "2x1": ONE byte, empty (smaller than the first message and
// sparse: anything remembered from the first message - a bit count, bit offsets - either indexes
// past the new array or sets the wrong bits, which the final-state comparison sees).
func reloadBytes(g string) []byte {
	switch g {
	case "2x1":
		return []byte{0x00}
	case "big":
		return make([]byte, 4096)
	case "8x2", "8x2p":
		return make([]byte, 5)
	case "4x8":
		return make([]byte, 3)
	case "4x50": // the reload message has the SAME size (and another tweak): a check "has the size changed?" does not notice it
		return make([]byte, 4)
	}
	return []byte{0xff, 0xff}
}

func testTx() *wire.MsgTx {
	tx := wire.NewMsgTx(1)
	ext := wire.OutPoint{Hash: chainhash.Hash{0x99}, Index: 1}
	tx.AddTxIn(wire.NewTxIn(&ext, []byte{0x51}))
	script := append(append([]byte{byte(len(itemX))}, itemX...), 0xac) // <x> OP_CHECKSIG
	tx.AddTxOut(wire.NewTxOut(5, script, wire.TokenData{}))
	return tx
}

// testTxMS: one bare 1-of-1 multisig output paying the watched key (and nothing else that matches):
// under P2PubkeyOnly its outpoint is inserted exactly as for a pay-to-pubkey output
func testTxMS() *wire.MsgTx {
	tx := wire.NewMsgTx(1)
	ext := wire.OutPoint{Hash: chainhash.Hash{0x97}, Index: 3}
	tx.AddTxIn(wire.NewTxIn(&ext, []byte{0x51}))
	script := append(append([]byte{0x51, byte(len(itemX))}, itemX...), 0x51, 0xae) // OP_1 <x> OP_1 OP_CHECKMULTISIG
	tx.AddTxOut(wire.NewTxOut(6, script, wire.TokenData{}))
	return tx
}

var testTxMSMsg = testTxMS()
var testTxMSID = testTxMSMsg.TxHash()

var testTxMsg = testTx()
var testTxID = testTxMsg.TxHash()

// testTxBig: 1030 outputs paying the watched key (more than a thousand: an implementation that gives
// up the lock "between batches" of a long transaction does so here)
var testTxBigMsg = func() *wire.MsgTx {
	tx := wire.NewMsgTx(1)
	ext := wire.OutPoint{Hash: chainhash.Hash{0x98}, Index: 2}
	tx.AddTxIn(wire.NewTxIn(&ext, []byte{0x51}))
	script := append(append([]byte{byte(len(itemX))}, itemX...), 0xac)
	for i := 0; i < 1030; i++ {
		tx.AddTxOut(wire.NewTxOut(int64(i), script, wire.TokenData{}))
	}
	return tx
}()
var testTxBigID = testTxBigMsg.TxHash()

// filterMutex finds the scheduler-visible state of the filter's mutex (field mtx, a vsync.Mutex or
// RWMutex in the instrumented build) by reflection; nil if there is no such field.
func filterMutex(f *bloom.Filter) *verifrt.MutexState {
	v := reflect.ValueOf(f).Elem().FieldByName("mtx")
	if !v.IsValid() || !v.CanAddr() {
		return nil
	}
	p := reflect.NewAt(v.Type(), unsafe.Pointer(v.UnsafeAddr())).Interface()
	if s, ok := p.(interface{ State() *verifrt.MutexState }); ok {
		return s.State()
	}
	return nil
}

type histOp struct {
	Thread    int
	Op        string
	Call, Ret int
	Result    string
}

// model is the sequential reference: which message is loaded and the bit arrays of both messages.
// The message installed by Reload depends on the geometry, see reloadBytes.
type model struct {
	loaded int // 0 none, 1 m0, 2 m1
	b      [3]*ref.Bloom
	v      int // which filter of a multi-filter configuration (selects the items)
}

func newModel(g string) *model {
	n, k := geom(g)
	m := &model{loaded: 1}
	m.b[1] = ref.NewBloom(make([]byte, n), k, 0x1234, byte(geomFlags(g)))
	m.b[2] = ref.NewBloom(reloadBytes(g), k, 0x9999, byte(geomFlags(g)))
	return m
}

func (m *model) clone() *model {
	c := &model{loaded: m.loaded, v: m.v}
	c.b[1], c.b[2] = m.b[1].Clone(), m.b[2].Clone()
	return c
}

func (m *model) apply(op string) string {
	cur := m.b[m.loaded]
	itemY, hashH, outO := itemsOf(m.v)
	switch op {
	case "Add:x":
		if cur != nil {
			cur.Insert(itemX)
		}
	case "Add:y":
		if cur != nil {
			cur.Insert(itemY)
		}
	case "AddHash":
		if cur != nil {
			cur.Insert(hashH[:])
		}
	case "AddOutPoint":
		if cur != nil {
			cur.Insert(ref.OutPointBytes(outO.Hash, outO.Index))
		}
	case "Add:L":
		if cur != nil {
			cur.Insert(itemL)
		}
	case "Matches:L":
		return fmt.Sprint(cur != nil && cur.Contains(itemL))
	case "Matches:x":
		return fmt.Sprint(cur != nil && cur.Contains(itemX))
	case "Matches:y":
		return fmt.Sprint(cur != nil && cur.Contains(itemY))
	case "MatchesOutPoint":
		return fmt.Sprint(cur != nil && cur.Contains(ref.OutPointBytes(outO.Hash, outO.Index)))
	case "MatchTx":
		if cur == nil {
			return "false"
		}
		rt := &ref.RefTx{TxID: testTxID}
		for _, o := range testTxMsg.TxOut {
			rt.Outputs = append(rt.Outputs, o.PkScript)
		}
		for _, in := range testTxMsg.TxIn {
			rt.Inputs = append(rt.Inputs, ref.RefTxIn{PrevHash: in.PreviousOutPoint.Hash, PrevIndex: in.PreviousOutPoint.Index, SigScript: in.SignatureScript})
		}
		return fmt.Sprint(cur.MatchTx(rt, true, true))
	case "MatchTxMS":
		if cur == nil {
			return "false"
		}
		rt := &ref.RefTx{TxID: testTxMSID}
		for _, o := range testTxMSMsg.TxOut {
			rt.Outputs = append(rt.Outputs, o.PkScript)
		}
		for _, in := range testTxMSMsg.TxIn {
			rt.Inputs = append(rt.Inputs, ref.RefTxIn{PrevHash: in.PreviousOutPoint.Hash, PrevIndex: in.PreviousOutPoint.Index, SigScript: in.SignatureScript})
		}
		return fmt.Sprint(cur.MatchTx(rt, true, true))
	case "MatchesOutPointMS":
		return fmt.Sprint(cur != nil && cur.Contains(ref.OutPointBytes(testTxMSID, 0)))
	case "MatchTxBig":
		if cur == nil {
			return "false"
		}
		rt := &ref.RefTx{TxID: testTxBigID}
		for _, o := range testTxBigMsg.TxOut {
			rt.Outputs = append(rt.Outputs, o.PkScript)
		}
		for _, in := range testTxBigMsg.TxIn {
			rt.Inputs = append(rt.Inputs, ref.RefTxIn{PrevHash: in.PreviousOutPoint.Hash, PrevIndex: in.PreviousOutPoint.Index, SigScript: in.SignatureScript})
		}
		return fmt.Sprint(cur.MatchTx(rt, true, true))
	case "Reload":
		m.loaded = 2
	case "Unload":
		m.loaded = 0
	case "IsLoaded":
		return fmt.Sprint(m.loaded != 0)
	case "Msg":
		return []string{"nil", "m0", "m1"}[m.loaded]
	default:
		panic("unknown op " + op)
	}
	return ""
}

func (m *model) key() string {
	return fmt.Sprintf("%d/%x/%x", m.loaded, m.b[1].Bytes(), m.b[2].Bytes())
}

// linearizable searches for a total order of the history that respects real-time precedence
// (a.Ret < b.Call => a before b), reproduces every result on the sequential model and ends in the
// observed final state.
func linearizable(g string, v int, hist []histOp, final string) (bool, []int) {
	n := len(hist)
	used := make([]bool, n)
	order := make([]int, 0, n)
	var rec func(m *model) bool
	rec = func(m *model) bool {
		if len(order) == n {
			return m.key() == final
		}
		for i := 0; i < n; i++ {
			if used[i] {
				continue
			}
			// i may come next only if no unused op returned before i was called
			ok := true
			for j := 0; j < n; j++ {
				if j != i && !used[j] && hist[j].Ret < hist[i].Call {
					ok = false
					break
				}
			}
			if !ok {
				continue
			}
			mm := m.clone()
			if mm.apply(hist[i].Op) != hist[i].Result {
				continue
			}
			used[i] = true
			order = append(order, i)
			if rec(mm) {
				return true
			}
			order = order[:len(order)-1]
			used[i] = false
		}
		return false
	}
	m0 := newModel(g)
	m0.v = v
	okk := rec(m0)
	return okk, order
}

// RunBloom executes one schedule of a configuration on fresh real objects and applies the oracles.
func RunBloom(cfg BloomConfig, choose func(step int, enabled []int, runningEnabled bool) int) *Outcome {
	n, k := geom(cfg.Geom)
	nf := max(1, cfg.Filters)
	m0s, m1s, fs := make([]*wire.MsgFilterLoad, nf), make([]*wire.MsgFilterLoad, nf), make([]*bloom.Filter, nf)
	for i := range fs {
		m0s[i] = wire.NewMsgFilterLoad(make([]byte, n), k, 0x1234, geomFlags(cfg.Geom))
		m1s[i] = wire.NewMsgFilterLoad(reloadBytes(cfg.Geom), k, 0x9999, geomFlags(cfg.Geom))
		fs[i] = bloom.LoadFilter(m0s[i])
	}
	hists := make([][]histOp, len(cfg.Progs))
	bodies := make([]func(), len(cfg.Progs))
	for ti, prog := range cfg.Progs {
		ti, prog := ti, prog
		tx := bchutil.NewTx(testTxMsg) // per-thread wrapper: the hash cache of bchutil.Tx is not the filter's concern
		txBig := bchutil.NewTx(testTxBigMsg)
		f, m0, m1 := fs[ti%nf], m0s[ti%nf], m1s[ti%nf]
		itemY, hashH, outO := itemsOf(ti % nf)
		bodies[ti] = func() {
			for _, op := range prog {
				if cfg.Geom == "big" {
					verifrt.Await(filterMutex(f)) // see Await: keeps the thousands of steps of a long critical section from being branch points
				}
				h := histOp{Thread: ti, Op: op, Call: verifrt.Event()}
				switch op {
				case "Add:x":
					f.Add(itemX)
				case "Add:y":
					f.Add(itemY)
				case "AddHash":
					f.AddHash(&hashH)
				case "AddOutPoint":
					o := outO
					f.AddOutPoint(&o)
				case "Add:L":
					f.Add(itemL)
				case "Matches:L":
					h.Result = fmt.Sprint(f.Matches(itemL))
				case "Matches:x":
					h.Result = fmt.Sprint(f.Matches(itemX))
				case "Matches:y":
					h.Result = fmt.Sprint(f.Matches(itemY))
				case "MatchesOutPoint":
					o := outO
					h.Result = fmt.Sprint(f.MatchesOutPoint(&o))
				case "MatchTx":
					h.Result = fmt.Sprint(f.MatchTxAndUpdate(tx))
				case "MatchTxMS":
					h.Result = fmt.Sprint(f.MatchTxAndUpdate(bchutil.NewTx(testTxMSMsg)))
				case "MatchesOutPointMS":
					o := wire.OutPoint{Hash: testTxMSID, Index: 0}
					h.Result = fmt.Sprint(f.MatchesOutPoint(&o))
				case "MatchTxBig":
					h.Result = fmt.Sprint(f.MatchTxAndUpdate(txBig))
				case "Reload":
					f.Reload(m1)
				case "Unload":
					f.Unload()
				case "IsLoaded":
					h.Result = fmt.Sprint(f.IsLoaded())
				case "Msg":
					switch f.MsgFilterLoad() {
					case nil:
						h.Result = "nil"
					case m0:
						h.Result = "m0"
					case m1:
						h.Result = "m1"
					default:
						h.Result = "other"
					}
				default:
					panic("unknown op " + op)
				}
				h.Ret = verifrt.Event()
				hists[ti] = append(hists[ti], h)
			}
		}
	}
	horizon := 5000
	if nf > 1 {
		// only what the package shares between filters matters here
		verifrt.SkipLocal = true
		defer func() { verifrt.SkipLocal = false }()
	}
	if cfg.Geom == "big" {
		horizon = 2000000
		// statements that announce no shared access are not scheduling points here either (a thread
		// preempted after its unlock would otherwise be "enabled" at every one of the thousands of
		// steps of the other thread's critical section, each an equivalent branch)
		verifrt.EagerStart, verifrt.SkipLocal = true, true
		defer func() { verifrt.EagerStart, verifrt.SkipLocal = false, false }()
	}
	e := verifrt.Run(bodies, horizon, choose)
	o := &Outcome{Exec: e}
	var hist []histOp
	for _, h := range hists {
		hist = append(hist, h...)
	}
	sort.Slice(hist, func(i, j int) bool { return hist[i].Call < hist[j].Call })
	// final observed state (scheduler inactive now: plain calls)
	finals := make([]string, nf)
	for i, f := range fs {
		loaded := 0
		switch f.MsgFilterLoad() {
		case m0s[i]:
			loaded = 1
		case m1s[i]:
			loaded = 2
		}
		finals[i] = fmt.Sprintf("%d/%x/%x", loaded, m0s[i].Filter, m1s[i].Filter)
	}
	final := strings.Join(finals, " | ")
	var sb strings.Builder
	for _, h := range hist {
		fmt.Fprintf(&sb, "t%d:%s=%s ", h.Thread, h.Op, h.Result)
	}
	sb.WriteString("=> " + final)
	o.Summary = sb.String()
	for _, t := range e.Threads {
		if t.Panic != "" {
			o.Class, o.Problem = "panic-in-concurrent-call", fmt.Sprintf("thread %d panicked: %s", t.ID, t.Panic)
			return o
		}
	}
	if len(e.Races) > 0 {
		r := e.Races[0]
		o.Class = "data-race/" + r.Path
		o.Problem = fmt.Sprintf("threads %d and %d simultaneously enabled at conflicting accesses to %s[%d] (filter.go:%d write=%v, filter.go:%d write=%v)", r.A, r.B, r.Path, r.Idx, r.SiteA, r.WriteA, r.SiteB, r.WriteB)
		return o
	}
	if e.Deadlock {
		o.Class, o.Problem = "deadlock", "no enabled thread while some thread has not finished"
		return o
	}
	if e.Horizon {
		o.Class, o.Problem = "no-termination-within-horizon", "step horizon reached"
		return o
	}
	for i := range fs {
		var hi []histOp
		for _, h := range hist {
			if h.Thread%nf == i {
				hi = append(hi, h)
			}
		}
		if ok, _ := linearizable(cfg.Geom, i, hi, finals[i]); !ok {
			o.Class, o.Problem = "not-linearizable", "no sequential order of the calls consistent with real-time precedence explains the results and the final filter state: "+o.Summary
			if nf > 1 {
				o.Class = "filters-interfere-with-each-other"
				o.Problem = fmt.Sprintf("filter %d, used by its own goroutine only, did not behave as if used alone while another goroutine used another filter: %s", i, o.Summary)
			}
			return o
		}
	}
	return o
}
