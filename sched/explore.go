// Package sched is the E-SCHED harness (C20): a depth-first explorer over the choice sequences of
// the verifrt cooperative scheduler with a preemption bound, a linearizability oracle against the
// sequential BIP37 reference model and the co-enabled-conflict data-race oracle.
package sched

import (
	"fmt"

	"github.com/gcash/bchutil/verifrt"
)

// Result of one complete execution, produced by the harness after verifrt.Run returns.
type Outcome struct {
	Exec    *verifrt.Exec
	Choices []int
	Problem string // "" if every oracle passed
	Class   string
	Summary string // canonical description of what was observed (for counting distinct outcomes)
	Writes  int    // announced writes to shared state (informational)
}

type Explorer struct {
	Bound      int
	MaxExecs   int
	Run        func(choose func(step int, enabled []int, runningEnabled bool) int) *Outcome
	OnOutcome  func(o *Outcome)
	Execs      int
	Points     int64
	Contended  int64 // points with >= 2 enabled threads
	Capped     bool
	Divergence string
	// StopOnProblem: end the exploration of this configuration at the first execution on which an
	// oracle fails (used for configurations whose executions are long: one witness is enough)
	StopOnProblem bool
	Stopped       bool
}

// run replays prefix then takes choice 0 at every later point.
func (e *Explorer) run(prefix []int) *Outcome {
	o := e.Run(func(step int, enabled []int, runningEnabled bool) int {
		if step < len(prefix) {
			if prefix[step] >= len(enabled) {
				e.Divergence = fmt.Sprintf("replay divergence at step %d: choice %d but only %d enabled", step, prefix[step], len(enabled))
				return 0
			}
			return prefix[step]
		}
		return 0
	})
	o.Choices = make([]int, len(o.Exec.Points))
	for i, p := range o.Exec.Points {
		o.Choices[i] = p.Chosen
	}
	return o
}

func preemptionsBefore(pts []verifrt.Point, n int) int {
	c := 0
	for i := 0; i < n; i++ {
		if pts[i].RunningEnabled && pts[i].Chosen != 0 {
			c++
		}
	}
	return c
}

// Explore enumerates every execution with at most Bound preemptions (iterative idiom of
// Musuvathi/Qadeer: alternatives at each point after the replayed prefix).
func (e *Explorer) Explore() {
	e.explore(nil)
}

func (e *Explorer) explore(prefix []int) {
	if e.Capped || e.Stopped || e.Divergence != "" {
		return
	}
	if e.MaxExecs > 0 && e.Execs >= e.MaxExecs {
		e.Capped = true
		return
	}
	o := e.run(prefix)
	e.Execs++
	pts := o.Exec.Points
	e.Points += int64(len(pts))
	for _, p := range pts[min(len(prefix), len(pts)):] {
		if len(p.Enabled) >= 2 {
			e.Contended++
		}
	}
	e.OnOutcome(o)
	if e.StopOnProblem && o.Problem != "" {
		e.Stopped = true
		return
	}
	for i := len(prefix); i < len(pts); i++ {
		p := pts[i]
		cost := preemptionsBefore(pts, i)
		if p.RunningEnabled {
			cost++
		}
		if cost > e.Bound {
			continue
		}
		for alt := 1; alt < len(p.Enabled); alt++ {
			np := append(append([]int{}, o.Choices[:i]...), alt)
			e.explore(np)
		}
	}
}
