package sched

import (
	"fmt"
	"strings"

	"github.com/gcash/bchutil/gcs"
	"github.com/gcash/bchutil/verifrt"
)

type GCSConfig struct {
	Progs [][]string `json:"programs"`
}

var GCSOps = []string{"Match:a", "Match:z", "MatchAny", "ZipMatchAny", "ZipMatchAny:miss", "MatchAny:miss1", "HashMatchAny", "HashMatchAny:miss", "Bytes", "NBytes", "NPBytes", "N", "P"}

var gcsKey = [16]byte{1, 2, 3, 4, 5, 6, 7, 8, 9, 10, 11, 12, 13, 14, 15, 16}
var gcsItems = [][]byte{[]byte("a"), []byte("b"), []byte("c"), []byte("d"), []byte("e"), []byte("f")}
var gcsQuery = [][]byte{[]byte("q1"), []byte("c"), []byte("q2")}

// queries that differ in content and length from gcsQuery and match nothing: two threads running
// different queries expose any scratch state shared between queries
var gcsMiss = [][]byte{[]byte("n1"), []byte("n2"), []byte("n3"), []byte("n4"), []byte("n5")}
var gcsMiss1 = [][]byte{[]byte("n6")}

func gcsDo(f *gcs.Filter, op string) string {
	switch op {
	case "Match:a":
		r, err := f.Match(gcsKey, []byte("a"))
		return fmt.Sprint(r, err)
	case "Match:z":
		r, err := f.Match(gcsKey, []byte("z"))
		return fmt.Sprint(r, err)
	case "MatchAny":
		r, err := f.MatchAny(gcsKey, gcsQuery)
		return fmt.Sprint(r, err)
	case "ZipMatchAny":
		r, err := f.ZipMatchAny(gcsKey, gcsQuery)
		return fmt.Sprint(r, err)
	case "HashMatchAny":
		r, err := f.HashMatchAny(gcsKey, gcsQuery)
		return fmt.Sprint(r, err)
	case "ZipMatchAny:miss":
		r, err := f.ZipMatchAny(gcsKey, gcsMiss)
		return fmt.Sprint(r, err)
	case "MatchAny:miss1":
		r, err := f.MatchAny(gcsKey, gcsMiss1)
		return fmt.Sprint(r, err)
	case "HashMatchAny:miss":
		r, err := f.HashMatchAny(gcsKey, gcsMiss)
		return fmt.Sprint(r, err)
	case "Bytes":
		b, err := f.Bytes()
		return fmt.Sprintf("%x %v", b, err)
	case "NBytes":
		b, err := f.NBytes()
		return fmt.Sprintf("%x %v", b, err)
	case "NPBytes":
		b, err := f.NPBytes()
		return fmt.Sprintf("%x %v", b, err)
	case "N":
		return fmt.Sprint(f.N())
	case "P":
		return fmt.Sprint(f.P())
	}
	panic("unknown op " + op)
}

// RunGCS executes one schedule: every thread queries one shared immutable filter.
func RunGCS(cfg GCSConfig, choose func(step int, enabled []int, runningEnabled bool) int) *Outcome {
	f, err := gcs.BuildGCSFilter(2, 5, gcsKey, gcsItems)
	if err != nil {
		panic(err)
	}
	before, _ := f.NPBytes()
	// sequential expectations (scheduler inactive), computed on a separate, identically built
	// filter so that the shared one is untouched when the threads start
	seq, _ := gcs.BuildGCSFilter(2, 5, gcsKey, gcsItems)
	want := map[string]string{}
	for _, op := range GCSOps {
		want[op] = gcsDo(seq, op)
	}
	results := make([][]string, len(cfg.Progs))
	bodies := make([]func(), len(cfg.Progs))
	for ti, prog := range cfg.Progs {
		ti, prog := ti, prog
		bodies[ti] = func() {
			for _, op := range prog {
				results[ti] = append(results[ti], gcsDo(f, op))
			}
		}
	}
	e := verifrt.Run(bodies, 20000, choose)
	o := &Outcome{Exec: e}
	var sb strings.Builder
	for ti, r := range results {
		fmt.Fprintf(&sb, "t%d:%v ", ti, r)
	}
	o.Summary = sb.String()
	for _, t := range e.Threads {
		if t.Panic != "" {
			o.Class, o.Problem = "gcs/panic-in-concurrent-query", fmt.Sprintf("thread %d: %s", t.ID, t.Panic)
			return o
		}
	}
	if len(e.Writes) > 0 {
		w := e.Writes[0]
		o.Class, o.Problem = "gcs/query-writes-shared-filter-state", fmt.Sprintf("a query method announced a write to %s", w.Path)
		return o
	}
	if len(e.Races) > 0 {
		o.Class, o.Problem = "gcs/data-race", e.Races[0].Path
		return o
	}
	if e.Deadlock || e.Horizon {
		o.Class, o.Problem = "gcs/no-termination", "deadlock or horizon"
		return o
	}
	for ti, prog := range cfg.Progs {
		for i, op := range prog {
			if i >= len(results[ti]) || results[ti][i] != want[op] {
				o.Class, o.Problem = "gcs/concurrent-result-differs-from-sequential", fmt.Sprintf("thread %d %s: got %v want %s", ti, op, results[ti], want[op])
				return o
			}
		}
	}
	after, _ := f.NPBytes()
	if string(after) != string(before) {
		o.Class, o.Problem = "gcs/filter-changed-by-queries", ""
	}
	return o
}
