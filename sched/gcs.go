package sched

import (
	"fmt"
	"strings"

	"github.com/gcash/bchutil/gcs"
	"github.com/gcash/bchutil/verifrt"
)

type GCSConfig struct {
	Progs [][]string `json:"programs"`
	// Big: the shared filter has 1100 elements (P=19, M=784931) and is rebuilt from its serialised
	// bytes for every execution; statements without a shared access are not scheduling points
	// (verifrt.SkipLocal), which keeps the thousands of local decoding steps out of the schedule space
	Big bool `json:"big_filter,omitempty"`
	// Two: thread i queries filter i (two filters of equal size over different items): immutable filters
	// do not interfere with one another either.  Poison: before the threads start, one query is made
	// on a MALFORMED filter (declared N larger than its data holds: the decoder runs into the end of
	// the data), the error path on which pooled scratch space is most easily mishandled.
	Two    bool `json:"two_filters,omitempty"`
	Poison bool `json:"query_on_malformed_filter_first,omitempty"`
}

var gcsItems2 = [][]byte{[]byte("g"), []byte("h"), []byte("i"), []byte("j"), []byte("k"), []byte("l")}

// gcsDo2: the alphabet of the two-filter configurations, relative to the thread's own filter
var GCSTwoOps = []string{"Match:own", "Match:other", "MatchAny:own", "ZipMatchAny:own", "HashMatchAny:own", "HashMatchAny:other"}

func gcsDo2(f *gcs.Filter, which int, op string) string {
	own, other := []byte("c"), []byte("i")
	if which == 1 {
		own, other = other, own
	}
	var r bool
	var err error
	switch op {
	case "Match:own":
		r, err = f.Match(gcsKey, own)
	case "Match:other":
		r, err = f.Match(gcsKey, other)
	case "MatchAny:own":
		r, err = f.MatchAny(gcsKey, [][]byte{[]byte("q1"), own})
	case "ZipMatchAny:own":
		r, err = f.ZipMatchAny(gcsKey, [][]byte{[]byte("q1"), own, []byte("q2")})
	case "HashMatchAny:own":
		r, err = f.HashMatchAny(gcsKey, [][]byte{own})
	case "HashMatchAny:other":
		r, err = f.HashMatchAny(gcsKey, [][]byte{other, []byte("q3")})
	default:
		panic("unknown op " + op)
	}
	return fmt.Sprint(r, err)
}

// big-filter alphabet: members, a non-member, a query long enough to take MatchAny's hashing strategy
var GCSBigOps = []string{"Match:m0", "Match:mLast", "Match:z", "HashMatchAny:m", "HashMatchAny:miss", "ZipMatchAny:m", "MatchAny:m", "MatchAny:long"}

var (
	gcsBigItems = func() [][]byte {
		var out [][]byte
		for i := 0; i < 1100; i++ {
			out = append(out, []byte(fmt.Sprintf("member-%d", i)))
		}
		return out
	}()
	gcsBigLong = func() [][]byte { // 600 non-members followed by one member: longer than N/2
		var out [][]byte
		for i := 0; i < 600; i++ {
			out = append(out, []byte(fmt.Sprintf("other-%d", i)))
		}
		return append(out, []byte("member-777"))
	}()
	gcsBigBytes []byte
)

func gcsBigFilter() *gcs.Filter {
	if gcsBigBytes == nil {
		f, err := gcs.BuildGCSFilter(19, 784931, gcsKey, gcsBigItems)
		if err != nil {
			panic(err)
		}
		gcsBigBytes, _ = f.NBytes()
	}
	f, err := gcs.FromNBytes(19, 784931, append([]byte{}, gcsBigBytes...))
	if err != nil {
		panic(err)
	}
	return f
}

func gcsBigDo(f *gcs.Filter, op string) string {
	var r bool
	var err error
	switch op {
	case "Match:m0":
		r, err = f.Match(gcsKey, []byte("member-0"))
	case "Match:mLast":
		r, err = f.Match(gcsKey, []byte("member-1099"))
	case "Match:z":
		r, err = f.Match(gcsKey, []byte("zzz"))
	case "HashMatchAny:m":
		r, err = f.HashMatchAny(gcsKey, [][]byte{[]byte("member-5")})
	case "HashMatchAny:miss":
		r, err = f.HashMatchAny(gcsKey, [][]byte{[]byte("n1"), []byte("n2")})
	case "ZipMatchAny:m":
		r, err = f.ZipMatchAny(gcsKey, [][]byte{[]byte("n1"), []byte("member-600")})
	case "MatchAny:m":
		r, err = f.MatchAny(gcsKey, [][]byte{[]byte("member-3")})
	case "MatchAny:long":
		r, err = f.MatchAny(gcsKey, gcsBigLong)
	default:
		panic("unknown op " + op)
	}
	return fmt.Sprint(r, err)
}

var gcsBigWant = map[string]string{}

var GCSOps = []string{"Match:a", "Match:z", "MatchAny", "ZipMatchAny", "ZipMatchAny:miss", "MatchAny:miss1", "HashMatchAny", "HashMatchAny:miss", "Bytes", "NBytes", "NPBytes", "N", "P"}

var gcsKey = [16]byte{1, 2, 3, 4, 5, 6, 7, 8, 9, 10, 11, 12, 13, 14, 15, 16}
var gcsItems = [][]byte{[]byte("a"), []byte("b"), []byte("c"), []byte("d"), []byte("e"), []byte("f")}
var gcsQuery = [][]byte{[]byte("q1"), []byte("c"), []byte("q2")}

// queries that differ in content and length from gcsQuery and match nothing: two threads running
// different queries expose any scratch state shared between queries
var gcsMiss = [][]byte{[]byte("n1"), []byte("n2"), []byte("n3"), []byte("n4"), []byte("n5")}
var gcsMiss1 = [][]byte{[]byte("n6")}

func gcsDo(f *gcs.Filter, op string) string {
	switch op {
	case "Match:a":
		r, err := f.Match(gcsKey, []byte("a"))
		return fmt.Sprint(r, err)
	case "Match:z":
		r, err := f.Match(gcsKey, []byte("z"))
		return fmt.Sprint(r, err)
	case "MatchAny":
		r, err := f.MatchAny(gcsKey, gcsQuery)
		return fmt.Sprint(r, err)
	case "ZipMatchAny":
		r, err := f.ZipMatchAny(gcsKey, gcsQuery)
		return fmt.Sprint(r, err)
	case "HashMatchAny":
		r, err := f.HashMatchAny(gcsKey, gcsQuery)
		return fmt.Sprint(r, err)
	case "ZipMatchAny:miss":
		r, err := f.ZipMatchAny(gcsKey, gcsMiss)
		return fmt.Sprint(r, err)
	case "MatchAny:miss1":
		r, err := f.MatchAny(gcsKey, gcsMiss1)
		return fmt.Sprint(r, err)
	case "HashMatchAny:miss":
		r, err := f.HashMatchAny(gcsKey, gcsMiss)
		return fmt.Sprint(r, err)
	case "Bytes":
		b, err := f.Bytes()
		return fmt.Sprintf("%x %v", b, err)
	case "NBytes":
		b, err := f.NBytes()
		return fmt.Sprintf("%x %v", b, err)
	case "NPBytes":
		b, err := f.NPBytes()
		return fmt.Sprintf("%x %v", b, err)
	case "N":
		return fmt.Sprint(f.N())
	case "P":
		return fmt.Sprint(f.P())
	}
	panic("unknown op " + op)
}

// RunGCS executes one schedule: every thread queries one shared immutable filter.
func RunGCS(cfg GCSConfig, choose func(step int, enabled []int, runningEnabled bool) int) *Outcome {
	var f *gcs.Filter
	do := gcsDo
	want := map[string]string{}
	if cfg.Big {
		f = gcsBigFilter()
		do = gcsBigDo
		// sequential expectation of each operation: on a fresh filter of its own (computed once)
		if len(gcsBigWant) == 0 {
			for _, op := range GCSBigOps {
				gcsBigWant[op] = gcsBigDo(gcsBigFilter(), op)
			}
		}
		want = gcsBigWant
		verifrt.SkipLocal = true
		defer func() { verifrt.SkipLocal = false }()
	} else {
		var err error
		f, err = gcs.BuildGCSFilter(2, 5, gcsKey, gcsItems)
		if err != nil {
			panic(err)
		}
		// sequential expectations (scheduler inactive), computed on a separate, identically built
		// filter so that the shared one is untouched when the threads start
		seq, _ := gcs.BuildGCSFilter(2, 5, gcsKey, gcsItems)
		for _, op := range GCSOps {
			want[op] = gcsDo(seq, op)
		}
	}
	var fs [2]*gcs.Filter
	want2 := [2]map[string]string{{}, {}}
	if cfg.Two {
		for k, items := range [][][]byte{gcsItems, gcsItems2} {
			fk, err := gcs.BuildGCSFilter(19, 784931, gcsKey, items)
			if err != nil {
				panic(err)
			}
			fs[k] = fk
			seq, _ := gcs.BuildGCSFilter(19, 784931, gcsKey, items)
			for _, op := range GCSTwoOps {
				want2[k][op] = gcsDo2(seq, k, op)
			}
		}
		f = fs[0]
		if cfg.Poison {
			nb, _ := fs[0].NBytes()
			bad := append([]byte{}, nb...)
			bad[0] = 60 // declares 60 elements; the data holds 6
			if mf, err := gcs.FromNBytes(19, 784931, bad); err == nil {
				mf.Match(gcsKey, []byte("zzz"))
				mf.HashMatchAny(gcsKey, [][]byte{[]byte("zzz")})
				mf.ZipMatchAny(gcsKey, [][]byte{[]byte("zzz")})
			}
		}
	}
	before, _ := f.NPBytes()
	results := make([][]string, len(cfg.Progs))
	bodies := make([]func(), len(cfg.Progs))
	for ti, prog := range cfg.Progs {
		ti, prog := ti, prog
		bodies[ti] = func() {
			for _, op := range prog {
				if cfg.Two {
					results[ti] = append(results[ti], gcsDo2(fs[ti%2], ti%2, op))
				} else {
					results[ti] = append(results[ti], do(f, op))
				}
			}
		}
	}
	e := verifrt.Run(bodies, 200000, choose)
	o := &Outcome{Exec: e}
	var sb strings.Builder
	for ti, r := range results {
		fmt.Fprintf(&sb, "t%d:%v ", ti, r)
	}
	o.Summary = sb.String()
	for _, t := range e.Threads {
		if t.Panic != "" {
			o.Class, o.Problem = "gcs/panic-in-concurrent-query", fmt.Sprintf("thread %d: %s", t.ID, t.Panic)
			return o
		}
	}
	// A write announced by a query is NOT reported by itself: a correctly synchronised cache inside the
	// filter is compatible with the statement.  Unsynchronised writes show up as data races below,
	// wrong answers as result differences, and a changed serialisation at the end.
	if len(e.Writes) > 0 {
		o.Writes = len(e.Writes)
	}
	if len(e.Races) > 0 {
		o.Class, o.Problem = "gcs/data-race", e.Races[0].Path
		return o
	}
	if e.Deadlock || e.Horizon {
		o.Class, o.Problem = "gcs/no-termination", "deadlock or horizon"
		return o
	}
	for ti, prog := range cfg.Progs {
		for i, op := range prog {
			if cfg.Two {
				if i >= len(results[ti]) || results[ti][i] != want2[ti%2][op] {
					o.Class, o.Problem = "gcs/filters-interfere-with-each-other", fmt.Sprintf("thread %d (its own filter) %s: got %v want %s", ti, op, results[ti], want2[ti%2][op])
					return o
				}
				continue
			}
			if i >= len(results[ti]) || results[ti][i] != want[op] {
				o.Class, o.Problem = "gcs/concurrent-result-differs-from-sequential", fmt.Sprintf("thread %d %s: got %v want %s", ti, op, results[ti], want[op])
				return o
			}
		}
	}
	after, _ := f.NPBytes()
	if string(after) != string(before) {
		o.Class, o.Problem = "gcs/filter-changed-by-queries", ""
	}
	return o
}
